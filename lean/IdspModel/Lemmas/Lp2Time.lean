import Mathlib.Tactic.Ring
import Mathlib.Tactic.Linarith
import Mathlib.Tactic.Positivity
/-!
# Explicit-time lemmas (abstract integer sequences)

`lp2_halve_W`: a sequence with `p·W' ≤ q·W` (`0 ≤ q < p`) halves its positive part every `m ≥ p/(p−q)` steps — by a
linear argument, no powers.  `lp2_time_W`: after `L·m` steps it is below `max(W₀,0)/2^L`.
`lp2_enter_time`: a sequence that decreases by at least `a·e/(11b)` per step while above `R` (and never jumps
across `[−R, R]`) is inside `[−R, R]` after at most `L·m` steps if it starts below `2^L·R`.
-/
namespace Idsp
set_option linter.unusedVariables false

theorem lp2_halve_W {p q : Int} (hq0 : 0 ≤ q) (hqp : q ≤ p) (hp : 0 < p) (W : Nat → Int)
    (hW : ∀ n, p * W (n + 1) ≤ q * W n) (m : Nat) (hm : p ≤ m * (p - q)) (n : Nat) :
    2 * W (n + m) ≤ max (W n) 0 := by
  set X := max (W n) 0 with hX
  have hX0 : 0 ≤ X := le_max_right _ _
  have hWX : W n ≤ X := le_max_left _ _
  have key : ∀ j : Nat, W (n + j) ≤ X ∧ (2 * W (n + j) ≤ X ∨ 2 * p * W (n + j) ≤ 2 * p * X - j * (p - q) * X) := by
    intro j
    induction j with
    | zero => exact ⟨hWX, Or.inr (by simp; nlinarith)⟩
    | succ j ih =>
      obtain ⟨h1, h2⟩ := ih
      have hs := hW (n + j)
      have hle : W (n + (j + 1)) ≤ X := by
        have : p * W (n + j + 1) ≤ p * X := by nlinarith
        exact le_of_mul_le_mul_left this hp
      refine ⟨hle, ?_⟩
      rcases h2 with h2 | h2
      · left
        have : p * (2 * W (n + j + 1)) ≤ p * X := by nlinarith
        exact le_of_mul_le_mul_left this hp
      · by_cases hc : 2 * W (n + j) ≤ X
        · left
          have : p * (2 * W (n + j + 1)) ≤ p * X := by nlinarith
          exact le_of_mul_le_mul_left this hp
        · right
          have hd : 0 ≤ p - q := by omega
          have h3 : (p - q) * X ≤ (p - q) * (2 * W (n + j)) := mul_le_mul_of_nonneg_left (by omega) hd
          rw [show n + (j + 1) = n + j + 1 by omega]
          push_cast
          nlinarith
  obtain ⟨-, h2⟩ := key m
  rcases h2 with h2 | h2
  · exact h2
  · have : (m : Int) * (p - q) * X ≥ p * X := mul_le_mul_of_nonneg_right hm hX0
    have : p * (2 * W (n + m)) ≤ p * X := by nlinarith
    exact le_of_mul_le_mul_left this hp

theorem lp2_time_W {p q : Int} (hq0 : 0 ≤ q) (hqp : q ≤ p) (hp : 0 < p) (W : Nat → Int)
    (hW : ∀ n, p * W (n + 1) ≤ q * W n) (m : Nat) (hm : p ≤ m * (p - q)) (L : Nat) :
    2 ^ L * W (L * m) ≤ max (W 0) 0 := by
  induction L with
  | zero => simp
  | succ L ih =>
    have h := lp2_halve_W hq0 hqp hp W hW m hm (L * m)
    rw [show (L + 1) * m = L * m + m by ring]
    have h0 : (0 : Int) ≤ max (W 0) 0 := le_max_right _ _
    rcases le_total (W (L * m)) 0 with hneg | hpos
    · rw [max_eq_right hneg] at h
      have : (2 : Int) ^ (L + 1) * W (L * m + m) ≤ 0 := by
        have h2 : (0 : Int) ≤ 2 ^ L := by positivity
        rw [pow_succ]; nlinarith
      linarith
    · rw [max_eq_left hpos] at h
      have h2 : (0 : Int) ≤ 2 ^ L := by positivity
      rw [pow_succ]; nlinarith

/-- once non-positive, always non-positive -/
theorem lp2_W_stay {p q : Int} (hq0 : 0 ≤ q) (hp : 0 < p) (W : Nat → Int)
    (hW : ∀ n, p * W (n + 1) ≤ q * W n) (n0 : Nat) (h0 : W n0 ≤ 0) : ∀ j, W (n0 + j) ≤ 0 := by
  intro j
  induction j with
  | zero => exact h0
  | succ j ih =>
    have := hW (n0 + j)
    have h1 : q * W (n0 + j) ≤ 0 := mul_nonpos_of_nonneg_of_nonpos hq0 ih
    have : p * W (n0 + j + 1) ≤ p * 0 := by linarith
    exact le_of_mul_le_mul_left this hp

/-- entering `[−R, R]` in explicit time (upper side) -/
theorem lp2_enter_time_pos {a b R : Int} (ha : 0 < a) (hb : 0 < b) (hR : 0 ≤ R) (e : Nat → Int)
    (hsecL : ∀ n, -R ≤ e (n + 1) ∨ e n ≤ e (n + 1))
    (hdec : ∀ n, R < e n → R < e (n + 1) → a * e n ≤ 11 * b * (e n - e (n + 1)))
    (m : Nat) (hm : 11 * b ≤ m * a) :
    ∀ L : Nat, ∀ n0 : Nat, R < e n0 → e n0 ≤ 2 ^ L * R → ∃ n, n ≤ n0 + L * m ∧ -R ≤ e n ∧ e n ≤ R := by
  -- one halving
  have halve : ∀ n0 : Nat, R < e n0 →
      (∃ n, n ≤ n0 + m ∧ -R ≤ e n ∧ e n ≤ R) ∨ (R < e (n0 + m) ∧ 2 * e (n0 + m) ≤ e n0) := by
    intro n0 h0
    set X := e n0 with hX
    have key : ∀ j : Nat, (∃ n, n ≤ n0 + j ∧ -R ≤ e n ∧ e n ≤ R) ∨
        (R < e (n0 + j) ∧ e (n0 + j) ≤ X ∧
          (2 * e (n0 + j) ≤ X ∨ 22 * b * e (n0 + j) ≤ 22 * b * X - j * a * X)) := by
      intro j
      induction j with
      | zero => right; exact ⟨h0, le_refl _, Or.inr (by simp [hX])⟩
      | succ j ih =>
        rcases ih with ⟨n, hn, h1, h2⟩ | ⟨hgt, hle, h3⟩
        · left; exact ⟨n, by omega, h1, h2⟩
        · by_cases hin : e (n0 + j + 1) ≤ R
          · left
            refine ⟨n0 + j + 1, by omega, ?_, hin⟩
            rcases hsecL (n0 + j) with h | h
            · exact h
            · omega
          · right
            have hgt' : R < e (n0 + j + 1) := by omega
            have hd := hdec (n0 + j) hgt hgt'
            have hpos : 0 < e (n0 + j) := by omega
            have hmono : e (n0 + j + 1) ≤ e (n0 + j) := by
              have : 0 ≤ a * e (n0 + j) := by positivity
              have : 0 ≤ 11 * b * (e (n0 + j) - e (n0 + j + 1)) := by linarith
              by_contra hc
              have : 11 * b * (e (n0 + j) - e (n0 + j + 1)) < 0 := by
                apply mul_neg_of_pos_of_neg (by positivity); omega
              linarith
            refine ⟨hgt', by rw [show n0 + (j + 1) = n0 + j + 1 by omega]; omega, ?_⟩
            rw [show n0 + (j + 1) = n0 + j + 1 by omega]
            rcases h3 with h3 | h3
            · left; omega
            · by_cases hc : 2 * e (n0 + j) ≤ X
              · left; omega
              · right
                have h4 : a * X ≤ a * (2 * e (n0 + j)) := mul_le_mul_of_nonneg_left (by omega) (le_of_lt ha)
                push_cast
                nlinarith
    rcases key m with h | ⟨hgt, hle, h3⟩
    · left; exact h
    · right
      refine ⟨hgt, ?_⟩
      rcases h3 with h3 | h3
      · exact h3
      · have hX0 : 0 ≤ X := by omega
        have : (m : Int) * a * X ≥ 11 * b * X := mul_le_mul_of_nonneg_right hm hX0
        have : 11 * b * (2 * e (n0 + m)) ≤ 11 * b * X := by nlinarith
        exact le_of_mul_le_mul_left this (by positivity)
  intro L
  induction L with
  | zero =>
    intro n0 h0 h1
    simp at h1
    omega
  | succ L ih =>
    intro n0 h0 h1
    rcases halve n0 h0 with ⟨n, hn, h2, h3⟩ | ⟨hgt, h2⟩
    · exact ⟨n, by rw [show (L + 1) * m = L * m + m by ring]; omega, h2, h3⟩
    · have h4 : e (n0 + m) ≤ 2 ^ L * R := by
        have : 2 * e (n0 + m) ≤ 2 * (2 ^ L * R) := by rw [pow_succ] at h1; nlinarith
        omega
      obtain ⟨n, hn, h5, h6⟩ := ih (n0 + m) hgt h4
      exact ⟨n, by rw [show (L + 1) * m = L * m + m by ring]; omega, h5, h6⟩

end Idsp
