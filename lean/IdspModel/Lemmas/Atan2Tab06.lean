import IdspModel.Lemmas.Atan2Tab
/-! `atani` table, chunk 6 of 8: quotient fields 49152 … 57344 (complete range, evaluated by the kernel). -/
namespace Idsp

theorem atanTab6 : atanRun 49152 8193 = true := by decide +kernel

end Idsp
