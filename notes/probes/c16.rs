use idsp::*;
use std::collections::{HashMap, VecDeque};
use std::panic::catch_unwind;
// BFS over Dsm<K> states on input lattice {0, 2^31, 2^30*{1,3}} to find extreme outputs
fn bfs<const K: usize>(inputs: &[u32]) {
    let mut seen: HashMap<String, (Option<String>, u32)> = HashMap::new();
    let mut q = VecDeque::new();
    let d0 = Dsm::<K>::default();
    seen.insert(format!("{:?}", d0), (None, 0)); q.push_back(d0);
    let (mut mn, mut mx) = (0i32, 0i32); let mut panic_at = None;
    while let Some(d) = q.pop_front() {
        for &x in inputs {
            let mut e = d;
            let r = catch_unwind(move || { let y = e.update(x); (e, y) });
            match r { Ok((e, y)) => { mn = mn.min(y as i32); mx = mx.max(y as i32);
                let k = format!("{:?}", e); if !seen.contains_key(&k) { seen.insert(k, (Some(format!("{:?}", d)), x)); q.push_back(e); } }
                Err(_) => { if panic_at.is_none() { // reconstruct path
                    let mut path = vec![x]; let mut cur = format!("{:?}", d);
                    while let Some((Some(p), xi)) = seen.get(&cur).cloned() { path.push(xi); cur = p; }
                    path.reverse(); panic_at = Some(path); } } }
        }
        if seen.len() > 3_000_000 { break; }
    }
    println!("K={} states {} range [{}, {}] panic path {:x?}", K, seen.len(), mn, mx, panic_at);
}
fn main() {
    std::panic::set_hook(Box::new(|_| {}));
    for bits in 2..=3u32 { let l: Vec<u32> = (0..(1u32<<bits)).map(|i| i << (32-bits)).collect(); println!("bits {}", bits);
 bfs::<3>(&l); bfs::<4>(&l); bfs::<5>(&l); bfs::<6>(&l); bfs::<7>(&l); bfs::<8>(&l); }
}
