import IdspModel.Props.C10lp2
import IdspModel.Lemmas.Lp2TimeW
import IdspModel.Lemmas.Lp2TimeBigModel
/-!
# C10, second-order clause — explicit settling time (and overshoot) for `Lowpass<2>` with Butterworth gains

Companion of `Props/C10lp2.lean` (same notation).  The settling time is made explicit: the excess of the quadratic
form over its equilibrium level halves every `lp2M1 a b ≈ (2^32−b)/(b−2a) ≤ 3·2^32/k + 4` updates (275 halvings bring
it from any safe region to zero), and in the settled region the centred error halves every
`lp2M2 a b ≈ 11b/a ≤ 44·2^32/k + 45` updates until it is tight (28 halvings);
`lp2T a b = 275·lp2M1 + 28·lp2M2 ≤ 2332·(2^32/k + 1)` (`lp2T_le`).
-/
namespace Idsp
set_option linter.unusedVariables false

/-- **Explicit settling time, steps up to `3·2^28`** (`_partial`: for larger steps see
    `lp2_level_change_pm2p30_time`).  Same setting as `lp2_level_change_pm2p30_step` (every documented Butterworth
    pair, new level `|x| ≤ 2^30`, `|x − xo| ≤ 3·2^28`, start state `Lp2Start2` at `xo`).  For EVERY
    `n ≥ 2332·(2^32/k + 1)` (integer division): the `n` updates run without panic, the state is a start state at `x`,
    `|get() − x| ≤ 4·2^32/k + 4`, and the next returned output satisfies `|y − x| ≤ 4·2^32/k + 4`. -/
theorem lp2_level_change_pm2p30_time_partial (m : Mode) {k a b x xo : Int} (h : Lp2Butter k a b)
    (hx0 : -1073741824 ≤ x) (hx1 : x ≤ 1073741824)
    (hd0 : -805306368 ≤ x - xo) (hd1 : x - xo ≤ 805306368)
    (st : Int × Int) (hst : Lp2Start2 a b xo st) :
    ∀ n : Nat, 2332 * (4294967296 / k + 1) ≤ (n : Int) → ∃ s0 s1 s0' s1' y,
      lp2Iter m x a (-b) n st = .ok (s0, s1, s0 / 4294967296) ∧
      lp2Update m s0 s1 x a (-b) = .ok (s0', s1', y) ∧
      Lp2Start2 a b x (s0, s1) ∧
      k * (|s0 / 4294967296 - x| - 4) ≤ 4 * 4294967296 ∧
      k * (|y - x| - 4) ≤ 4 * 4294967296 := by
  have ha := h.a_ge
  have hS := lp2_safe2_W h hx0 hx1
  have hI := lp2_settled_inv2_W h hd0 hd1 st hst.1
  have hRb : lp2RW a ≤ 2 ^ 28 * lp2Rk k a := lp2_R_le_Rk h (by unfold lp2RW; nlinarith)
  intro n hn
  have hT := lp2T_le h
  obtain ⟨s0, s1, s0', s1', y, e1, e2, ht, b1, b2⟩ :=
    lp2_settle_core_time m h hS st hI (lp2_VmaxW_lt h) hRb n (by exact_mod_cast le_trans hT hn)
  exact ⟨s0, s1, s0', s1', y, e1, e2, lp2_start2_of_tight h _ ht, b1, b2⟩

/-- `k = 2^24`: after `2332·(256+1) = 599324` updates following `set(2^30)` → `2^28` the output is within 1028 LSB -/
example : ∀ n : Nat, 599324 ≤ n → ∃ s0 s1 s0' s1' y,
    lp2Iter .checked 268435456 65536 (-23726566) n (lpSet 1073741824, 0) = .ok (s0, s1, s0 / 4294967296) ∧
    lp2Update .checked s0 s1 268435456 65536 (-23726566) = .ok (s0', s1', y) ∧
    |y - 268435456| ≤ 1028 := by
  have hB : Lp2Butter 16777216 65536 23726566 := by constructor <;> norm_num
  intro n hn
  obtain ⟨s0, s1, s0', s1', y, e1, e2, -, -, hy⟩ :=
    lp2_level_change_pm2p30_time_partial .checked (x := 268435456) (xo := 1073741824) hB
      (by norm_num) (by norm_num) (by norm_num) (by norm_num) (lpSet 1073741824, 0)
      (lp2_start2_reset hB 1073741824 (by decide)) n (by norm_num; exact_mod_cast hn)
  exact ⟨s0, s1, s0', s1', y, e1, e2, by omega⟩

/-- **Explicit settling time on the full range of the clause**: `lp2_level_change_pm2p30` with the existential `N`
    replaced by `2400·(2^32/k + 1)` (integer division; `2^32/k` is the filter's time constant in updates).  EVERY
    documented Butterworth pair, levels `|xo|, |x| ≤ 2^30`, every step size up to `2^31`, start state `Lp2Start2` at
    `xo`.  In both build profiles: (1) no update ever panics or wraps; (2) for EVERY `n ≥ 2400·(2^32/k + 1)` the state
    after `n` updates is a start state at `x`, `|get() − x| ≤ 4·2^32/k + 4`, and the next returned output satisfies
    `|y − x| ≤ 4·2^32/k + 4`.
    (Budget: hand-off of a large step within `7·2^32/b + 39` updates; 275 halvings of the quadratic form's excess, one
    per `≤ 3·2^32/k + 4` updates; 28 halvings of the centred error, one per `≤ 44·2^32/k + 45` updates.) -/
theorem lp2_level_change_pm2p30_time (m : Mode) {k a b x xo : Int} (h : Lp2Butter k a b)
    (hx0 : -1073741824 ≤ x) (hx1 : x ≤ 1073741824) (ho0 : -1073741824 ≤ xo) (ho1 : xo ≤ 1073741824)
    (st : Int × Int) (hst : Lp2Start2 a b xo st) :
    (∀ n, ∃ s0 s1, lp2Iter m x a (-b) n st = .ok (s0, s1, s0 / 4294967296)) ∧
    ∀ n : Nat, 2400 * (4294967296 / k + 1) ≤ (n : Int) → ∃ s0 s1 s0' s1' y,
      lp2Iter m x a (-b) n st = .ok (s0, s1, s0 / 4294967296) ∧
      lp2Update m s0 s1 x a (-b) = .ok (s0', s1', y) ∧
      Lp2Start2 a b x (s0, s1) ∧
      k * (|s0 / 4294967296 - x| - 4) ≤ 4 * 4294967296 ∧
      k * (|y - x| - 4) ≤ 4 * 4294967296 := by
  refine ⟨(lp2_level_change_pm2p30 m h hx0 hx1 ho0 ho1 st hst).1, ?_⟩
  have hk := h.hk0
  have hq : 0 ≤ 4294967296 / k := Int.ediv_nonneg (by norm_num) (by omega)
  by_cases hsmall : -805306368 ≤ x - xo ∧ x - xo ≤ 805306368
  · intro n hn
    exact lp2_level_change_pm2p30_time_partial m h hx0 hx1 hsmall.1 hsmall.2 st hst n (by linarith)
  · have ha := h.a_ge; have hal := h.a_le; have hbl := h.b_le; have hb0 := h.hb0; have hbg := h.b_ge
    obtain ⟨sg, hsg, hd0, hd1⟩ : ∃ sg : Int, (sg = 1 ∨ sg = -1) ∧ 805306368 < sg * (x - xo) ∧
        sg * (x - xo) ≤ 2147483648 := by
      by_cases hpos : 0 ≤ x - xo
      · exact ⟨1, Or.inl rfl, by omega, by omega⟩
      · exact ⟨-1, Or.inr rfl, by omega, by omega⟩
    obtain ⟨n1, hn1T, hbox, hInv⟩ := lp2_big_model_time h hsg hx0 hx1 ho0 ho1 hd0 hd1 st hst
    have hrunS := lp2_seqS_run m x a (-b) (by omega) (by omega) (by omega) (by omega) n1 st
        (fun j hj => hbox j (by omega))
    have hS := bg_safe2 h hx0 hx1
    have hRb : bgRH a ≤ 2 ^ 28 * lp2Rk k a := lp2_R_le_Rk h (by unfold bgRH; nlinarith)
    have hcore := lp2_settle_core_time m h hS (lp2SeqS x a (-b) n1 st) hInv (lp2_bgVH_lt h) hRb
    have hsplit : ∀ i, lp2Iter m x a (-b) (n1 + i) st = lp2Iter m x a (-b) i (lp2SeqS x a (-b) n1 st) := by
      intro i
      have := lp2Iter_add m x a (-b) n1 i st _ _ _ hrunS
      simpa using this
    -- 2^32/b ≤ 2^32/k
    have hbk : k ≤ b := by have := h.b_lower; omega
    have hMb : 4294967296 / b ≤ 4294967296 / k := by
      have h1 : 4294967296 / b * b ≤ 4294967296 := Int.ediv_mul_le _ (by omega)
      have hqb : 0 ≤ 4294967296 / b := Int.ediv_nonneg (by norm_num) (by omega)
      have h2 : 4294967296 / b * k ≤ 4294967296 := by nlinarith
      exact (Int.le_ediv_iff_mul_le (by omega)).mpr h2
    have hT := lp2T_le h
    intro n hn
    have hn1n : n1 + lp2T a b ≤ n := by
      have : ((n1 + lp2T a b : Nat) : Int) ≤ n := by push_cast; linarith
      exact_mod_cast this
    obtain ⟨i, rfl⟩ : ∃ i, n = n1 + i := ⟨n - n1, by omega⟩
    obtain ⟨s0, s1, s0', s1', y, e1, e2, ht, b1, b2⟩ := hcore i (by omega)
    rw [hsplit]
    exact ⟨s0, s1, s0', s1', y, e1, e2, lp2_start2_of_tight h _ ht, b1, b2⟩

/-- the extreme step `set(-2^30)` → `2^30` with `k = 2^24`: within 1028 LSB from update `2400·257 = 616800` on -/
example : ∀ n : Nat, 616800 ≤ n → ∃ s0 s1 s0' s1' y,
    lp2Iter .checked 1073741824 65536 (-23726566) n (lpSet (-1073741824), 0) = .ok (s0, s1, s0 / 4294967296) ∧
    lp2Update .checked s0 s1 1073741824 65536 (-23726566) = .ok (s0', s1', y) ∧
    |y - 1073741824| ≤ 1028 := by
  have hB : Lp2Butter 16777216 65536 23726566 := by constructor <;> norm_num
  intro n hn
  obtain ⟨s0, s1, s0', s1', y, e1, e2, -, -, hy⟩ :=
    (lp2_level_change_pm2p30_time .checked (x := 1073741824) (xo := -1073741824) hB
      (by norm_num) (by norm_num) (by norm_num) (by norm_num) (lpSet (-1073741824), 0)
      (lp2_start2_reset hB (-1073741824) (by decide))).2 n (by norm_num; exact_mod_cast hn)
  exact ⟨s0, s1, s0', s1', y, e1, e2, by omega⟩

/-! ### Overshoot — what is and is not certified

With the machinery of `lp2_level_change_pm2p30` the excursion of the output beyond the new level is bounded only in
absolute terms: during the approach phase of a large step the signed error stays non-negative (no overshoot at all,
`lp2_big_abstract_time`: `bgThr ≤ e j` for `j < nh`), and from the hand-off on `|get() − x| ≤ 2^30 − 2` (`bg_safe2`).
Relative to the step this is 50 % only for the extreme step `2^31`.  A relative bound `c·|x − xo| + allowance`
needs the whole large-step argument with all constants scaled by the step size (the inequalities of `bg_V0`,
`bg_VH_spec'`, `bg_V`, `bg_cert2`, `bg_level`, `bg_ST_le`, `bg_window` are homogeneous of degree 2 in the step up to the
disturbance terms); the constant it would give is the design ratio of hand-off radius to start error, `c ≈ 0.5`
(`lp2_overshoot_le_50_target` below; NOT proved).
Why 5 % is out of reach of this argument: the overshoot is bounded by `√(V(crossing)/a)`, and `V(crossing)` by
`V(0)·(det A)^n` with `n` a LOWER bound of the zero-crossing time.  The two-piece velocity bound gives `n ≥ 1/β`
(true value `≈ 3π/(4β) = 2.36/β`), hence `(1−β)^(2/β) ≈ e^(−2)` instead of `e^(−3π/2)`, i.e. `√` = 37 % instead of
9.5 % (and the true minimum of the error, `e^(−π)` = 4.3 %, is reached later, at the velocity zero crossing, where
the cross term of `Q` vanishes).  Route to 5 %: (i) sharpen the crossing time by comparing with the exact
noise-free recurrence `e(n+2) = (2−2α−2β)·e(n+1) − (1+2α−2β)·e(n)` over `ℚ` (its solution is
`ρ^n·(cos nθ + c·sin nθ)`, `ρ² = det A`), with the floor terms of `lp2_error_recursion` as a bounded remainder
(ℓ¹ gain of the recursion ≈ `2/β` times the disturbance bound); (ii) because `θ/β` and `ρ` vary with `β ∈ (0, ½]`
this needs either real analysis (`arctan`, `exp` bounds uniform in `β`) or a finite table of rational certificates
in `β = b/2^32` with a Lipschitz argument between grid points — neither was attempted here. -/

/-- target (NOT proved): at most 50 % overshoot, up to the settled-error allowance, for steps of at least `2^27` -/
def lp2_overshoot_le_50_target : Prop :=
  ∀ (m : Mode) (k a b x xo : Int) (st : Int × Int) (n : Nat) (s0 s1 g s0' s1' y : Int), Lp2Butter k a b →
    -1073741824 ≤ x → x ≤ 1073741824 → -1073741824 ≤ xo → xo ≤ 1073741824 → Lp2Start2 a b xo st →
    134217728 ≤ |x - xo| →
    lp2Iter m x a (-b) n st = .ok (s0, s1, g) → lp2Update m s0 s1 x a (-b) = .ok (s0', s1', y) →
    (xo ≤ x → 2 * k * (y - x) ≤ k * (x - xo) + 2 * (4 * 4294967296 + 4 * k)) ∧
    (x ≤ xo → 2 * k * (x - y) ≤ k * (xo - x) + 2 * (4 * 4294967296 + 4 * k))

end Idsp
