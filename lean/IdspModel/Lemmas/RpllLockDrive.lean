import IdspModel.Lemmas.RpllLockPhaseRun
/-! Driving the phase-loop invariant along the model run: two edges to set it up, then geometric contraction. -/
namespace Idsp

/-- after one good edge: `f = ff + (W >> σ)` without `u32` wrap -/
def RpllCfg.QInv (c : RpllCfg) (m0 : Nat) (n : Nat) (s : RPLL) (e : Nat) (W : Int) : Prop :=
  e < n ∧ c.lastEdge ((n : Int) - 1) = c.lastEdge e ∧ c.cnt n = c.cnt e + 1 ∧ m0 ≤ c.cnt n ∧
  (-2 ^ 31 ≤ W ∧ W < 2 ^ 31) ∧ s.f = s.ff + W / c.Sg

def RpllCfg.Nrm (c : RpllCfg) (W Wp : Int) : Int := c.Sg * |W| + 2 * |Wp|
def RpllCfg.Lam (c : RpllCfg) : Int := c.D * c.Sg

/-- phase of the set-up / contraction at update `n`, counted from edge count `c0` -/
def RpllCfg.Ph (c : RpllCfg) (m0 c0 : Nat) (Q Lim : Int) (n : Nat) (s : RPLL) : Prop :=
  c0 ≤ c.cnt n ∧
  (c.cnt n = c0 + 1 → ∃ e W, c.QInv m0 n s e W) ∧
  (c0 + 2 ≤ c.cnt n → ∃ e W Wp fo, c.PInv m0 n s e W Wp fo ∧
    c.Lam ^ (c.cnt n - (c0 + 2)) * (c.Nrm W Wp - Lim)
      ≤ (c.Lam - Q) ^ (c.cnt n - (c0 + 2)) * ((c.Sg + 2) * 2 ^ 31 - Lim))

/-- at an edge update with good `ff`, the new `f` is `ff + (W' >> σ)` with the new loop error `W'` -/
theorem rpll_edge_f (c : RpllCfg) (g : c.Good) (m0 : Nat) (Ub : Int) (hg : c.FFgood m0 Ub)
    (n : Nat) (s s' : RPLL) (hm0 : m0 ≤ c.cnt n + 1) (hff : s'.ff = c.ffAt (c.cnt n + 1))
    (hf : s'.f = wrapU 32 (s'.ff + wrapU 32 (wrapI 32 (wrapI 32 (s.f / 2 ^ c.d * (c.num n % c.P)) - s'.y)
                / 2 ^ (c.sp - c.d).toNat))) :
    (-2 ^ 31 ≤ wrapI 32 (wrapI 32 (s.f / c.D * c.r n) - s'.y) ∧
      wrapI 32 (wrapI 32 (s.f / c.D * c.r n) - s'.y) < 2 ^ 31) ∧
    s'.f = s'.ff + wrapI 32 (wrapI 32 (s.f / c.D * c.r n) - s'.y) / c.Sg := by
  have hin := inI_iff.mp (wrapI_in (by decide : 0 < 32) (wrapI 32 (s.f / c.D * c.r n) - s'.y))
  have hw0 : -2 ^ 31 ≤ wrapI 32 (wrapI 32 (s.f / c.D * c.r n) - s'.y) := by simpa using hin.1
  have hw1 : wrapI 32 (wrapI 32 (s.f / c.D * c.r n) - s'.y) < 2 ^ 31 := by simpa using hin.2
  have hb := g.toAdm.ffAt_bounds (c.cnt n + 1)
  have hu := hg.2 (c.cnt n + 1) hm0
  rw [abs_le] at hu
  refine ⟨⟨hw0, hw1⟩, ?_⟩
  rw [hf, hff]
  exact g.f_nowrap _ _ hb.1 (by have := hg.1; linarith [hu.1]) hb.2.2 hw0 hw1

theorem abs_le_two_pow31 {W : Int} (h : -2 ^ 31 ≤ W ∧ W < 2 ^ 31) : |W| ≤ 2 ^ 31 :=
  abs_le.mpr ⟨h.1, h.2.le⟩

/-- a non-edge update keeps the phase -/
theorem rpll_ph_none (c : RpllCfg) (a : c.Adm) (m0 c0 : Nat) (Q Lim : Int) (n : Nat) (s : RPLL)
    (hr : ¬ c.num n % c.P < 2 ^ c.d) (hc : c.cnt (n + 1) = c.cnt n) (hph : c.Ph m0 c0 Q Lim n s) :
    c.Ph m0 c0 Q Lim (n + 1) s.nextNone := by
  obtain ⟨p0, p1, p2⟩ := hph
  have e1 : c.num (n : Int) = c.num (((n : Int) - 1) + 1) := by congr 1; ring
  have hle := (rpll_edge_none c a.hDP ((n : Int) - 1) (by rw [← e1]; exact hr)).1
  rw [show ((n : Int) - 1) + 1 = (n : Int) by ring] at hle
  refine ⟨by rw [hc]; exact p0, ?_, ?_⟩
  · intro h
    obtain ⟨e, W, q1, q2, q3, q4, q5, q6⟩ := p1 (by rw [← hc]; exact h)
    refine ⟨e, W, by omega, ?_, by rw [hc]; exact q3, by rw [hc]; exact q4, q5, q6⟩
    rw [show ((n + 1 : Nat) : Int) - 1 = (n : Int) by push_cast; ring, hle]; exact q2
  · intro h
    obtain ⟨e, W, Wp, fo, hp, hb⟩ := p2 (by rw [← hc]; exact h)
    exact ⟨e, W, Wp, fo, rpll_pinv_none c a m0 n s e W Wp fo hp hr, by rw [hc]; exact hb⟩

/-- an edge update advances the phase -/
theorem rpll_ph_some (c : RpllCfg) (g : c.Good) (m0 c0 : Nat) (Ub : Int) (hg : c.FFgood m0 Ub) (hm0 : m0 ≤ c0)
    (Q Lim : Int) (hQ0 : 0 < Q) (hQ1 : Q ≤ c.P - 3 * c.D) (hQ2 : 2 * Q ≤ c.Lam)
    (hLim : c.Sg * c.Sg * (2 * Ub + c.P + c.D + c.D * c.D) ≤ Q * Lim)
    (n : Nat) (s s' : RPLL) (hr : c.num n % c.P < 2 ^ c.d) (hsff : s.ff = c.ffAt (c.cnt n))
    (hcnt : c.cnt (n + 1) = c.cnt n + 1)
    (hy : s'.y = wrapI 32 (s.y + wrapI 32 s.f)) (hff : s'.ff = c.ffAt (c.cnt n + 1))
    (hf : s'.f = wrapU 32 (s'.ff + wrapU 32 (wrapI 32 (wrapI 32 (s.f / 2 ^ c.d * (c.num n % c.P)) - s'.y)
                / 2 ^ (c.sp - c.d).toNat)))
    (hph : c.Ph m0 c0 Q Lim n s) : c.Ph m0 c0 Q Lim (n + 1) s' := by
  obtain ⟨p0, p1, p2⟩ := hph
  obtain ⟨hS4, -, -⟩ := g.Sg_ge
  have hD0 : 0 < c.D := by unfold RpllCfg.D; positivity
  have hSg0 : 0 < c.Sg := by omega
  have hn1 : ((n + 1 : Nat) : Int) - 1 = (n : Int) := by push_cast; ring
  rcases Nat.lt_or_ge (c.cnt n) (c0 + 2) with hlt | hge
  · rcases Nat.lt_or_ge (c.cnt n) (c0 + 1) with hlt1 | hge1
    · -- phase 0 → 1
      have h0 : c.cnt n = c0 := by omega
      obtain ⟨hwb, hfe⟩ := rpll_edge_f c g m0 Ub hg n s s' (by omega) hff hf
      refine ⟨by omega, fun _ => ⟨n, (wrapI 32 (wrapI 32 (s.f / c.D * c.r n) - s'.y)), by omega, by rw [hn1], hcnt, by omega, hwb, hfe⟩, fun h => by omega⟩
    · -- phase 1 → 2
      have h1 : c.cnt n = c0 + 1 := by omega
      obtain ⟨e, W, q1, q2, q3, q4, q5, q6⟩ := p1 h1
      obtain ⟨hwb, hfe⟩ := rpll_edge_f c g m0 Ub hg n s s' (by omega) hff hf
      refine ⟨by omega, fun h => by omega, fun _ => ⟨n, (wrapI 32 (wrapI 32 (s.f / c.D * c.r n) - s'.y)), W, s.f, ?_, ?_⟩⟩
      · refine ⟨by omega, hr, by rw [hn1], q4, hcnt, hwb, q5, hfe, by rw [q6, hsff], ?_⟩
        obtain ⟨k1, hk1⟩ := wrapI_eq_sub 32 (s.f / c.D * c.r n)
        obtain ⟨k2, hk2⟩ := wrapI_eq_sub 32 (wrapI 32 (s.f / c.D * c.r n) - s'.y)
        refine ⟨k1 + k2, ?_⟩
        rw [hk2, hk1]; push_cast; ring
      · have : c.cnt (n + 1) - (c0 + 2) = 0 := by omega
        rw [this, pow_zero, pow_zero, one_mul, one_mul]
        have a1 := abs_le_two_pow31 hwb
        have a2 := abs_le_two_pow31 q5
        unfold RpllCfg.Nrm
        nlinarith
  · -- phase 2: contraction
    obtain ⟨e, W, Wp, fo, hp, hb⟩ := p2 hge
    obtain ⟨W', hp', hst⟩ := rpll_pinv_some c g m0 Ub hg n s s' e W Wp fo hp hr hsff hcnt hy hff hf
    refine ⟨by omega, fun h => by omega, fun _ => ⟨n, W', W, s.f, hp', ?_⟩⟩
    have hre : 0 ≤ c.r e ∧ c.r e < c.D := ⟨Int.emod_nonneg _ (by have := g.toAdm.facts.1; omega), hp.2.1⟩
    have hns := phase_norm_step c.Lam c.D c.Sg c.P Q (2 * Ub + c.P + c.D + c.D * c.D) (c.r e) |W| |Wp| |W'|
      rfl hD0 hSg0 hre hQ1 hQ2 (abs_nonneg _) (abs_nonneg _) hst
    have hL0 : 0 < c.Lam := mul_pos hD0 hSg0
    have hLQ : 0 ≤ c.Lam - Q := by linarith
    have hone : c.Lam * (c.Nrm W' W - Lim) ≤ (c.Lam - Q) * (c.Nrm W Wp - Lim) := by
      unfold RpllCfg.Nrm; nlinarith
    have hj : c.cnt (n + 1) - (c0 + 2) = (c.cnt n - (c0 + 2)) + 1 := by omega
    rw [hj]
    generalize c.cnt n - (c0 + 2) = j at hb ⊢
    calc c.Lam ^ (j + 1) * (c.Nrm W' W - Lim) = c.Lam ^ j * (c.Lam * (c.Nrm W' W - Lim)) := by ring
      _ ≤ c.Lam ^ j * ((c.Lam - Q) * (c.Nrm W Wp - Lim)) := mul_le_mul_of_nonneg_left hone (by positivity)
      _ = (c.Lam - Q) * (c.Lam ^ j * (c.Nrm W Wp - Lim)) := by ring
      _ ≤ (c.Lam - Q) * ((c.Lam - Q) ^ j * ((c.Sg + 2) * 2 ^ 31 - Lim)) := mul_le_mul_of_nonneg_left hb hLQ
      _ = (c.Lam - Q) ^ (j + 1) * ((c.Sg + 2) * 2 ^ 31 - Lim) := by ring

/-- **the phase-loop invariant along the whole run**: from any update `N1` at which the frequency loop is already
    good (`m0 ≤ cnt N1`), the run keeps `Inv` and `Ph` for ever -/
theorem rpll_phase_drive (c : RpllCfg) (g : c.Good) (m : Mode) (m0 : Nat) (Ub : Int) (hg : c.FFgood m0 Ub)
    (Q Lim : Int) (hQ0 : 0 < Q) (hQ1 : Q ≤ c.P - 3 * c.D) (hQ2 : 2 * Q ≤ c.Lam)
    (hLim : c.Sg * c.Sg * (2 * Ub + c.P + c.D + c.D * c.D) ≤ Q * Lim)
    (N1 : Nat) (hN1 : m0 ≤ c.cnt N1) (n : Nat) (hn : N1 ≤ n) :
    ∃ s, c.run m 0 n (RPLL.new c.d) = .ok s ∧ c.Inv n s ∧ c.Ph m0 (c.cnt N1) Q Lim n s := by
  induction n, hn using Nat.le_induction with
  | base =>
    obtain ⟨s, hrun, hinv⟩ := rpll_run_inv c g.toAdm m N1
    exact ⟨s, hrun, hinv, le_refl _, fun h => by omega, fun h => by omega⟩
  | succ n hn ih =>
    obtain ⟨s, hrun, hinv, hph⟩ := ih
    rw [rpllRun_add, hrun, bind_ok', Nat.zero_add]
    simp only [RpllCfg.run]
    by_cases hr : c.num n % c.P < 2 ^ c.d
    · obtain ⟨s', hu, hi, hc, hy, hff, hf⟩ := rpll_step_some c g.toAdm m n s hinv hr
      refine ⟨s', by rw [hu]; rfl, hi, ?_⟩
      exact rpll_ph_some c g m0 (c.cnt N1) Ub hg hN1 Q Lim hQ0 hQ1 hQ2 hLim n s s' hr hinv.2.1 hc hy hff hf hph
    · obtain ⟨hu, hi, hc⟩ := rpll_step_none c g.toAdm m n s hinv hr
      exact ⟨_, by rw [hu]; rfl, hi, rpll_ph_none c g.toAdm m0 (c.cnt N1) Q Lim n s hr hc hph⟩

end Idsp
