import IdspModel.Lemmas.HbfSpecInst
/-! Kernel-evaluated certificates: for depth 1..4 the cascade gain lies in `[1 - 2.3e-7, 1 + 2.3e-7]` (within `2e-6 dB`
    of unity) on the whole cell
    `cos φ ∈ [lo/2^24, 1]` (`φ` = angle at the highest-rate stage), which contains the pass band `f ∈ [0, 0.4]`.
    See `Lemmas/HbfSpecCheck.lean` for the checker and its soundness. -/
namespace Idsp
namespace HbfSpec

theorem passCheck1 : bisectPos 24 (hbfStages 1) 999999770 1000000230 (10 ^ 9) 30 5184444 (2 ^ 24) = true := by
  decide +kernel
theorem passCheck2 : bisectPos 24 (hbfStages 2) 999999770 1000000230 (10 ^ 9) 30 13573052 (2 ^ 24) = true := by
  decide +kernel
theorem passCheck3 : bisectPos 24 (hbfStages 3) 999999770 1000000230 (10 ^ 9) 30 15956080 (2 ^ 24) = true := by
  decide +kernel
theorem passCheck4 : bisectPos 24 (hbfStages 4) 999999770 1000000230 (10 ^ 9) 30 16570660 (2 ^ 24) = true := by
  decide +kernel

end HbfSpec
end Idsp
