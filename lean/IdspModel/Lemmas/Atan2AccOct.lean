import IdspModel.Lemmas.Atan2AccReal
/-!
Accuracy of `atan2` against the real angle, part 5 (pure real analysis): from the integer quotient facts of
`Atan2AccDivi.lean` to `|arctan t_q − arctan (y/x)| ≤ max(1.5e-5, 1/x) − 2.31e-6`, where `t_q = (2q+1)/2^17`.

* `x ≥ 66667`: `t_q − t ≤ t/65535 + 2^-17` and `t − t_q ≤ t_q/65536 + 2^-17·65537/65536`; the maximum of
  `(ρ·a + h)/(1 + a²)` is below `1.24e-5` in both directions.
* `3 ≤ x ≤ 66666` (then `y < 2^17`): `t_q − t ≤ t/(x-1) + 2^-17` (the divisor `⌊x/2⌋` loses one for odd `x`),
  `t − t_q ≤ 2^-17`; the bound `1/x − 2.31e-6` follows from `1/(x-1)² ≤ 4·T·(T − 2^-17)`, `T = 1/x − 2.31e-6`.
* `x = 2`: `|t_q − t| ≤ 2^-17`.
-/
namespace Idsp
open Real

/-- two-sided version of `atan2Acc_diff_le_M` -/
theorem atan2Acc_abs_diff {t tq ρ h ρ' h' M : ℝ} (ht : 0 ≤ t) (htq : 0 ≤ tq)
    (hU : tq - t ≤ ρ * t + h) (hL : t - tq ≤ ρ' * tq + h') (hM : 0 < M)
    (d1 : ρ ^ 2 ≤ 4 * M * (M - h)) (d2 : ρ' ^ 2 ≤ 4 * M * (M - h')) :
    |arctan tq - arctan t| ≤ M := by
  rcases le_total t tq with hle | hle
  · have h0 : 0 ≤ arctan tq - arctan t := sub_nonneg.mpr (arctan_mono hle)
    rw [abs_of_nonneg h0]
    exact atan2Acc_diff_le_M ht hle hU hM d1
  · have h0 : 0 ≤ arctan t - arctan tq := sub_nonneg.mpr (arctan_mono hle)
    rw [abs_sub_comm, abs_of_nonneg h0]
    exact atan2Acc_diff_le_M htq hle hL hM d2

/-- small numerators, upper side: `q·(x-1) ≤ y·2^16` gives `t_q − t ≤ t/(x-1) + 2^-17` -/
theorem atan2Acc_A_upper {Y X Q : ℝ} (hX : 1 < X) (h : Q * (X - 1) ≤ Y * 65536) :
    (2 * Q + 1) / 131072 - Y / X ≤ 1 / (X - 1) * (Y / X) + 1 / 131072 := by
  have hX1 : 0 < X - 1 := by linarith
  have hX0 : 0 < X := by linarith
  have h1 : Q ≤ Y * 65536 / (X - 1) := by rwa [le_div_iff₀ hX1]
  have h2 : Y / (X - 1) - Y / X = 1 / (X - 1) * (Y / X) := by
    field_simp; ring
  have h3 : Y * 65536 / (X - 1) = 65536 * (Y / (X - 1)) := by ring
  have h4 : (2 * Q + 1) / 131072 = Q / 65536 + 1 / 131072 := by ring
  rw [h4]
  have h5 : Q / 65536 ≤ Y / (X - 1) := by
    rw [div_le_iff₀ (by norm_num)]; linarith
  linarith

/-- `x = 2`, upper side -/
theorem atan2Acc_A_upper_two {Y Q : ℝ} (h : Q * 2 ≤ Y * 65536) :
    (2 * Q + 1) / 131072 - Y / 2 ≤ 1 / 131072 := by
  linarith

/-- small numerators, lower side: `q = 2^16` or `y·2^16 < (q+1)·x` gives `t − t_q ≤ 2^-17` -/
theorem atan2Acc_A_lower {Y X Q : ℝ} (hX : 0 < X) (hYX : Y ≤ X) (_hQ : 0 ≤ Q)
    (h : Q = 65536 ∨ Y * 65536 < (Q + 1) * X) : Y / X - (2 * Q + 1) / 131072 ≤ 1 / 131072 := by
  have h4 : (2 * Q + 1) / 131072 = Q / 65536 + 1 / 131072 := by ring
  rw [h4]
  rcases h with h | h
  · have : Y / X ≤ 1 := by rw [div_le_one hX]; exact hYX
    rw [h]; norm_num; linarith
  · have : Y / X < (Q + 1) / 65536 := by
      rw [div_lt_div_iff₀ hX (by norm_num)]; linarith
    linarith

/-- large numerators, upper side: `q·65535·x ≤ y·2^32` gives `t_q − t ≤ t/65535 + 2^-17` -/
theorem atan2Acc_B_upper {Y X Q : ℝ} (hX : 0 < X) (h : Q * (65535 * X) ≤ Y * 4294967296) :
    (2 * Q + 1) / 131072 - Y / X ≤ 1 / 65535 * (Y / X) + 1 / 131072 := by
  have h4 : (2 * Q + 1) / 131072 = Q / 65536 + 1 / 131072 := by ring
  rw [h4]
  have h1 : Q ≤ Y * 4294967296 / (65535 * X) := by rw [le_div_iff₀ (by positivity)]; exact h
  have h2 : Y * 4294967296 / (65535 * X) = 65536 * (Y / X + 1 / 65535 * (Y / X)) := by
    field_simp; ring
  have h5 : Q / 65536 ≤ Y / X + 1 / 65535 * (Y / X) := by
    rw [div_le_iff₀ (by norm_num)]; linarith
  linarith

/-- large numerators, lower side: `q = 2^16` or `y·2^32 < (q+1)·65537·x` gives
    `t − t_q ≤ t_q/65536 + 2^-17·65537/65536` -/
theorem atan2Acc_B_lower {Y X Q : ℝ} (hX : 0 < X) (hYX : Y ≤ X) (_hQ : 0 ≤ Q)
    (h : Q = 65536 ∨ Y * 4294967296 < (Q + 1) * (65537 * X)) :
    Y / X - (2 * Q + 1) / 131072 ≤ 1 / 65536 * ((2 * Q + 1) / 131072) + 1 / 131072 * (65537 / 65536) := by
  rcases h with h | h
  · have : Y / X ≤ 1 := by rw [div_le_one hX]; exact hYX
    rw [h]; norm_num; linarith
  · have : Y / X < (Q + 1) * 65537 / 4294967296 := by
      rw [div_lt_div_iff₀ hX (by norm_num)]; linarith
    have e : (Q + 1) * 65537 / 4294967296 =
        (2 * Q + 1) / 131072 + (1 / 65536 * ((2 * Q + 1) / 131072) + 1 / 131072 * (65537 / 65536)) := by
      ring
    linarith

/-- the discriminant condition for `3 ≤ x ≤ 66666` with `T = 1/x − 2.31e-6` -/
theorem atan2Acc_disc_small {X : ℝ} (h3 : 3 ≤ X) (h6 : X ≤ 66666) :
    (1 / (X - 1)) ^ 2 ≤ 4 * (1 / X - 231 / 100000000) * ((1 / X - 231 / 100000000) - 1 / 131072) := by
  have hX0 : 0 < X := by linarith
  have hX1 : 0 < X - 1 := by linarith
  set A : ℝ := 1 - 231 / 100000000 * X with hA
  set B : ℝ := 1 - (231 / 100000000 + 1 / 131072) * X with hB
  have e1 : 1 / X - 231 / 100000000 = A / X := by rw [hA]; field_simp
  have e2 : (1 / X - 231 / 100000000) - 1 / 131072 = B / X := by rw [hB]; field_simp; ring
  rw [e2, e1]
  have e3 : 4 * (A / X) * (B / X) = 4 * A * B / X ^ 2 := by field_simp
  rw [e3, one_div, inv_pow, inv_eq_one_div, div_le_div_iff₀ (by positivity) (by positivity), one_mul]
  -- goal: X ^ 2 ≤ 4 * A * B * (X - 1) ^ 2
  by_cases hs : X ≤ 100
  · have a0 : (9997 / 10000 : ℝ) ≤ A := by rw [hA]; nlinarith
    have b0 : (999 / 1000 : ℝ) ≤ B := by rw [hB]; nlinarith
    have c0 : 2 / 3 * X ≤ X - 1 := by linarith
    have ab : (9997 / 10000 : ℝ) * (999 / 1000) ≤ A * B := mul_le_mul a0 b0 (by norm_num) (by linarith)
    have cc : (2 / 3 * X) ^ 2 ≤ (X - 1) ^ 2 := pow_le_pow_left₀ (by positivity) c0 2
    have hmul : (9997 / 10000 : ℝ) * (999 / 1000) * (2 / 3 * X) ^ 2 ≤ A * B * (X - 1) ^ 2 :=
      mul_le_mul ab cc (by positivity) (le_trans (by norm_num) ab)
    nlinarith [sq_nonneg X]
  · have hs' : 100 ≤ X := by linarith
    have a0 : (846 / 1000 : ℝ) ≤ A := by rw [hA]; nlinarith
    have b0 : (337 / 1000 : ℝ) ≤ B := by rw [hB]; nlinarith
    have c0 : 99 / 100 * X ≤ X - 1 := by linarith
    have ab : (846 / 1000 : ℝ) * (337 / 1000) ≤ A * B := mul_le_mul a0 b0 (by norm_num) (by linarith)
    have cc : (99 / 100 * X) ^ 2 ≤ (X - 1) ^ 2 := pow_le_pow_left₀ (by positivity) c0 2
    have hmul : (846 / 1000 : ℝ) * (337 / 1000) * (99 / 100 * X) ^ 2 ≤ A * B * (X - 1) ^ 2 :=
      mul_le_mul ab cc (by positivity) (le_trans (by norm_num) ab)
    nlinarith [sq_nonneg X]

/-- The quotient error in angle, for every first-octant pair `0 ≤ y ≤ x`, `2 ≤ x`, given the integer facts that
    `divi` guarantees for its quotient field `q`. -/
theorem atan2Acc_quotient_angle {y x : ℤ} {q : ℕ} (hy : 0 ≤ y) (hyx : y ≤ x) (hx2 : 2 ≤ x)
    (hq : q ≤ 65536)
    (hfacts : (y < 2 ^ 17 ∧ (q:ℤ) * (x - x % 2) ≤ y * 2 ^ 16 ∧ ((q:ℤ) = 2 ^ 16 ∨ y * 2 ^ 16 < ((q:ℤ) + 1) * x)) ∨
       (2 ^ 17 ≤ y ∧ (q:ℤ) * (65535 * x) ≤ y * 2 ^ 32 ∧
         ((q:ℤ) = 2 ^ 16 ∨ y * 2 ^ 32 < ((q:ℤ) + 1) * (65537 * x)))) :
    |arctan ((2 * (q:ℝ) + 1) / 131072) - arctan ((y:ℝ) / (x:ℝ))| ≤
      max (15 / 1000000) (1 / (x:ℝ)) - 231 / 100000000 := by
  have hX2 : (2:ℝ) ≤ x := by exact_mod_cast hx2
  have hX0 : (0:ℝ) < x := by linarith
  have hY0 : (0:ℝ) ≤ y := by exact_mod_cast hy
  have hYX : (y:ℝ) ≤ x := by exact_mod_cast hyx
  have hQ0 : (0:ℝ) ≤ q := Nat.cast_nonneg q
  have ht0 : (0:ℝ) ≤ (y:ℝ) / x := div_nonneg hY0 hX0.le
  have htq0 : (0:ℝ) ≤ (2 * (q:ℝ) + 1) / 131072 := by positivity
  have cast_or16 : ((q:ℤ) = 2 ^ 16 ∨ y * 2 ^ 16 < ((q:ℤ) + 1) * x) →
      ((q:ℝ) = 65536 ∨ (y:ℝ) * 65536 < ((q:ℝ) + 1) * x) := by
    rintro (h | h)
    · left; exact_mod_cast h
    · right; exact_mod_cast h
  have cast_or32 : ((q:ℤ) = 2 ^ 16 ∨ y * 2 ^ 32 < ((q:ℤ) + 1) * (65537 * x)) →
      ((q:ℝ) = 65536 ∨ (y:ℝ) * 4294967296 < ((q:ℝ) + 1) * (65537 * x)) := by
    rintro (h | h)
    · left; exact_mod_cast h
    · right; exact_mod_cast h
  -- the two-sided bound for `x ≥ 66667`, from the (weaker) large-numerator form of the facts
  have big : 66667 ≤ x →
      (2 * (q:ℝ) + 1) / 131072 - (y:ℝ) / x ≤ 1 / 65535 * ((y:ℝ) / x) + 1 / 131072 →
      (y:ℝ) / x - (2 * (q:ℝ) + 1) / 131072 ≤
        1 / 65536 * ((2 * (q:ℝ) + 1) / 131072) + 1 / 131072 * (65537 / 65536) →
      |arctan ((2 * (q:ℝ) + 1) / 131072) - arctan ((y:ℝ) / (x:ℝ))| ≤
        max (15 / 1000000) (1 / (x:ℝ)) - 231 / 100000000 := by
    intro _ hU hL
    have := atan2Acc_abs_diff (M := 124 / 10000000) ht0 htq0 hU hL (by norm_num) (by norm_num) (by norm_num)
    have hm : (15 / 1000000 : ℝ) ≤ max (15 / 1000000) (1 / (x:ℝ)) := le_max_left _ _
    linarith
  rcases hfacts with ⟨hy17, hU, hL⟩ | ⟨hy17, hU, hL⟩
  · have hLr := atan2Acc_A_lower hX0 hYX hQ0 (cast_or16 hL)
    by_cases hx3 : x = 2
    · -- x = 2
      subst hx3
      have hU' : (q:ℝ) * 2 ≤ (y:ℝ) * 65536 := by
        have : (q:ℤ) * 2 ≤ y * 65536 := by simpa using hU
        exact_mod_cast this
      have hUr := atan2Acc_A_upper_two hU'
      have hUr' : (2 * (q:ℝ) + 1) / 131072 - (y:ℝ) / ((2:ℤ):ℝ) ≤
          0 * ((y:ℝ) / ((2:ℤ):ℝ)) + 1 / 131072 := by
        push_cast; linarith
      have hLr' : (y:ℝ) / ((2:ℤ):ℝ) - (2 * (q:ℝ) + 1) / 131072 ≤
          0 * ((2 * (q:ℝ) + 1) / 131072) + 1 / 131072 := by linarith
      have := atan2Acc_abs_diff (M := 1 / 131072) ht0 htq0 hUr' hLr' (by norm_num) (by norm_num) (by norm_num)
      have hm : (1 / ((2:ℤ):ℝ)) ≤ max (15 / 1000000) (1 / ((2:ℤ):ℝ)) := le_max_right _ _
      have : (1 / 131072 : ℝ) ≤ 1 / ((2:ℤ):ℝ) - 231 / 100000000 := by push_cast; norm_num
      linarith
    · have hx3' : 3 ≤ x := by omega
      have hX3 : (3:ℝ) ≤ x := by exact_mod_cast hx3'
      have hU1 : (q:ℤ) * (x - 1) ≤ y * 2 ^ 16 := by
        have h1 : (q:ℤ) * (x - 1) ≤ (q:ℤ) * (x - x % 2) :=
          Int.mul_le_mul_of_nonneg_left (by omega) (by omega)
        omega
      have hU' : (q:ℝ) * ((x:ℝ) - 1) ≤ (y:ℝ) * 65536 := by exact_mod_cast hU1
      have hUr := atan2Acc_A_upper (by linarith) hU'
      by_cases hbig : 66667 ≤ x
      · have hXb : (66667:ℝ) ≤ x := by exact_mod_cast hbig
        refine big hbig ?_ ?_
        · have : 1 / ((x:ℝ) - 1) ≤ 1 / 65535 := by
            rw [div_le_div_iff₀ (by linarith) (by norm_num)]; linarith
          have := mul_le_mul_of_nonneg_right this ht0
          linarith
        · have : 0 ≤ 1 / 65536 * ((2 * (q:ℝ) + 1) / 131072) := by positivity
          have : (1 / 131072 : ℝ) ≤ 1 / 131072 * (65537 / 65536) := by norm_num
          linarith
      · have hx6 : x ≤ 66666 := by omega
        have hX6 : (x:ℝ) ≤ 66666 := by exact_mod_cast hx6
        have hLr' : (y:ℝ) / x - (2 * (q:ℝ) + 1) / 131072 ≤
            0 * ((2 * (q:ℝ) + 1) / 131072) + 1 / 131072 := by linarith
        have hT : (1 / 66666 : ℝ) ≤ 1 / (x:ℝ) := by
          rw [div_le_div_iff₀ (by norm_num) hX0]; linarith
        have hTpos : (0:ℝ) < 1 / (x:ℝ) - 231 / 100000000 := by
          have : (231 / 100000000 : ℝ) < 1 / 66666 := by norm_num
          linarith
        have hTh : (1 / 131072 : ℝ) ≤ 1 / (x:ℝ) - 231 / 100000000 := by
          have : (1 / 131072 + 231 / 100000000 : ℝ) ≤ 1 / 66666 := by norm_num
          linarith
        have d2 : (0:ℝ) ^ 2 ≤ 4 * (1 / (x:ℝ) - 231 / 100000000) *
            ((1 / (x:ℝ) - 231 / 100000000) - 1 / 131072) := by
          have : 0 ≤ (1 / (x:ℝ) - 231 / 100000000) - 1 / 131072 := by linarith
          have h4 : 0 ≤ 4 * (1 / (x:ℝ) - 231 / 100000000) := by linarith
          have h5 := mul_nonneg h4 this
          have h6 : (0:ℝ) ^ 2 = 0 := by norm_num
          rw [h6]; exact h5
        have := atan2Acc_abs_diff (M := 1 / (x:ℝ) - 231 / 100000000) ht0 htq0 hUr hLr' hTpos
          (atan2Acc_disc_small hX3 hX6) d2
        have hm : (1 / (x:ℝ)) ≤ max (15 / 1000000) (1 / (x:ℝ)) := le_max_right _ _
        linarith
  · have hbig : 66667 ≤ x := by omega
    have hU' : (q:ℝ) * (65535 * (x:ℝ)) ≤ (y:ℝ) * 4294967296 := by exact_mod_cast hU
    exact big hbig (atan2Acc_B_upper hX0 hU') (atan2Acc_B_lower hX0 hYX hQ0 (cast_or32 hL))

end Idsp
