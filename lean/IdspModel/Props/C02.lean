import IdspModel.Lemmas.Atan2Main
/-!
# C02 — `atan2`: no panic, quadrant-correct and reflection-symmetric outside the defect set

Property theorems only (helpers: `IdspModel/Lemmas/Atan2*.lean`).  All statements are about the checked-mode
model `atan2 .checked` (overflow checks and debug assertions on) for ALL `i32` operand pairs.

Findings recorded here:
* `atan2 (±3) (±3)` panics (checked) / is 1.87 rad off (release): `atan2Bad` is exactly this set
  (`atan2_panics_iff`); every theorem below carries the guard `¬ atan2Bad y x`.
* On a mirror line the literal reflection clause of C02 fails (`*_full_false`): `atan2 0 x = 5215` for every
  `x ≥ 2` (`atan2_axis_offset`), `atan2 2 2 = 2^29 + 2599`.  Off the mirror lines the reflections are exact
  complements, i.e. reflections to within one LSB.
The numeric accuracy against the real arctangent is not treated here.
-/
namespace Idsp

/-! ## 1. `divi`: the quotient field -/

/-- For every first-octant operand pair `0 ≤ y ≤ x < 2^31`, `divi` does not panic (in particular
    `x += (1 << (15 - z)) - 1` does not overflow).  `x ≤ 1` gives `0`.  Otherwise the result is
    `q·2^15 + 2^14` with a quotient field `0 ≤ q`; `q ≤ 2^16 + 1` except on the diagonal at odd `x < 2^17`, where
    `q = 2^16 + ⌊2^15 / ((x-1)/2)⌋` exactly; `q = 0` on the axis `y = 0`; and `q ≤ 2^16 + 2^14 = 81920` for
    every pair other than `(3,3)`. -/
theorem divi_quotient_bound {y x : Int} (hy : 0 ≤ y) (hyx : y ≤ x) (hx : x < 2 ^ 31) :
    (x ≤ 1 ∧ divi .checked y x = .ok 0) ∨
    (2 ≤ x ∧ ∃ q : Int, divi .checked y x = .ok (q * 2 ^ 15 + 2 ^ 14) ∧ 0 ≤ q ∧ (y = 0 → q = 0) ∧
      (q ≤ 2 ^ 16 + 1 ∨
        (y = x ∧ x % 2 = 1 ∧ x < 2 ^ 17 ∧ q = 2 ^ 16 + 2 ^ 15 / ((x - 1) / 2))) ∧
      (¬(y = 3 ∧ x = 3) → q ≤ 81920)) := by
  rcases divi_spec hy hyx hx with h | ⟨h2, q, hd, hq0, hqz, hq⟩
  · exact Or.inl h
  · refine Or.inr ⟨h2, q, hd, hq0, hqz, hq, fun hbad => ?_⟩
    rcases hq with h | ⟨rfl, hodd, h17, rfl⟩
    · omega
    · have h5 : 2 ≤ (y - 1) / 2 := by omega
      have := Int.ediv_le_of_le_mul (a := 2 ^ 15) (b := 2 ^ 14) (c := (y - 1) / 2) (by omega) (by omega)
      omega

/-- the defect: `divi 3 3` has quotient field `1.5·2^16 = 98304` (`x` is rounded down to `1`) -/
theorem divi_defect_witness : divi .checked 3 3 = .ok (98304 * 2 ^ 15 + 2 ^ 14) := by decide +kernel

/-- the bound `81920` is attained: `(5,5)`; and `2^16 + 1` is attained off the small-odd diagonal -/
example : divi .checked 5 5 = .ok (81920 * 2 ^ 15 + 2 ^ 14) := by decide +kernel
example : divi .checked 131074 131074 = .ok ((2 ^ 16 + 1) * 2 ^ 15 + 2 ^ 14) := by decide +kernel

/-! ## 2. `atani` on every quotient field (complete kernel-evaluated table, 81 921 points) -/

/-- For EVERY quotient field `q ≤ 81920`, `atani` at `q·2^15 + 2^14` does not overflow in any intermediate
    (checked mode returns `ok`), and the value lies in `[5215, 609661461]`, so it is `< 2^30`;
    it is `≤ 2^29 + 2599` for `q ≤ 2^16` and `≤ 2^29 + 7807` for `q ≤ 2^16 + 1`. -/
theorem atani_range (q : Nat) (hq : q ≤ 81920) :
    ∃ r : Int, atani .checked ((q : Int) * 2 ^ 15 + 2 ^ 14) = .ok r ∧ 5215 ≤ r ∧ r ≤ 609661461 ∧
      (q ≤ 65537 → r ≤ 2 ^ 29 + 7807) ∧ (q ≤ 65536 → r ≤ 2 ^ 29 + 2599) := by
  obtain ⟨r, hr, _, h1⟩ := atanQ_ok q hq
  refine ⟨r, hr, atanQ_mono (Nat.zero_le q) hq atanQ_0 hr, h1, fun h => ?_, fun h => ?_⟩
  · exact atanQ_mono h (by omega) hr atanQ_65537
  · exact atanQ_mono h (by omega) hr atanQ_65536

/-- `atani` is non-decreasing over the whole table -/
theorem atani_mono {q q' : Nat} (h : q ≤ q') (h' : q' ≤ 81920) {r r' : Int}
    (hr : atani .checked ((q : Int) * 2 ^ 15 + 2 ^ 14) = .ok r)
    (hr' : atani .checked ((q' : Int) * 2 ^ 15 + 2 ^ 14) = .ok r') : r ≤ r' :=
  atanQ_mono h h' hr hr'

/-- `atani 0 = 0` (the value `divi` returns when the larger operand is `≤ 1`) -/
theorem atani_at_zero : atani .checked 0 = .ok 0 := atani_zero

/-- the ends of the table -/
example : atani .checked (0 * 2 ^ 15 + 2 ^ 14) = .ok 5215 := atanQ_0
example : atani .checked (65536 * 2 ^ 15 + 2 ^ 14) = .ok (2 ^ 29 + 2599) := atanQ_65536
example : atani .checked (81920 * 2 ^ 15 + 2 ^ 14) = .ok 609661461 := atanQ_81920

/-! ## 3. totality -/

/-- The exact set on which checked `atan2` panics, for in-range operands: `|y| = |x| = 3`. -/
theorem atan2Bad_char {y x : Int} (hy : inI 32 y = true) (hx : inI 32 x = true) :
    atan2Bad y x ↔ (y = 3 ∨ y = -3) ∧ (x = 3 ∨ x = -3) := atan2Bad_iff hy hx

/-- No input other than `(±3, ±3)` makes `atan2` panic or overflow: for every `i32` pair outside the bad set the
    checked model returns a value, and it is an `i32`. -/
theorem atan2_total {y x : Int} (hy : inI 32 y = true) (hx : inI 32 x = true) (hbad : ¬ atan2Bad y x) :
    ∃ r, atan2 .checked y x = .ok r ∧ inI 32 r = true := by
  obtain ⟨r0, _, h0, h1, _, _, _, _, hv⟩ := atan2_checked hy hx hbad
  refine ⟨_, hv, ?_⟩
  unfold atanMax at h1
  rw [inI_iff]
  simp only [unfoldOct, Nat.reduceSub]
  split <;> split <;> split <;> omega

/-- conversely the four bad pairs do panic, so the guard is exact -/
theorem atan2_panics_iff {y x : Int} (hy : inI 32 y = true) (hx : inI 32 x = true) :
    (∃ e, atan2 .checked y x = .error e) ↔ atan2Bad y x := by
  constructor
  · intro ⟨e, he⟩
    apply Classical.byContradiction
    intro hbad
    obtain ⟨r, hr, _⟩ := atan2_total hy hx hbad
    rw [hr] at he; cases he
  · intro hb
    rcases (atan2Bad_iff hy hx).mp hb with ⟨rfl | rfl, rfl | rfl⟩ <;>
      exact ⟨⟨"atan2.rs:22 x * x"⟩, by decide +kernel⟩

/-- `atan2(0, 0) = 0` -/
theorem atan2_zero_zero : atan2 .checked 0 0 = .ok 0 := by decide +kernel

/-- `i32::MIN` operands are handled by saturation (examples; they are instances of `atan2_total`) -/
example : atan2 .checked (-2 ^ 31) (-2 ^ 31) = .ok (-1610615353) := by decide +kernel
example : atan2 .checked (-2 ^ 31) 0 = .ok (-1073736609) := by decide +kernel
example : atan2 .checked 0 (-2 ^ 31) = .ok 2147478432 := by decide +kernel
example : atan2 .checked (-2 ^ 31) (2 ^ 31 - 1) = .ok (-536868296) := by decide +kernel
/-- the hypotheses of `atan2_total` are satisfiable at a non-trivial point -/
example : inI 32 (-2 ^ 31) = true ∧ inI 32 (2 ^ 31 - 1) = true ∧ ¬ atan2Bad (-2 ^ 31) (2 ^ 31 - 1) := by
  refine ⟨by decide, by decide, ?_⟩
  rw [atan2Bad_iff (by decide) (by decide)]; decide

/-- the full (unguarded) totality statement … -/
def atan2_total_full : Prop :=
  ∀ y x : Int, inI 32 y = true → inI 32 x = true → ∃ r, atan2 .checked y x = .ok r

/-- … is false: `atan2(3, 3)` panics on `x * x` in `atani` -/
theorem atan2_total_full_false : ¬ atan2_total_full := by
  intro h
  obtain ⟨r, hr⟩ := h 3 3 (by decide) (by decide)
  have : atan2 .checked 3 3 = .error ⟨"atan2.rs:22 x * x"⟩ := by decide +kernel
  rw [this] at hr; cases hr

/-! ## 4. the XOR re-expansion -/

/-- For a first-octant value `0 ≤ r < 2^30`, XOR with each of the eight reachable masks, reinterpreted as `i32`,
    is the corresponding composition of complements. -/
theorem atan2_xor_masks {r : Int} (h0 : 0 ≤ r) (h1 : r < 2 ^ 30) :
    wrapI 32 (xorU32 r 0) = r ∧
    wrapI 32 (xorU32 r (2 ^ 30 - 1)) = 2 ^ 30 - 1 - r ∧
    wrapI 32 (xorU32 r (2 ^ 31 - 1)) = 2 ^ 31 - 1 - r ∧
    wrapI 32 (xorU32 r (2 ^ 30)) = 2 ^ 30 + r ∧
    wrapI 32 (xorU32 r (2 ^ 32 - 1)) = -1 - r ∧
    wrapI 32 (xorU32 r (2 ^ 32 - 2 ^ 30)) = -(2 ^ 30) + r ∧
    wrapI 32 (xorU32 r (2 ^ 31)) = -(2 ^ 31) + r ∧
    wrapI 32 (xorU32 r (2 ^ 31 + 2 ^ 30 - 1)) = -(2 ^ 30) - 1 - r := by
  have m0 : octMask false false false = 0 := by decide
  have m1 : octMask false false true = 2 ^ 30 - 1 := by decide
  have m2 : octMask false true false = 2 ^ 31 - 1 := by decide
  have m3 : octMask false true true = 2 ^ 30 := by decide
  have m4 : octMask true false false = 2 ^ 32 - 1 := by decide
  have m5 : octMask true false true = 2 ^ 32 - 2 ^ 30 := by decide
  have m6 : octMask true true false = 2 ^ 31 := by decide
  have m7 : octMask true true true = 2 ^ 31 + 2 ^ 30 - 1 := by decide
  have u := fun ny nx sw => xor_unfold h0 h1 ny nx sw
  have u0 := u false false false
  have u1 := u false false true
  have u2 := u false true false
  have u3 := u false true true
  have u4 := u true false false
  have u5 := u true false true
  have u6 := u true true false
  have u7 := u true true true
  rw [m0] at u0; rw [m1] at u1; rw [m2] at u2; rw [m3] at u3
  rw [m4] at u4; rw [m5] at u5; rw [m6] at u6; rw [m7] at u7
  simp only [unfoldOct, if_true, Bool.false_eq_true, if_false] at u0 u1 u2 u3 u4 u5 u6 u7
  refine ⟨u0, u1, u2, ?_, u4, ?_, ?_, ?_⟩
  · rw [u3]; omega
  · rw [u5]; omega
  · rw [u6]; omega
  · rw [u7]; omega

/-- The masks `atan2` reaches are exactly those eight (by sign of `y`, sign of `x`, swap). -/
example : octMask false false false = 0 ∧ octMask false false true = 2 ^ 30 - 1 ∧
    octMask false true false = 2 ^ 31 - 1 ∧ octMask false true true = 2 ^ 30 ∧
    octMask true false false = 2 ^ 32 - 1 ∧ octMask true false true = 2 ^ 32 - 2 ^ 30 ∧
    octMask true true false = 2 ^ 31 ∧ octMask true true true = 2 ^ 31 + 2 ^ 30 - 1 := by decide

/-! ## 5. quadrant correctness (exact, no LSB slack needed) -/

/-- The four quadrants with their exact value ranges (the boundaries are strict: the result never sits on the
    wrong side of an axis, not even by one LSB). -/
theorem atan2_quadrant {y x r : Int} (hy : inI 32 y = true) (hx : inI 32 x = true) (hbad : ¬ atan2Bad y x)
    (h : atan2 .checked y x = .ok r) :
    (0 ≤ y → 0 ≤ x → 0 ≤ r ∧ r < 2 ^ 30) ∧
    (0 ≤ y → x < 0 → 2 ^ 30 < r ∧ r < 2 ^ 31) ∧
    (y < 0 → 0 ≤ x → -(2 ^ 30) ≤ r ∧ r < 0) ∧
    (y < 0 → x < 0 → -(2 ^ 31) ≤ r ∧ r < -(2 ^ 30) - 1) := by
  obtain ⟨r0, _, h0, h1, _, h5, _, _, hv⟩ := atan2_checked hy hx hbad
  have hr : r = _ := Except.ok.inj (h.symm.trans hv)
  have ⟨y0, y1⟩ := satAbs_range hy
  have ⟨x0, x1⟩ := satAbs_range hx
  have hsx := satAbs_of_in hx
  have hmax := Int.max_def (satAbs y) (satAbs x)
  unfold atanMax at h1
  have hsw : x < 0 → satAbs x < satAbs y → 5215 ≤ r0 := by
    intro hx0 hlt
    have hx1 : 1 ≤ satAbs x := by rw [hsx]; simp only [hx0, if_true]; split <;> omega
    exact h5 (by split at hmax <;> omega)
  subst hr
  refine ⟨fun hy0 hx0 => ?_, fun hy0 hx0 => ?_, fun hy0 hx0 => ?_, fun hy0 hx0 => ?_⟩
  · have ny : ¬ y < 0 := by omega
    have nx : ¬ x < 0 := by omega
    by_cases hlt : satAbs x < satAbs y <;>
      simp only [ny, nx, hlt, unfoldOct, decide_true, decide_false, if_true, if_false,
        Bool.false_eq_true] <;> omega
  · have ny : ¬ y < 0 := by omega
    have h5' := hsw hx0
    by_cases hlt : satAbs x < satAbs y <;>
      simp only [ny, hx0, hlt, unfoldOct, decide_true, decide_false, if_true, if_false,
        Bool.false_eq_true] <;> omega
  · have nx : ¬ x < 0 := by omega
    by_cases hlt : satAbs x < satAbs y <;>
      simp only [hy0, nx, hlt, unfoldOct, decide_true, decide_false, if_true, if_false,
        Bool.false_eq_true] <;> omega
  · have h5' := hsw hx0
    by_cases hlt : satAbs x < satAbs y <;>
      simp only [hy0, hx0, hlt, unfoldOct, decide_true, decide_false, if_true, if_false,
        Bool.false_eq_true] <;> omega

/-- The result is negative exactly when `y < 0`. -/
theorem atan2_sign {y x r : Int} (hy : inI 32 y = true) (hx : inI 32 x = true) (hbad : ¬ atan2Bad y x)
    (h : atan2 .checked y x = .ok r) : r < 0 ↔ y < 0 := by
  have := atan2_quadrant hy hx hbad h
  omega

/-- The magnitude is at most a quarter turn exactly when `x ≥ 0`: `-2^30 ≤ r < 2^30 ↔ 0 ≤ x`. -/
theorem atan2_half_plane {y x r : Int} (hy : inI 32 y = true) (hx : inI 32 x = true) (hbad : ¬ atan2Bad y x)
    (h : atan2 .checked y x = .ok r) : (-(2 ^ 30) ≤ r ∧ r < 2 ^ 30) ↔ 0 ≤ x := by
  have := atan2_quadrant hy hx hbad h
  omega

/-- On the positive x axis the result is the constant offset `5215` LSB (`≈ 7.6e-6` rad: inside the accuracy
    tolerance of C02, but not within 1 LSB of the axis), for EVERY `x ≥ 2`. -/
theorem atan2_axis_offset {x : Int} (h2 : 2 ≤ x) (hx : x < 2 ^ 31) : atan2 .checked 0 x = .ok 5215 := by
  have hx' : inI 32 x = true := by rw [inI_iff]; simp only [Nat.reduceSub]; omega
  have hbad : ¬ atan2Bad 0 x := by rw [atan2Bad_iff (by decide) hx']; omega
  obtain ⟨r0, _, _, _, _, _, _, h6, hv⟩ := atan2_checked (y := 0) (by decide) hx' hbad
  have s0 : satAbs 0 = 0 := by decide
  have sx : satAbs x = x := by rw [satAbs_of_in hx']; split <;> omega
  rw [s0, sx] at h6 hv
  have hmin := Int.min_def 0 x
  have hmax := Int.max_def 0 x
  have : r0 = 5215 := h6 (by split at hmin <;> omega) (by split at hmax <;> omega)
  rw [hv, this]
  have d2 : decide (x < 0) = false := by simp; omega
  simp [unfoldOct, d2]

/-! ## 6. reflections (exact complements off the mirror line) -/

/-- Reflection about the x axis, `y ≠ 0` (and `-y` representable, i.e. `y ≠ i32::MIN`):
    `atan2(-y, x) = -1 - atan2(y, x)` — the exact reflection `-r`, to within one LSB. -/
theorem atan2_reflect_x_axis {y x r : Int} (hy : inI 32 y = true) (hny : inI 32 (-y) = true)
    (hx : inI 32 x = true) (hbad : ¬ atan2Bad y x) (hy0 : y ≠ 0) (h : atan2 .checked y x = .ok r) :
    atan2 .checked (-y) x = .ok (-1 - r) := by
  have hs := satAbs_neg hy hny
  have hbad' : ¬ atan2Bad (-y) x := by unfold atan2Bad at hbad ⊢; rwa [hs]
  obtain ⟨r0, e0, _, _, _, _, _, _, hv⟩ := atan2_checked hy hx hbad
  obtain ⟨r0', e0', _, _, _, _, _, _, hv'⟩ := atan2_checked hny hx hbad'
  rw [oct0_neg_y _ _ hy hny] at e0'
  have : r0' = r0 := Except.ok.inj (e0'.symm.trans e0)
  subst this
  have hr : r = _ := Except.ok.inj (h.symm.trans hv)
  rw [hv', hr, hs]
  congr 1
  simp only [unfoldOct]
  by_cases hy1 : y < 0
  · have : ¬ (-y < 0) := by omega
    simp only [hy1, this, decide_true, decide_false, if_true, Bool.false_eq_true, if_false]; omega
  · have : -y < 0 := by omega
    simp only [hy1, this, decide_true, decide_false, if_true, Bool.false_eq_true, if_false]

/-- Reflection about the y axis, `x ≠ 0` (and `x ≠ i32::MIN`): `atan2(y, -x) = 2^31 - 1 - atan2(y, x)` reduced
    to `i32` — the exact reflection `2^31 - r` (half a turn minus `r`), to within one LSB. -/
theorem atan2_reflect_y_axis {y x r : Int} (hy : inI 32 y = true) (hx : inI 32 x = true)
    (hnx : inI 32 (-x) = true) (hbad : ¬ atan2Bad y x) (hx0 : x ≠ 0) (h : atan2 .checked y x = .ok r) :
    atan2 .checked y (-x) = .ok (wrapI 32 (2 ^ 31 - 1 - r)) ∧
    (0 ≤ y → atan2 .checked y (-x) = .ok (2 ^ 31 - 1 - r)) ∧
    (y < 0 → atan2 .checked y (-x) = .ok (-(2 ^ 31) - 1 - r)) := by
  have hs := satAbs_neg hx hnx
  have hbad' : ¬ atan2Bad y (-x) := by unfold atan2Bad at hbad ⊢; rwa [hs]
  obtain ⟨r0, e0, h0, h1, _, _, _, _, hv⟩ := atan2_checked hy hx hbad
  obtain ⟨r0', e0', _, _, _, _, _, _, hv'⟩ := atan2_checked hy hnx hbad'
  rw [oct0_neg_x _ _ hx hnx] at e0'
  have : r0' = r0 := Except.ok.inj (e0'.symm.trans e0)
  subst this
  have hr : r = _ := Except.ok.inj (h.symm.trans hv)
  unfold atanMax at h1
  rw [hv', hr, hs]
  have key : ∀ (ny sw : Bool) (a b : Bool), a = !b →
      unfoldOct ny a sw r0' = (if ny then -(2 ^ 31) - 1 - unfoldOct ny b sw r0'
        else 2 ^ 31 - 1 - unfoldOct ny b sw r0') := by
    intro ny sw a b hab
    subst hab
    cases ny <;> cases b <;> cases sw <;> simp [unfoldOct] <;> omega
  have hflag : decide (-x < 0) = !decide (x < 0) := by
    by_cases hx1 : x < 0
    · have : ¬ (-x < 0) := by omega
      rw [decide_eq_true hx1, decide_eq_false this]; rfl
    · have : -x < 0 := by omega
      rw [decide_eq_false hx1, decide_eq_true this]; rfl
  have hk := key (decide (y < 0)) (decide (satAbs x < satAbs y)) _ _ hflag
  have hrange0 : ∀ ny nx sw : Bool, -(2 ^ 31) ≤ unfoldOct ny nx sw r0' ∧ unfoldOct ny nx sw r0' < 2 ^ 31 ∧
      (ny = true → unfoldOct ny nx sw r0' < 0) ∧ (ny = false → 0 ≤ unfoldOct ny nx sw r0') := by
    intro ny nx sw
    cases ny <;> cases nx <;> cases sw <;> simp [unfoldOct] <;> omega
  have hrange : -(2 ^ 31) ≤ unfoldOct (decide (y < 0)) (decide (x < 0)) (decide (satAbs x < satAbs y)) r0' ∧
      unfoldOct (decide (y < 0)) (decide (x < 0)) (decide (satAbs x < satAbs y)) r0' < 2 ^ 31 ∧
      (y < 0 → unfoldOct (decide (y < 0)) (decide (x < 0)) (decide (satAbs x < satAbs y)) r0' < 0) ∧
      (0 ≤ y → 0 ≤ unfoldOct (decide (y < 0)) (decide (x < 0)) (decide (satAbs x < satAbs y)) r0') := by
    obtain ⟨a, b, c, d⟩ := hrange0 (decide (y < 0)) (decide (x < 0)) (decide (satAbs x < satAbs y))
    exact ⟨a, b, fun hy1 => c (decide_eq_true hy1), fun hy1 => d (decide_eq_false (by omega))⟩
  generalize unfoldOct (decide (y < 0)) (decide (x < 0)) (decide (satAbs x < satAbs y)) r0' = v at hk hrange
  rw [hk]
  obtain ⟨v0, v1, vneg, vpos⟩ := hrange
  refine ⟨?_, ?_, ?_⟩
  · congr 1
    by_cases hy1 : y < 0
    · have := vneg hy1
      simp only [hy1, decide_true, if_true, wrapI, Nat.reduceSub]; omega
    · have := vpos (by omega)
      simp only [hy1, decide_false, Bool.false_eq_true, if_false, wrapI, Nat.reduceSub]; omega
  · intro hy1
    have : ¬ y < 0 := by omega
    simp only [this, decide_false, Bool.false_eq_true, if_false]
  · intro hy1
    simp only [hy1, decide_true, if_true]

/-- Reflection about the diagonal, `|y| ≠ |x|`: `atan2(x, y) = 2^30 - 1 - atan2(y, x)` reduced to `i32` — the
    exact reflection `2^30 - r` (a quarter turn minus `r`), to within one LSB. -/
theorem atan2_reflect_diagonal {y x r : Int} (hy : inI 32 y = true) (hx : inI 32 x = true)
    (hbad : ¬ atan2Bad y x) (hne : satAbs y ≠ satAbs x) (h : atan2 .checked y x = .ok r) :
    atan2 .checked x y = .ok (wrapI 32 (2 ^ 30 - 1 - r)) := by
  have hbad' : ¬ atan2Bad x y := by unfold atan2Bad at hbad ⊢; exact fun ⟨a, b⟩ => hbad ⟨b, a⟩
  obtain ⟨r0, e0, h0, h1, _, _, _, _, hv⟩ := atan2_checked hy hx hbad
  obtain ⟨r0', e0', _, _, _, _, _, _, hv'⟩ := atan2_checked hx hy hbad'
  rw [oct0_swap] at e0'
  have : r0' = r0 := Except.ok.inj (e0'.symm.trans e0)
  subst this
  have hr : r = _ := Except.ok.inj (h.symm.trans hv)
  unfold atanMax at h1
  rw [hv', hr]
  congr 1
  have hflag : decide (satAbs y < satAbs x) = !decide (satAbs x < satAbs y) := by
    by_cases hlt : satAbs x < satAbs y
    · have : ¬ satAbs y < satAbs x := by omega
      rw [decide_eq_true hlt, decide_eq_false this]; rfl
    · have : satAbs y < satAbs x := by omega
      rw [decide_eq_false hlt, decide_eq_true this]; rfl
  rw [hflag]
  generalize decide (y < 0) = ny
  generalize decide (x < 0) = nx
  generalize decide (satAbs x < satAbs y) = sw
  cases ny <;> cases nx <;> cases sw <;> simp [unfoldOct, wrapI] <;> omega

/-- `i32::MIN` has no negation; by saturation it behaves like `-i32::MAX`:
    `atan2(MIN, x) = -1 - atan2(MAX, x)` for every `x`. -/
theorem atan2_min_saturates {x r : Int} (hx : inI 32 x = true) (h : atan2 .checked (2 ^ 31 - 1) x = .ok r) :
    atan2 .checked (-(2 ^ 31)) x = .ok (-1 - r) := by
  have hmax : inI 32 (2 ^ 31 - 1) = true := by decide
  have hmin : inI 32 (-(2 ^ 31)) = true := by decide
  have s1 : satAbs (2 ^ 31 - 1) = 2 ^ 31 - 1 := by decide
  have s2 : satAbs (-(2 ^ 31)) = 2 ^ 31 - 1 := by decide
  have hb1 : ¬ atan2Bad (2 ^ 31 - 1) x := by unfold atan2Bad; rw [s1]; omega
  have hb2 : ¬ atan2Bad (-(2 ^ 31)) x := by unfold atan2Bad; rw [s2]; omega
  obtain ⟨r0, e0, _, _, _, _, _, _, hv⟩ := atan2_checked hmax hx hb1
  obtain ⟨r0', e0', _, _, _, _, _, _, hv'⟩ := atan2_checked hmin hx hb2
  have e : oct0 .checked (-(2 ^ 31)) x = oct0 .checked (2 ^ 31 - 1) x := by unfold oct0; rw [s1, s2]
  rw [e] at e0'
  have : r0' = r0 := Except.ok.inj (e0'.symm.trans e0)
  subst this
  have hr : r = _ := Except.ok.inj (h.symm.trans hv)
  have d1 : decide ((-(2 ^ 31) : Int) < 0) = true := by decide
  have d2 : decide ((2 ^ 31 - 1 : Int) < 0) = false := by decide
  rw [hv', hr, s1, s2, d1, d2]
  simp only [unfoldOct, if_true, Bool.false_eq_true, if_false]

/-- All four half-axes (`a ≥ 2`): the result is the axis angle displaced by the constant `5215` LSB towards the
    interior of the octant that the code folds the point into. -/
theorem atan2_axes {a : Int} (h2 : 2 ≤ a) (ha : a < 2 ^ 31) :
    atan2 .checked 0 a = .ok 5215 ∧ atan2 .checked a 0 = .ok (2 ^ 30 - 1 - 5215) ∧
    atan2 .checked 0 (-a) = .ok (2 ^ 31 - 1 - 5215) ∧ atan2 .checked (-a) 0 = .ok (-(2 ^ 30) + 5215) := by
  have ia : inI 32 a = true := by rw [inI_iff]; simp only [Nat.reduceSub]; omega
  have ina : inI 32 (-a) = true := by rw [inI_iff]; simp only [Nat.reduceSub]; omega
  have i0 : inI 32 0 = true := by decide
  have b1 : ¬ atan2Bad 0 a := by rw [atan2Bad_iff i0 ia]; omega
  have b2 : ¬ atan2Bad a 0 := by rw [atan2Bad_iff ia i0]; omega
  have s0 : satAbs 0 = 0 := by decide
  have sa : satAbs a = a := by rw [satAbs_of_in ia]; split <;> omega
  have h0 := atan2_axis_offset h2 ha
  have h1 := atan2_reflect_diagonal i0 ia b1 (by rw [s0, sa]; omega) h0
  have w : wrapI 32 (2 ^ 30 - 1 - 5215) = 2 ^ 30 - 1 - 5215 := by decide
  rw [w] at h1
  have h3 := (atan2_reflect_y_axis i0 ia ina b1 (by omega) h0).2.1 (by omega)
  have h4 := atan2_reflect_x_axis ia ina i0 b2 (by omega) h1
  refine ⟨h0, h1, h3, ?_⟩
  rw [h4]; congr 1

/-- the hypotheses of the reflection theorems are satisfiable, and the conclusions are non-trivial -/
example : atan2 .checked 1000 3000 = .ok 219940176 ∧ atan2 .checked (-1000) 3000 = .ok (-1 - 219940176) ∧
    atan2 .checked 1000 (-3000) = .ok (2 ^ 31 - 1 - 219940176) ∧
    atan2 .checked 3000 1000 = .ok (2 ^ 30 - 1 - 219940176) := by decide +kernel

/-! ### the literal reflection clause fails on the mirror lines (known finding) -/

/-- reflection about the x axis to within one LSB, for all inputs (the literal C02 clause) … -/
def atan2_reflect_x_axis_full : Prop :=
  ∀ y x r r' : Int, inI 32 y = true → inI 32 (-y) = true → inI 32 x = true →
    atan2 .checked y x = .ok r → atan2 .checked (-y) x = .ok r' → -1 ≤ r + r' ∧ r + r' ≤ 1

/-- … fails on the axis itself: `atan2(0, 2) = 5215`, which is its own mirror image -/
theorem atan2_reflect_x_axis_full_false : ¬ atan2_reflect_x_axis_full := by
  intro h
  have e : atan2 .checked 0 2 = .ok 5215 := by decide +kernel
  have := h 0 2 5215 5215 (by decide) (by decide) (by decide) e e
  omega

/-- reflection about the y axis to within one LSB, for all inputs … -/
def atan2_reflect_y_axis_full : Prop :=
  ∀ y x r r' : Int, inI 32 y = true → inI 32 x = true → inI 32 (-x) = true →
    atan2 .checked y x = .ok r → atan2 .checked y (-x) = .ok r' →
    -1 ≤ wrapI 32 (r + r' - 2 ^ 31) ∧ wrapI 32 (r + r' - 2 ^ 31) ≤ 1

/-- … fails on the y axis: `atan2(2, 0) = 2^30 - 1 - 5215` -/
theorem atan2_reflect_y_axis_full_false : ¬ atan2_reflect_y_axis_full := by
  intro h
  have e : atan2 .checked 2 0 = .ok 1073736608 := by decide +kernel
  have := h 2 0 1073736608 1073736608 (by decide) (by decide) (by decide) e e
  have w : wrapI 32 (1073736608 + 1073736608 - 2 ^ 31) = -10432 := by decide
  rw [w] at this
  omega

/-- reflection about the diagonal to within one LSB, for all inputs … -/
def atan2_reflect_diagonal_full : Prop :=
  ∀ y x r r' : Int, inI 32 y = true → inI 32 x = true →
    atan2 .checked y x = .ok r → atan2 .checked x y = .ok r' →
    -1 ≤ wrapI 32 (r + r' - 2 ^ 30) ∧ wrapI 32 (r + r' - 2 ^ 30) ≤ 1

/-- … fails on the diagonal: `atan2(2, 2) = 2^29 + 2599` -/
theorem atan2_reflect_diagonal_full_false : ¬ atan2_reflect_diagonal_full := by
  intro h
  have e : atan2 .checked 2 2 = .ok 536873511 := by decide +kernel
  have := h 2 2 536873511 536873511 (by decide) (by decide) e e
  have w : wrapI 32 (536873511 + 536873511 - 2 ^ 30) = 5198 := by decide
  rw [w] at this
  omega

/-! ## 7. the defect at `(±3, ±3)` -/

/-- checked build: panic ("multiply with overflow" at `x * x` in `atani`) for all four sign combinations -/
theorem atan2_defect_checked :
    atan2 .checked 3 3 = .error ⟨"atan2.rs:22 x * x"⟩ ∧ atan2 .checked 3 (-3) = .error ⟨"atan2.rs:22 x * x"⟩ ∧
    atan2 .checked (-3) 3 = .error ⟨"atan2.rs:22 x * x"⟩ ∧
    atan2 .checked (-3) (-3) = .error ⟨"atan2.rs:22 x * x"⟩ := by decide +kernel

/-- release build: wrong by 1.87 rad (`1 LSB = π/2^31`): `atan2(3,3) = -738580716` instead of `≈ 2^29`, and
    likewise for the other sign combinations (`≈ 3·2^29, -2^29, -3·2^29` expected) -/
theorem atan2_defect_release :
    atan2 .release 3 3 = .ok (-738580716) ∧ atan2 .release 3 (-3) = .ok (-1408902933) ∧
    atan2 .release (-3) 3 = .ok 738580715 ∧ atan2 .release (-3) (-3) = .ok 1408902932 := by decide +kernel

/-- the neighbouring diagonal points are fine (tolerance `1/max(|x|,|y|)` rad): `(1,1) ↦ 0`, `(2,2)`, `(5,5)` -/
example : atan2 .checked 1 1 = .ok 0 ∧ atan2 .checked 2 2 = .ok (2 ^ 29 + 2599) ∧
    atan2 .checked 5 5 = .ok 609661461 := by decide +kernel

end Idsp
