use idsp::*;
use std::panic::catch_unwind;
fn tol(y: i32, x: i32) -> f64 { let m = (x as f64).abs().max((y as f64).abs()); (1.5e-5f64).max(1.0 / m) }
fn err(y: i32, x: i32, a: i32) -> f64 {
    let want = (y as f64).atan2(x as f64);
    let have = a as f64 * std::f64::consts::PI / (1u64 << 31) as f64;
    let mut d = (have - want).abs();
    if d > std::f64::consts::PI { d = 2.0 * std::f64::consts::PI - d; }
    d
}
fn main() {
    std::panic::set_hook(Box::new(|_| {}));
    let n: i32 = std::env::args().nth(1).map(|s| s.parse().unwrap()).unwrap_or(1 << 11);
    let mut panics = vec![]; let mut bad = vec![]; let mut worst = (0f64, 0, 0);
    let mut worst_big = (0f64,0,0);
    for x in -n..=n { for y in -n..=n {
        if x == 0 && y == 0 { continue; }
        match catch_unwind(|| atan2(y, x)) {
            Err(_) => panics.push((y, x)),
            Ok(a) => { let e = err(y, x, a); let r = e / tol(y, x); if r > worst.0 { worst = (r, y, x); } if e > tol(y, x) { bad.push((y, x, a, e)); }
               if x.abs().max(y.abs()) > 66666 && e > worst_big.0 { worst_big = (e,y,x);} }
        }
    }}
    println!("n={} panics {} e.g. {:?}", n, panics.len(), &panics[..panics.len().min(12)]);
    println!("bad {} e.g. {:?}", bad.len(), &bad[..bad.len().min(12)]);
    println!("worst ratio {:?} worst_big {:?}", worst, worst_big);
    let mut s: std::collections::BTreeSet<(i32,i32)> = Default::default();
    for (y,x) in panics.iter().chain(bad.iter().map(|b| (&b.0,&b.1)).map(|(a,b)| (a,b)).collect::<Vec<_>>().iter().map(|(a,b)| (**a,**b)).collect::<Vec<_>>().iter()) { s.insert((y.abs().min(x.abs()), y.abs().max(x.abs()))); }
    println!("distinct |min|,|max| classes: {:?}", s);
}
