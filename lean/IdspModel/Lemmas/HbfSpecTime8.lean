import IdspModel.Lemmas.HbfSpecTime
/-! Impulse response of the MODEL decimating cascade of depth 4 over `ℚ`, input phases 12 … 15
    (kernel computation). -/
namespace Idsp

theorem hbfDecImpulseOK_4_3 : ∀ q < 4, hbfDecImpulseOK 4 (12 + q) := by decide +kernel

end Idsp
