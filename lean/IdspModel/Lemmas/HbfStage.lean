import IdspModel.Lemmas.HbfList
/-! Single-stage half-band filters: well-formedness, admissible blocks, the abstraction to the input history,
    history-only specifications `hbfDecSpec` / `hbfIntSpec`, their block-append laws, and the refinement of the
    literal buffer model `HbfDec.process` / `HbfInt.process`.  No algebraic law about `Ops α` is used. -/
namespace Idsp
variable {α : Type}
set_option linter.unusedSimpArgs false

/-- well-formed decimator state: `M ≥ 1`, both buffers have the same length `N ≥ 2M` (`debug_assert!(N >= M * 2)`) -/
structure HbfDec.WF (d : HbfDec α) : Prop where
  taps_pos : 1 ≤ d.odd.taps.length
  len_eq : d.odd.x.length = d.even.length
  len_ge : 2 * d.odd.taps.length ≤ d.even.length

/-- admissible block for `HbfDec::process_block`: even length (`debug_assert_eq!(x.len() & 1, 0)`), at most
    `block_size().1` -/
def HbfDec.Adm (d : HbfDec α) (x : List α) : Prop := x.length % 2 = 0 ∧ x.length ≤ d.blockMax

/-- the part of the state that is ever read again: the first `M-1` items of `even`, the first `2M-1` of `odd.x` -/
def HbfDec.abs (d : HbfDec α) : List α × List α :=
  (d.even.take (d.odd.taps.length - 1), d.odd.x.take (2 * d.odd.taps.length - 1))

theorem HbfDec.abs_length (d : HbfDec α) (wf : d.WF) :
    d.abs.1.length = d.odd.taps.length - 1 ∧ d.abs.2.length = 2 * d.odd.taps.length - 1 := by
  have := wf.taps_pos; have := wf.len_eq; have := wf.len_ge
  simp [HbfDec.abs]; omega

theorem zip_take_right {β : Type} (a : List α) (b : List β) (k : Nat) :
    (a.take k).zip b = (a.take k).zip (b.take k) := by
  induction k generalizing a b with
  | zero => simp
  | succ k ih =>
    cases a with
    | nil => simp
    | cons x xs =>
      cases b with
      | nil => simp
      | cons y ys => simp; exact ih xs ys

/-- combine one even-phase sample with one odd-phase FIR output -/
def hbfDecComb (o : Ops α) (p : α × α) : α := o.half (o.add p.1 p.2)

/-- History-only specification of `HbfDec`: `he` = the last `M-1` even-phase inputs, `ho` = the last `2M-1`
    odd-phase inputs, `x` = new input items (even count). -/
def hbfDecSpec (o : Ops α) (taps he ho x : List α) : List α :=
  (((he ++ evens x).take (x.length / 2)).zip
    ((windows (2 * taps.length) (ho ++ odds x)).map (firTap o taps))).map (hbfDecComb o)

/-- history after consuming `x` -/
def decNext (m : Nat) (he ho x : List α) : List α × List α :=
  (lastN (m - 1) (he ++ evens x), lastN (2 * m - 1) (ho ++ odds x))

theorem decNext_length (m : Nat) (he ho x : List α) (h1 : he.length = m - 1) (h2 : ho.length = 2 * m - 1) :
    (decNext m he ho x).1.length = m - 1 ∧ (decNext m he ho x).2.length = 2 * m - 1 := by
  simp [decNext, lastN_length, h1, h2]

theorem decSpec_length (o : Ops α) (taps he ho x : List α) (hm : 1 ≤ taps.length)
    (h1 : he.length = taps.length - 1) (h2 : ho.length = 2 * taps.length - 1) :
    (hbfDecSpec o taps he ho x).length = x.length / 2 := by
  have hw := windows_length (2 * taps.length) (by omega) (ho ++ odds x)
  simp [hbfDecSpec, hw, evens_length, odds_length, h1, h2]; omega

theorem decSpec_append (o : Ops α) (taps he ho b1 b2 : List α) (hm : 1 ≤ taps.length)
    (h1 : he.length = taps.length - 1) (h2 : ho.length = 2 * taps.length - 1) (hb : b1.length % 2 = 0) :
    hbfDecSpec o taps he ho (b1 ++ b2) =
      hbfDecSpec o taps he ho b1 ++
      hbfDecSpec o taps (decNext taps.length he ho b1).1 (decNext taps.length he ho b1).2 b2 := by
  have hk : (b1 ++ b2).length / 2 = b1.length / 2 + b2.length / 2 := by simp; omega
  have he1 := evens_length b1
  have ho1 := odds_length b1
  have hn : 0 < 2 * taps.length := by omega
  have hw1 := windows_length (2 * taps.length) hn (ho ++ odds b1)
  simp only [hbfDecSpec, decNext, evens_append _ _ hb, odds_append _ _ hb, hk, ← List.map_append]
  congr 1
  rw [← List.zip_append (by simp [hw1, he1, ho1, h1, h2]; omega), ← List.map_append]
  congr 1
  · -- even phase
    simp only [lastN]
    rw [List.take_add]
    congr 1
    · rw [← List.append_assoc, List.take_append_of_le_length (by simp [he1])]
    · rw [← List.append_assoc, List.drop_append_of_le_length (by simp [he1])]
      congr 2
      simp [he1, h1]
  · congr 1
    have hsplit := (List.take_append_drop (b1.length / 2) (windows (2 * taps.length) (ho ++ (odds b1 ++ odds b2)))).symm
    rw [hsplit]
    congr 1
    · rw [windows_take _ hn _ _ (by simp [ho1, h2]; omega)]
      congr 1
      rw [← List.append_assoc, List.take_append_of_le_length (by simp [ho1, h2]; omega)]
      apply List.take_of_length_le; simp [ho1, h2]; omega
    · rw [windows_drop, lastN, ← List.append_assoc, List.drop_append_of_le_length (by simp [ho1])]
      congr 2
      simp [ho1, h2]


theorem decComb_eq (o : Ops α) : (fun (p : α × α) => match p with | (e, od) => o.half (o.add e od)) = hbfDecComb o := by
  funext p; cases p; rfl

theorem HbfDec.process_out (o : Ops α) (d : HbfDec α) (wf : d.WF) (x : List α) (adm : d.Adm x) :
    (d.process o x).2 = hbfDecSpec o d.odd.taps d.abs.1 d.abs.2 x := by
  obtain ⟨hm, hle, hge⟩ := wf
  obtain ⟨hx2, hxm⟩ := adm
  simp only [HbfDec.blockMax] at hxm
  have hel := evens_length x
  have hol := odds_length x
  have hn : 0 < 2 * d.odd.taps.length := by omega
  simp only [HbfDec.process, SymFir.load, SymFir.get, splice, HbfDec.abs, hbfDecSpec, decComb_eq]
  congr 1
  rw [zip_take_right]
  congr 1
  · rw [List.take_append_of_le_length (by simp [hel])]
  · rw [← List.map_take]
    congr 1
    rw [windows_take _ hn _ _ (by simp [hol]; omega)]
    congr 1
    rw [List.take_append_of_le_length (by simp [hol]; omega)]
    apply List.take_of_length_le
    simp [hol]; omega


theorem HbfDec.process_frame (o : Ops α) (d : HbfDec α) (wf : d.WF) (x : List α) (adm : d.Adm x) :
    (d.process o x).1.odd.taps = d.odd.taps ∧ (d.process o x).1.even.length = d.even.length ∧
    (d.process o x).1.odd.x.length = d.odd.x.length := by
  obtain ⟨hm, hle, hge⟩ := wf
  obtain ⟨hx2, hxm⟩ := adm
  simp only [HbfDec.blockMax] at hxm
  have hel := evens_length x
  have hol := odds_length x
  simp only [HbfDec.process, SymFir.load, SymFir.keepState, copyToFront, splice]
  refine ⟨trivial, ?_, ?_⟩
  · simp [hel]; omega
  · simp [hol]; omega

theorem take_drop_append_tail (a t : List α) (c k : Nat) (h : a.length = k + c) :
    List.take c (List.drop k (a ++ t)) = List.drop (a.length - c) a := by
  rw [List.drop_append_of_le_length (by omega), List.take_append_of_le_length (by simp; omega)]
  have : a.length - c = k := by omega
  rw [this]
  apply List.take_of_length_le; simp; omega

theorem HbfDec.process_abs (o : Ops α) (d : HbfDec α) (wf : d.WF) (x : List α) (adm : d.Adm x) :
    (d.process o x).1.abs = decNext d.odd.taps.length d.abs.1 d.abs.2 x := by
  obtain ⟨hm, hle, hge⟩ := wf
  obtain ⟨hx2, hxm⟩ := adm
  simp only [HbfDec.blockMax] at hxm
  have hel := evens_length x
  have hol := odds_length x
  simp only [HbfDec.process, SymFir.load, SymFir.keepState, copyToFront, splice, HbfDec.abs, decNext, lastN]
  congr 1
  · simp only [List.take_zero, List.nil_append, Nat.zero_add]
    rw [List.take_append_of_le_length (by simp [hel]; omega), List.take_take, Nat.min_self]
    apply take_drop_append_tail
    simp [hel]; omega
  · simp only [List.take_zero, List.nil_append, Nat.zero_add]
    rw [List.take_append_of_le_length (by simp [hol]; omega), List.take_take, Nat.min_self]
    apply take_drop_append_tail
    simp [hol]; omega


/-! ### interpolator -/

theorem interleave_length (a b : List α) : (interleave a b).length = 2 * min a.length b.length := by
  fun_induction interleave a b with
  | case1 a as b bs ih => simp [ih]; omega
  | case2 a b h =>
    cases a with
    | nil => simp
    | cons x xs =>
      cases b with
      | nil => simp
      | cons y ys => exact absurd rfl (h x xs y ys rfl)

theorem interleave_take_left (a b : List α) (k : Nat) :
    interleave a (b.take k) = interleave (a.take k) (b.take k) := by
  induction k generalizing a b with
  | zero => cases a <;> simp [interleave]
  | succ k ih =>
    cases a with
    | nil => simp [interleave]
    | cons x xs =>
      cases b with
      | nil => simp [interleave]
      | cons y ys => simp [interleave]; exact ih xs ys

theorem interleave_append (a1 a2 b1 b2 : List α) (h : a1.length = b1.length) :
    interleave (a1 ++ a2) (b1 ++ b2) = interleave a1 b1 ++ interleave a2 b2 := by
  induction a1 generalizing b1 with
  | nil => cases b1 with
    | nil => simp [interleave]
    | cons _ _ => simp at h
  | cons x xs ih =>
    cases b1 with
    | nil => simp at h
    | cons y ys => simp [interleave]; exact ih ys (by simpa using h)

structure HbfInt.WF (d : HbfInt α) : Prop where
  taps_pos : 1 ≤ d.fir.taps.length
  len_ge : 2 * d.fir.taps.length ≤ d.fir.x.length

/-- admissible input block for `HbfInt::process_block`: the output block (`2k` items) is at most `block_size().1` -/
def HbfInt.Adm (d : HbfInt α) (x : List α) : Prop := 2 * x.length ≤ d.blockMax

/-- the part of the state that is ever read again: the first `2M-1` items of `fir.x` -/
def HbfInt.abs (d : HbfInt α) : List α := d.fir.x.take (2 * d.fir.taps.length - 1)

theorem HbfInt.abs_length (d : HbfInt α) (wf : d.WF) : d.abs.length = 2 * d.fir.taps.length - 1 := by
  have := wf.taps_pos; have := wf.len_ge
  simp [HbfInt.abs]; omega

/-- History-only specification of `HbfInt`: `h` = the last `2M-1` inputs, `x` = new inputs. -/
def hbfIntSpec (o : Ops α) (taps h x : List α) : List α :=
  interleave ((windows (2 * taps.length) (h ++ x)).map (firTap o taps))
    (((h ++ x).drop taps.length).take x.length)

def intNext (m : Nat) (h x : List α) : List α := lastN (2 * m - 1) (h ++ x)

theorem intNext_length (m : Nat) (h x : List α) (h1 : h.length = 2 * m - 1) :
    (intNext m h x).length = 2 * m - 1 := by
  simp [intNext, lastN_length, h1]

theorem intSpec_length (o : Ops α) (taps h x : List α) (hm : 1 ≤ taps.length)
    (h1 : h.length = 2 * taps.length - 1) : (hbfIntSpec o taps h x).length = 2 * x.length := by
  have hw := windows_length (2 * taps.length) (by omega) (h ++ x)
  simp [hbfIntSpec, interleave_length, hw, h1]; omega

theorem intSpec_append (o : Ops α) (taps h b1 b2 : List α) (hm : 1 ≤ taps.length)
    (h1 : h.length = 2 * taps.length - 1) :
    hbfIntSpec o taps h (b1 ++ b2) =
      hbfIntSpec o taps h b1 ++ hbfIntSpec o taps (intNext taps.length h b1) b2 := by
  have hn : 0 < 2 * taps.length := by omega
  have hw1 := windows_length (2 * taps.length) hn (h ++ b1)
  simp only [hbfIntSpec, intNext]
  rw [← interleave_append _ _ _ _ (by simp [hw1, h1]; omega), ← List.map_append]
  congr 1
  · congr 1
    have hsplit := (List.take_append_drop b1.length (windows (2 * taps.length) (h ++ (b1 ++ b2)))).symm
    rw [hsplit]
    congr 1
    · rw [windows_take _ hn _ _ (by simp [h1]; omega)]
      congr 1
      rw [← List.append_assoc, List.take_append_of_le_length (by simp [h1]; omega)]
      apply List.take_of_length_le; simp [h1]; omega
    · rw [windows_drop, lastN, ← List.append_assoc, List.drop_append_of_le_length (by simp)]
      congr 2
      simp [h1]
  · rw [List.length_append, List.take_add]
    congr 1
    · rw [← List.append_assoc, List.drop_append_of_le_length (by simp [h1]; omega),
        List.take_append_of_le_length (by simp [h1]; omega)]
    · have e : (h ++ b1).length - (2 * taps.length - 1) = b1.length := by simp [h1]
      rw [lastN, e, ← List.drop_append_of_le_length (l₂ := b2) (by simp), List.drop_drop, List.drop_drop,
        List.append_assoc, Nat.add_comm]


theorem HbfInt.process_out (o : Ops α) (d : HbfInt α) (wf : d.WF) (x : List α) (adm : d.Adm x) :
    (d.process o x).2 = hbfIntSpec o d.fir.taps d.abs x := by
  obtain ⟨hm, hge⟩ := wf
  have hadm : 2 * x.length ≤ 2 * (d.fir.x.length - (2 * d.fir.taps.length - 1)) := adm
  have hn : 0 < 2 * d.fir.taps.length := by omega
  simp only [HbfInt.process, SymFir.load, SymFir.get, splice, HbfInt.abs, hbfIntSpec]
  rw [interleave_take_left]
  congr 1
  · rw [← List.map_take]
    congr 1
    rw [windows_take _ hn _ _ (by simp; omega)]
    congr 1
    rw [List.take_append_of_le_length (by simp; omega)]
    apply List.take_of_length_le
    simp; omega
  · rw [List.drop_append_of_le_length (by simp; omega), List.take_append_of_le_length (by simp; omega)]

theorem HbfInt.process_frame (o : Ops α) (d : HbfInt α) (wf : d.WF) (x : List α) (adm : d.Adm x) :
    (d.process o x).1.fir.taps = d.fir.taps ∧ (d.process o x).1.fir.x.length = d.fir.x.length := by
  obtain ⟨hm, hge⟩ := wf
  have hadm : 2 * x.length ≤ 2 * (d.fir.x.length - (2 * d.fir.taps.length - 1)) := adm
  simp only [HbfInt.process, SymFir.load, SymFir.keepState, copyToFront, splice]
  refine ⟨trivial, ?_⟩
  simp; omega

theorem HbfInt.process_abs (o : Ops α) (d : HbfInt α) (wf : d.WF) (x : List α) (adm : d.Adm x) :
    (d.process o x).1.abs = intNext d.fir.taps.length d.abs x := by
  obtain ⟨hm, hge⟩ := wf
  have hadm : 2 * x.length ≤ 2 * (d.fir.x.length - (2 * d.fir.taps.length - 1)) := adm
  simp only [HbfInt.process, SymFir.load, SymFir.keepState, copyToFront, splice, HbfInt.abs, intNext, lastN]
  simp only [List.take_zero, List.nil_append, Nat.zero_add]
  rw [List.take_append_of_le_length (by simp; omega), List.take_take, Nat.min_self]
  apply take_drop_append_tail
  simp; omega

end Idsp
