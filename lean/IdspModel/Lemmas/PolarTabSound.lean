import IdspModel.Lemmas.PolarTab
import IdspModel.Lemmas.PolarSym
/-!
# Soundness of the polar round-trip table check

`polarPt … ph0 = true` on row `i` (the executable per-point check of `PolarTab.lean`) implies the statement about the
model: `arg(from_angle(128·f))`, `f = 32768·i + ph0`, differs from `128·f` by at least `-14911` and at most `15038`.
One generic proof for all `i < 128`, `ph0 < 32768`; nothing here is enumerated.
-/
namespace Idsp

theorem polar_ble_false {a b : Nat} (h : Nat.ble a b = false) : b < a := by
  by_contra hh
  have h1 : a ≤ b := by omega
  rw [← Nat.ble_eq, h] at h1
  cases h1

theorem polar_cond_ble_cases (K y a b : Nat) (P : Nat → Prop) (h1 : K ≤ y → P a) (h2 : y < K → P b) :
    P (cond (Nat.ble K y) a b) := by
  cases h : Nat.ble K y
  · exact h2 (polar_ble_false h)
  · exact h1 (Nat.le_of_ble_eq_true h)

theorem polarZ_spec {y : Nat} (h0 : 131072 ≤ y) (h1 : y < 2147483648) :
    1 ≤ polarZ y ∧ polarZ y ≤ 14 ∧ 2 ^ (31 - polarZ y) ≤ y ∧ y < 2 ^ (32 - polarZ y) := by
  let P : Nat → Prop := fun z => 1 ≤ z ∧ z ≤ 14 ∧ 2 ^ (31 - z) ≤ y ∧ y < 2 ^ (32 - z)
  show P (polarZ y)
  unfold polarZ
  iterate 13
    refine polar_cond_ble_cases _ y _ _ P
      (fun h => by simp only [P, Nat.reduceSub, Nat.reducePow]; omega) (fun h => ?_)
  simp only [P, Nat.reduceSub, Nat.reducePow]; omega

/-- the clamp -/
theorem polar_clamp_cast (q : Nat) :
    ((cond (Nat.ble q 65536) q 65536 : Nat) : Int) = min (q : Int) (2 ^ 16) := by
  cases hq : Nat.ble q 65536
  · have := polar_ble_false hq; simp only [cond_false]; omega
  · have := Nat.le_of_ble_eq_true hq; simp only [cond_true]; omega

/-- `diviQN` is the quotient field of `divi` -/
theorem diviQN_ok {y x : Nat} (hyx : y ≤ x) (hx2 : 2 ≤ x) (hx : x < 2147483648) (m : Mode) :
    divi m (y : Int) (x : Int) = .ok (((diviQN y x : Nat) : Int) * 2 ^ 15 + 2 ^ 14) := by
  unfold diviQN
  cases hb : Nat.ble 131072 y
  · have hy : y < 131072 := polar_ble_false hb
    simp only [cond_false]
    rw [divi_small m (by omega) (by omega) (by omega) (by omega), if_neg (by omega), polar_clamp_cast]
    have e : ((Nat.div (Nat.mul y 32768) (Nat.div x 2) : Nat) : Int) = (y : Int) * 2 ^ 15 / ((x : Int) / 2) := by
      show ((y * 32768 / (x / 2) : Nat) : Int) = _
      push_cast; rfl
    rw [e]
  · have hy : 131072 ≤ y := Nat.le_of_ble_eq_true hb
    simp only [cond_true]
    obtain ⟨z1, z14, zl, zu⟩ := polarZ_spec hy (by omega)
    generalize polarZ y = z at *
    have zl' : (2 : Int) ^ (31 - z) ≤ (y : Int) := by exact_mod_cast zl
    have zu' : (y : Int) < 2 ^ (31 - z + 1) := by
      rw [show 31 - z + 1 = 32 - z by omega]; exact_mod_cast zu
    have hz : min ((clz 32 (y : Int) : Nat) : Int) 15 = ((z : Nat) : Int) := by
      have := clz32_min_big (y := (y : Int)) (L := 31 - z) (by omega) zl' zu'
      rwa [show 31 - (31 - z) = z by omega] at this
    have hp1 : 1 ≤ 2 ^ (15 - z) := Nat.one_le_two_pow
    have e : ((Nat.div (Nat.mul y (Nat.pow 2 z))
        (Nat.div (Nat.add x (Nat.sub (Nat.pow 2 (Nat.sub 15 z)) 1)) (Nat.pow 2 (Nat.sub 16 z))) : Nat) : Int) =
        (y : Int) * 2 ^ z / (((x : Int) + (2 ^ (15 - z) - 1)) / 2 ^ (16 - z)) := by
      show ((y * 2 ^ z / ((x + (2 ^ (15 - z) - 1)) / 2 ^ (16 - z)) : Nat) : Int) = _
      push_cast [Nat.cast_sub hp1]; rfl
    rw [polar_clamp_cast, e]
    have hcases : z = 1 ∨ z = 2 ∨ z = 3 ∨ z = 4 ∨ z = 5 ∨ z = 6 ∨ z = 7 ∨ z = 8 ∨ z = 9 ∨ z = 10 ∨
        z = 11 ∨ z = 12 ∨ z = 13 ∨ z = 14 := by omega
    rcases hcases with h | h | h | h | h | h | h | h | h | h | h | h | h | h <;>
    · subst h
      simp only [Nat.reduceSub, Nat.reducePow] at zl zu
      rw [divi_of_z m hz (by omega) (by omega) (by omega) (by omega) (by omega), if_neg (by omega)]

/-- row constants as integers -/
theorem polarC_cast {i : Nat} (hi : i < 128) :
    (polarC i : Int) = cossinTable.getD i 0 % 2 ^ 16 + 2 ^ 16 ∧ (polarS i : Int) = cossinTable.getD i 0 / 2 ^ 16 ∧
    65536 ≤ polarC i ∧ polarC i ≤ 131071 ∧ polarS i ≤ 65535 := by
  have hrow := cossinTable_rows_ok i hi
  obtain ⟨l0, l1, _⟩ := cossinRow_bounds (d := 0) hrow (by omega) (by omega)
  unfold polarC polarS
  generalize cossinTable.getD i 0 = l at *
  refine ⟨by omega, by omega, by omega, by omega, by omega⟩

theorem polarDN_cast {ph0 : Nat} (h : ph0 < 32768) :
    (polarDN ph0 : Int) = (((ph0 : Int) - 2 ^ 14) * 51471) / 2 ^ 16 + 12868 ∧ polarDN ph0 ≤ 25734 := by
  have : polarDN ph0 = (ph0 * 51471 + 16384) / 65536 := rfl
  rw [this]
  omega

/-- the first-octant `cossin` core at field `f = 32768·i + ph0`, in the evaluator's offset form -/
theorem polar_core_cast {i ph0 : Nat} (hi : i < 128) (hph : ph0 < 32768) :
    cossinCoreVal ((32768 * i + ph0 : Nat) : Int) =
      ((polarA (polarC i) (polarS i) ph0 : Int),
        (polarBO (polarC i) (polarS i) ph0 : Int) - (Nat.mul 51 (polarC i) : Nat)) := by
  have hf0 : (0 : Int) ≤ ((32768 * i + ph0 : Nat) : Int) := by omega
  have hf1 : ((32768 * i + ph0 : Nat) : Int) < 2 ^ 22 := by omega
  have hb := cossinCoreVal_bounds hf0 hf1
  obtain ⟨hC, hS, c0, c1, s1⟩ := polarC_cast hi
  obtain ⟨hd, d1⟩ := polarDN_cast hph
  unfold cossinCoreVal at hb ⊢
  simp only at hb ⊢
  have hidx : (((32768 * i + ph0 : Nat) : Int) / 2 ^ 15).toNat = i := by omega
  have hmod : ((32768 * i + ph0 : Nat) : Int) % 2 ^ 15 = (ph0 : Int) := by omega
  rw [hidx, hmod] at hb ⊢
  rw [← hC, ← hS] at hb ⊢
  have hd' : (((ph0 : Int) - 2 ^ 14) * 51471) / 2 ^ 16 = (polarDN ph0 : Int) - 12868 := by omega
  rw [hd'] at hb ⊢
  generalize polarC i = C at *
  generalize polarS i = S at *
  have hA : polarA C S ph0 = C * 16384 + 101 * S - (S * polarDN ph0 + S * 60) / 128 := by
    show C * 16384 + 101 * S - S * (polarDN ph0 + 60) / 128 = _
    rw [Nat.mul_add]
  have hB : polarBO C S ph0 = S * 32768 + (C * polarDN ph0 + C * 188) / 256 := by
    show S * 32768 + C * (polarDN ph0 + 188) / 256 = _
    rw [Nat.mul_add]
  have e1 : (S : Int) * ((polarDN ph0 : Int) - 12868) = ((S * polarDN ph0 : Nat) : Int) - 12868 * (S : Int) := by
    push_cast; ring
  have e2 : (C : Int) * ((polarDN ph0 : Int) - 12868) = ((C * polarDN ph0 : Nat) : Int) - 12868 * (C : Int) := by
    push_cast; ring
  rw [e1, e2] at hb ⊢
  rw [hA, hB]
  have e51 : Nat.mul 51 C = 51 * C := rfl
  rw [e51]
  generalize S * polarDN ph0 = T at *
  generalize C * polarDN ph0 = U at *
  obtain ⟨b1, b2, b3, b4⟩ := hb
  refine Prod.ext ?_ ?_
  · simp only; omega
  · simp only; omega

/-- `cossin` at the phase `128·f` of a first-octant field is the bare core output -/
theorem polar_val_field {f : Int} (h0 : 0 ≤ f) (h1 : f < 2 ^ 22) : cossinVal (128 * f) = cossinCoreVal f := by
  have ho : cossinOct (128 * f) = 0 := by unfold cossinOct; omega
  have hf : cossinFld (128 * f) = f := by unfold cossinFld; omega
  unfold cossinVal
  rw [ho, hf]
  simp [cossinUnmap, cossinArg]

/-- soundness of the per-point check -/
theorem polarPt_sound {i ph0 : Nat} (hi : i < 128) (hph : ph0 < 32768)
    (h : polarPt (polarC i) (polarS i) (Nat.mul 51 (polarC i)) (Nat.add (Nat.mul 4194304 i) 2147483648) ph0 = true) :
    ∀ r, polarR (128 * ((32768 * i + ph0 : Nat) : Int)) = .ok r →
      -14911 ≤ r - 128 * ((32768 * i + ph0 : Nat) : Int) ∧ r - 128 * ((32768 * i + ph0 : Nat) : Int) ≤ 15038 := by
  intro r hr
  have hf0 : (0 : Int) ≤ ((32768 * i + ph0 : Nat) : Int) := by omega
  have hf1 : ((32768 * i + ph0 : Nat) : Int) < 2 ^ 22 := by omega
  have hb := cossinCoreVal_bounds hf0 hf1
  have hcore := polar_core_cast hi hph
  unfold polarR at hr
  rw [polar_val_field hf0 hf1, hcore] at hr
  rw [hcore] at hb
  simp only at hr hb
  obtain ⟨ba0, ba1, bb0, bb1⟩ := hb
  -- unpack the check
  unfold polarPt at h
  generalize hQ : polarQ (polarC i) (polarS i) (Nat.mul 51 (polarC i)) ph0 = Q at h
  cases hat : atanQN Q with
  | none => rw [hat] at h; cases h
  | some r0 =>
    rw [hat] at h
    simp only at h
    have hatQ := atanQN_some hat
    unfold atanQ at hatQ
    unfold polarQ at hQ
    unfold polarChk at h
    -- names
    generalize hcc : Nat.mul 51 (polarC i) = cc at *
    generalize hA : polarA (polarC i) (polarS i) ph0 = aN at *
    have hge : polarGe (polarC i) (polarS i) cc ph0 = Nat.ble cc (polarBO (polarC i) (polarS i) ph0) := rfl
    have hy0 : polarY0 (polarC i) (polarS i) cc ph0 =
        cond (polarGe (polarC i) (polarS i) cc ph0) (Nat.sub (polarBO (polarC i) (polarS i) ph0) cc)
          (Nat.sub cc (polarBO (polarC i) (polarS i) ph0)) := rfl
    generalize hBO : polarBO (polarC i) (polarS i) ph0 = bO at *
    have hns : polarNs (polarC i) (polarS i) cc ph0 = Nat.ble (polarY0 (polarC i) (polarS i) cc ph0) aN := by
      unfold polarNs; rw [hA]
    generalize polarY0 (polarC i) (polarS i) cc ph0 = y0 at *
    generalize polarGe (polarC i) (polarS i) cc ph0 = ge at *
    generalize polarNs (polarC i) (polarS i) cc ph0 = ns at *
    have ia : inI 32 (aN : Int) = true := lockin_inI32 (by omega) (by omega)
    have ib : inI 32 ((bO : Int) - (cc : Int)) = true := lockin_inI32 (by omega) (by omega)
    -- |b| = y0
    have hsb : satAbs ((bO : Int) - (cc : Int)) = (y0 : Int) ∧ (ge = true ↔ (0 : Int) ≤ (bO : Int) - (cc : Int)) := by
      rw [satAbs_of_in ib]
      cases hg : ge
      · rw [hg] at hge hy0
        have := polar_ble_false hge.symm
        simp only [cond_false] at hy0
        have : y0 = cc - bO := hy0
        constructor
        · rw [if_pos (by omega), if_neg (by omega)]; omega
        · constructor
          · intro hh; cases hh
          · intro hh; omega
      · rw [hg] at hge hy0
        have := Nat.le_of_ble_eq_true hge.symm
        simp only [cond_true] at hy0
        have : y0 = bO - cc := hy0
        constructor
        · rw [if_neg (by omega)]; omega
        · constructor
          · intro _; omega
          · intro _; rfl
    have hsa : satAbs (aN : Int) = (aN : Int) := by
      rw [satAbs_of_in ia, if_neg (by omega)]
    have y0b : y0 < 2147483648 := by
      have := satAbs_range ib; rw [hsb.1] at this; omega
    -- the first octant
    have hoct : oct0 .checked ((bO : Int) - (cc : Int)) (aN : Int) = .ok (r0 : Int) := by
      unfold oct0
      rw [hsb.1, hsa]
      cases hn : ns
      · rw [hn] at hns hQ
        have hlt := polar_ble_false hns.symm
        simp only [cond_false] at hQ
        have e1 : min (y0 : Int) (aN : Int) = (aN : Int) := by omega
        have e2 : max (y0 : Int) (aN : Int) = (y0 : Int) := by omega
        rw [e1, e2, diviQN_ok (by omega) (by omega) y0b .checked, hQ, R_ok_bind]
        exact hatQ
      · rw [hn] at hns hQ
        have hle := Nat.le_of_ble_eq_true hns.symm
        simp only [cond_true] at hQ
        have e1 : min (y0 : Int) (aN : Int) = (y0 : Int) := by omega
        have e2 : max (y0 : Int) (aN : Int) = (aN : Int) := by omega
        rw [e1, e2, diviQN_ok hle (by omega) (by omega) .checked, hQ, R_ok_bind]
        exact hatQ
    obtain ⟨r0', ho, _, _, _, _, _, hv⟩ := atan2_val ib ia
    have er0 : r0' = (r0 : Int) := Except.ok.inj ((ho .checked).symm.trans hoct)
    subst er0
    rw [hv .checked, hsa, hsb.1] at hr
    have hrr := Except.ok.inj hr
    -- the flags
    have d1 : decide ((bO : Int) - (cc : Int) < 0) = !ge := by
      cases hg : ge
      · have : ¬ ((0 : Int) ≤ (bO : Int) - (cc : Int)) := fun hh => by have := hsb.2.mpr hh; rw [hg] at this; cases this
        exact decide_eq_true (by omega)
      · have := hsb.2.mp hg; exact decide_eq_false (by omega)
    have d2 : decide ((aN : Int) < 0) = false := decide_eq_false (by omega)
    have d3 : decide ((aN : Int) < (y0 : Int)) = !ns := by
      cases hn : ns
      · rw [hn] at hns; have := polar_ble_false hns.symm; exact decide_eq_true (by omega)
      · rw [hn] at hns; have := Nat.le_of_ble_eq_true hns.symm; exact decide_eq_false (by omega)
    rw [d1, d2, d3] at hrr
    simp only [Bool.and_eq_true, Nat.ble_eq] at h
    obtain ⟨h1, h2, h3⟩ := h
    have eP : Nat.add (Nat.add (Nat.mul 4194304 i) 2147483648) (Nat.mul 128 ph0) =
        4194304 * i + 2147483648 + 128 * ph0 := rfl
    rw [eP] at h2 h3
    subst hrr
    cases ge <;> cases ns <;>
      simp only [unfoldOct, cond_true, cond_false, Bool.not_true, Bool.not_false, if_true, Bool.false_eq_true,
        if_false] at h2 h3 ⊢ <;>
      (have e1 : ∀ a b : Nat, Nat.add a b = a + b := fun _ _ => rfl
       have e2 : ∀ a b : Nat, Nat.sub a b = a - b := fun _ _ => rfl
       simp only [e1, e2] at h2 h3
       omega)

/-- all rows: the bound at every first-octant field -/
theorem polarRows_sound (hrows : ∀ i : Nat, i < 128 → polarTabRowOk i) (f : Int) (h0 : 0 ≤ f) (h1 : f < 2 ^ 22) :
    ∀ r, polarR (128 * f) = .ok r → -14911 ≤ r - 128 * f ∧ r - 128 * f ≤ 15038 := by
  have hi : f.toNat / 32768 < 128 := by omega
  have hph : f.toNat % 32768 < 32768 := by omega
  have e : f = ((32768 * (f.toNat / 32768) + f.toNat % 32768 : Nat) : Int) := by omega
  rw [e]
  exact polarPt_sound hi hph (hrows _ hi _ hph)

end Idsp
