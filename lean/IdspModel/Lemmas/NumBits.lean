import IdspModel.Model.Num
import IdspModel.Lemmas.Basic
import Mathlib.Tactic.Ring
import Mathlib.Tactic.Linarith
namespace Idsp

/-- bitwise or of two non-negative integers occupying disjoint bit ranges is their sum -/
theorem lorU_mul_add {a b : Int} {k : Nat} (ha : 0 ≤ a) (hb0 : 0 ≤ b) (hb : b < 2 ^ k) :
    lorU (a * 2 ^ k) b = a * 2 ^ k + b := by
  obtain ⟨a', rfl⟩ := Int.eq_ofNat_of_zero_le ha
  obtain ⟨b', rfl⟩ := Int.eq_ofNat_of_zero_le hb0
  have hb' : b' < 2 ^ k := by exact_mod_cast hb
  unfold lorU
  have h1 : ((a' : Int) * 2 ^ k).toNat = 2 ^ k * a' := by
    rw [show ((a' : Int) * 2 ^ k) = ((2 ^ k * a' : Nat) : Int) by push_cast; rw [Int.mul_comm]]
    exact Int.toNat_natCast _
  rw [h1, Int.toNat_natCast, ← Nat.two_pow_add_eq_or_of_lt hb', Int.ofNat_eq_natCast]
  push_cast; rw [Int.mul_comm]

theorem lorU_nonneg (a b : Int) : 0 ≤ lorU a b := by
  unfold lorU; exact Int.natCast_nonneg _

theorem lorU_lt {a b : Int} {k : Nat} (ha : a < 2 ^ k) (hb : b < 2 ^ k) : lorU a b < 2 ^ k := by
  unfold lorU
  have h1 : a.toNat < 2 ^ k := by
    have : (a.toNat : Int) < ((2 ^ k : Nat) : Int) := by
      push_cast; have := Int.toNat_eq_max a; have := two_pow_pos k; omega
    exact_mod_cast this
  have h2 : b.toNat < 2 ^ k := by
    have : (b.toNat : Int) < ((2 ^ k : Nat) : Int) := by
      push_cast; have := Int.toNat_eq_max b; have := two_pow_pos k; omega
    exact_mod_cast this
  have := Nat.or_lt_two_pow h1 h2
  rw [Int.ofNat_eq_natCast]
  exact_mod_cast this

theorem lorU_zero_left {b : Int} (hb : 0 ≤ b) : lorU 0 b = b := by
  unfold lorU; simp [Int.toNat_of_nonneg hb]

theorem two_pow_add' (a b : Nat) : (2 : Int) ^ (a + b) = 2 ^ a * 2 ^ b := Int.pow_add ..

theorem two_pow_two_mul (w : Nat) : (2 : Int) ^ (2 * w) = 2 ^ w * 2 ^ w := by
  rw [Nat.two_mul, Int.pow_add]

theorem two_pow_two_mul_pred {w : Nat} (hw : 0 < w) : (2 : Int) ^ (2 * w - 1) = 2 ^ (w - 1) * 2 ^ w := by
  rw [← Int.pow_add]; congr 1; omega

theorem two_pow_split {w q : Nat} (h : q ≤ w) : (2 : Int) ^ w = 2 ^ (w - q) * 2 ^ q := by
  rw [← Int.pow_add]; congr 1; omega

/-- a `w`-bit value shifted left by `w` fits `2w` bits -/
theorem inI_mul_two_pow {w : Nat} (hw : 0 < w) {a : Int} (ha : inI w a = true) :
    inI (2 * w) (a * 2 ^ w) = true := by
  have ⟨h0, h1⟩ := inI_iff.mp ha
  have hW := two_pow_pos w
  rw [inI_iff, two_pow_two_mul_pred hw]
  constructor <;> nlinarith

/-- arithmetic shift right keeps a value in range -/
theorem inI_shr {w : Nat} {a : Int} (ha : inI w a = true) (g : Nat) : inI w (a / 2 ^ g) = true := by
  have ⟨h0, h1⟩ := inI_iff.mp ha
  have hG := two_pow_pos g
  have hH := two_pow_pos (w - 1)
  rw [inI_iff]
  constructor
  · rw [Int.le_ediv_iff_mul_le hG]; nlinarith
  · rw [Int.ediv_lt_iff_lt_mul hG]; nlinarith

/-- The bit-level offset term of `macc`, general form: the high part is `u >> G` placed at bit `w`, the low word is
    the genuine bitwise or of the low bits of `u << Q` and `e1` read as an unsigned `w`-bit number. -/
theorem macc_offset_general (w q : Nat) (hw : 0 < w) (hq : q ≤ w) (u e1 : Int) (hu : inI w u = true) :
    wrapI (2 * w) (lorU (wrapU (2 * w) (wrapI (2 * w) (shr u (w - q) * 2 ^ w)))
        (lorU (wrapU w (u * 2 ^ q)) (wrapU w e1)))
      = (u / 2 ^ (w - q)) * 2 ^ w + lorU ((u % 2 ^ (w - q)) * 2 ^ q) (e1 % 2 ^ w) := by
  have hW := two_pow_pos w
  have hP := two_pow_pos q
  have hG := two_pow_pos (w - q)
  have hA := inI_shr hu (w - q)
  have ⟨hA0, hA1⟩ := inI_iff.mp hA
  have h2 := two_pow_succ_pred hw
  unfold shr wrapU
  rw [wrapI_of_in (by omega) (inI_mul_two_pow hw hA)]
  -- low word
  have hlo1 : (u * 2 ^ q) % 2 ^ w = (u % 2 ^ (w - q)) * 2 ^ q := by
    rw [two_pow_split hq, Int.mul_comm u, Int.mul_comm (2 ^ (w - q)), Int.mul_emod_mul_of_pos _ _ hP,
      Int.mul_comm]
  rw [hlo1]
  generalize hlo : lorU ((u % 2 ^ (w - q)) * 2 ^ q) (e1 % 2 ^ w) = lo
  have hlo0 : 0 ≤ lo := hlo ▸ lorU_nonneg _ _
  have hlo1 : lo < 2 ^ w := by
    rw [← hlo]; apply lorU_lt
    · have := Int.emod_lt_of_pos u hG
      rw [two_pow_split hq]; nlinarith
    · exact Int.emod_lt_of_pos _ hW
  generalize u / 2 ^ (w - q) = A at *
  have hhi : (A * 2 ^ w) % 2 ^ (2 * w) = (A % 2 ^ w) * 2 ^ w := by
    rw [two_pow_two_mul, Int.mul_comm A, Int.mul_emod_mul_of_pos _ _ hW, Int.mul_comm]
  rw [hhi, lorU_mul_add (Int.emod_nonneg _ (by omega)) hlo0 hlo1]
  have hin : inI (2 * w) (A * 2 ^ w + lo) = true := by
    rw [inI_iff, two_pow_two_mul_pred hw]; constructor <;> nlinarith
  have hk : A % 2 ^ w = A - (A / 2 ^ w) * 2 ^ w := by
    have := Int.emod_add_mul_ediv A (2 ^ w); rw [Int.mul_comm] at this; omega
  rw [hk, show (A - A / 2 ^ w * 2 ^ w) * 2 ^ w + lo = (A * 2 ^ w + lo) + (-(A / 2 ^ w)) * 2 ^ (2 * w) by
    rw [two_pow_two_mul]; ring, wrapI_add_mul, wrapI_of_in (by omega) hin]

/-- with a remainder `0 ≤ e1 < ONE` the offset term is exactly `u·ONE + e1` -/
theorem macc_offset (w q : Nat) (hw : 0 < w) (hq : q ≤ w) (u e1 : Int) (hu : inI w u = true)
    (he0 : 0 ≤ e1) (he1 : e1 < 2 ^ q) :
    wrapI (2 * w) (lorU (wrapU (2 * w) (wrapI (2 * w) (shr u (w - q) * 2 ^ w)))
        (lorU (wrapU w (u * 2 ^ q)) (wrapU w e1))) = u * 2 ^ q + e1 := by
  rw [macc_offset_general w q hw hq u e1 hu]
  have hG := two_pow_pos (w - q)
  have hle : (2 : Int) ^ q ≤ 2 ^ w := two_pow_mono hq
  rw [Int.emod_eq_of_lt he0 (by omega), lorU_mul_add (Int.emod_nonneg _ (by omega)) he0 he1,
    two_pow_split hq]
  have := Int.emod_add_mul_ediv u (2 ^ (w - q))
  nlinarith

end Idsp
