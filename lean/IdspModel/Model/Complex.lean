import IdspModel.Model.Cossin
import IdspModel.Model.Atan2
import IdspModel.Model.Lowpass
/-! Model of `src/complex.rs` and `src/lockin.rs`. -/
namespace Idsp

def fromAngle (m : Mode) (p : Int) : R (Int × Int) := cossin m p

def absSqr (m : Mode) (re im : Int) : R Int := do
  let a ← arithI m 64 "complex.rs:52 re*re" (re * re)
  let b ← arithI m 64 "complex.rs:52 im*im" (im * im)
  let s ← arithI m 64 "complex.rs:52 +" (a + b)
  .ok (wrapU 32 (shr s 31))

def clog2 (m : Mode) (re im : Int) : R Int := do
  let a ← arithI m 64 "complex.rs:72 re*re" (re * re)
  let b ← arithI m 64 "complex.rs:72 im*im" (im * im)
  let s ← arithI m 64 "complex.rs:72 +" (a + b)
  -- leading_zeros of the i64 bit pattern
  arithI m 32 "complex.rs:73 -(lz as i32)" (-(clz 64 (wrapU 64 s) : Int))

def carg (m : Mode) (re im : Int) : R Int := atan2 m im re

def csatAdd (a b c d : Int) : Int × Int := (satI 32 (a + c), satI 32 (b + d))
def csatSub (a b c d : Int) : Int × Int := (satI 32 (a - c), satI 32 (b - d))

/-- `MulScaled<Complex<i32>>` -/
def cmulScaledC (m : Mode) (a b c d : Int) : R (Int × Int) := do
  let ac ← arithI m 64 "complex.rs:115 a*c" (a * c)
  let bd ← arithI m 64 "complex.rs:115 b*d" (b * d)
  let re ← arithI m 64 "complex.rs:115 a*c - b*d" (ac - bd)
  let bc ← arithI m 64 "complex.rs:116 b*c" (b * c)
  let ad ← arithI m 64 "complex.rs:116 a*d" (a * d)
  let im ← arithI m 64 "complex.rs:116 b*c + a*d" (bc + ad)
  .ok (wrapI 32 (shr re 31), wrapI 32 (shr im 31))

/-- `MulScaled<i32>` -/
def cmulScaledI32 (m : Mode) (re im o : Int) : R (Int × Int) := do
  let a ← arithI m 64 "complex.rs:124 other * re" (o * re)
  let b ← arithI m 64 "complex.rs:125 other * im" (o * im)
  .ok (wrapI 32 (shr a 31), wrapI 32 (shr b 31))

/-- `MulScaled<i16>` -/
def cmulScaledI16 (m : Mode) (re im o : Int) : R (Int × Int) := do
  let a ← arithI m 32 "complex.rs:133 other * (re >> 16)" (o * shr re 16)
  let a ← arithI m 32 "complex.rs:133 + (1 << 14)" (a + 2 ^ 14)
  let b ← arithI m 32 "complex.rs:134 other * (im >> 16)" (o * shr im 16)
  let b ← arithI m 32 "complex.rs:134 + (1 << 14)" (b + 2 ^ 14)
  .ok (shr a 15, shr b 15)

/-- `Lockin<Lowpass<2>>::update_iq`: state `(s00, s01, s10, s11)` -/
def lockinUpdateIq (m : Mode) (st : Int × Int × Int × Int) (sample lre lim k0 k1 : Int) :
    R ((Int × Int × Int × Int) × Int × Int) := do
  let (a0, a1, b0, b1) := st
  let (mre, mim) ← cmulScaledI32 m lre lim sample
  let (a0', a1', yre) ← lp2Update m a0 a1 mre k0 k1
  let (b0', b1', yim) ← lp2Update m b0 b1 mim k0 k1
  .ok ((a0', a1', b0', b1'), yre, yim)

def lockinUpdate (m : Mode) (st : Int × Int × Int × Int) (sample phase k0 k1 : Int) :
    R ((Int × Int × Int × Int) × Int × Int) := do
  let (c, s) ← fromAngle m phase
  lockinUpdateIq m st sample c s k0 k1

end Idsp
