"""Per-property configuration of ./check (what is proved, what is explored, which op families tie the model)."""

TRUSTED_BASE = [
    "Lean 4.33.0 kernel; axioms allowed: propext, Classical.choice, Quot.sound (audited with #print axioms on every run); no sorry/admit/native_decide/bv_decide/implemented_by/unsafe",
    "IdspModel/Rust.lean: wrapI/wrapU/arithI/shr/... are the semantics of rustc integer operations in the two profiles (validated by the correspondence stream on boundary lattices)",
    "hand-written model IdspModel/Model/*.lean is tied to /repo only by the behavioural correspondence (harness/src/gen.rs -> compiled Lean driver), which is sampled, not exhaustive, unless the evidence says so",
    "harness (Rust, catch_unwind, decimal I/O) and driver (Lean I/O, parsing) are trusted glue",
]

PROPS = {
    "C17": {
        "families": ["osub", "unwrap", "accu"],
        "n_quick": 60000, "n_thorough": 600000,
        "clauses_proved": [
            "overflowing_sub: w in {-1,0,1} and y-x = d - w*2^bits for every width and pair (overflowing_sub_exact)",
            "Unwrapper: returned value is the wrapped increment; accumulator = old + increment; reduces to the new sample (unwrapper_step, unwrapper_tracks_last)",
            "Unwrapper: wide output = running sum of increments for every sequence (unwrapper_sum, unwrapper_sum_exact)",
            "Accu: n-th item = start + n*step mod 2^bits, iterator total (accu_nth)",
        ],
        "clauses_explored": [],
        "level_text": "Every clause of the property is a kernel-checked theorem about the model, for all widths, pairs, sample sequences and (start, step, n); the model is tied to the crate by correspondence on 3.6e5 op lines per run and by a native oracle that is exhaustive for i8 (and i16 in the thorough tier).",
        "level_note": "Model: overflowingSub, unwrapperUpdate, accuNext (IdspModel/Model/Unwrap.lean). Not modelled: Unwrapper::wraps (no primitive type satisfies its trait bounds), serde derives.",
        "rule": "osub: all i8 pairs (and all i16 pairs in thorough), lattice/random i32/i64; Unwrapper: random walks with forced wraps, each sequence distinct; Accu: (start, step, n) triples",
    },
}

PROPS["C18"] = {
    "families": ["satscale"],
    "n_quick": 200000, "n_thorough": 2000000,
    "clauses_proved": [
        "exact inside the range for every documented shift 1..=32: floor((hi*2^32+lo)/2^shift) (sat_scale_exact)",
        "outside: constant +-(2^31 - 2^(shift-1)), independent of lo (sat_scale_clip)",
        "never panics for shift 1..=32, result in i32 (sat_scale_total) [after the fix: commit]",
        "monotone in (hi, lo) for shift <= 16 (sat_scale_monotone_le16)",
        "NEGATION: not monotone for every shift 17..=32 (sat_scale_not_monotone_ge17): known finding F-C18-a",
        "NEGATION: shift 32, hi = MIN saturates to 0 (sat_scale_shift32_min_is_zero): known finding F-C18-c",
    ],
    "clauses_explored": [],
    "level_text": "All clauses are kernel-checked theorems about the model for every shift and every (lo, hi); the monotonicity clause is proved for shift <= 16 and its negation is proved for every shift >= 17 (known finding, the code really is non-monotone there). Correspondence covers all shifts 0..=40 incl. contract violations in both profiles; the native oracle checks every clause on boundary lattices for all 32 shifts.",
    "level_note": "Model: saturatingScale (IdspModel/Model/Unwrap.lean).",
    "rule": "per shift: hi at both clip boundaries +-3, extremes, random; lo extremes + random; adjacent (hi,lo) pairs",
}
PROPS["C10"] = {
    "families": ["lowpass"],
    "n_quick": 100000, "n_thorough": 1000000,
    "clauses_proved": [
        "first order: for every k in [1, 2^31-1], EVERY i64 state, every x: no overflow in either profile, output and get() between previous output and input (lp1_between)",
        "first order: constant input reached exactly from every state (lp1_dc_reaches) and held (lp1_dc_fixed)",
        "set(x); get() = x (lp_set_get)",
        "second order: one-step linear form under explicit no-overflow preconditions (lp2_step_linear)",
        "NEGATION: second order wraps/panics near full scale (lp2_fullscale_overflow_witness): known finding F-C10",
    ],
    "clauses_explored": [
        "second order Butterworth settling within 4*2^32/k+4 LSB and <= 5% overshoot for levels within +-2^30 (native sweep)",
        "second order never wraps for steps whose target level is below 0.95 of full scale (native, against an unbounded-integer reference of the same recurrence)",
    ],
    "level_text": "The first-order clauses are theorems for all gains, all i64 states and all inputs. The second-order quantitative clauses are explored only (a quantised second-order loop; no proof attempted), the failing full-scale clause is a proved negation and a known finding.",
    "level_note": "Model: lp1Update, lp2Update, lpGet, lpSet (IdspModel/Model/Lowpass.lean). Lowpass<N> for N other than 1, 2 is unimplemented!() in the code and not modelled.",
    "rule": "lp1: arbitrary/set()/reachable states x lattice gains x full-scale alternations; lp2: k lattice x level pairs; each configuration distinct",
}
PROPS["C01"] = {
    "families": ["cossin"],
    "n_quick": 300000, "n_thorough": 3000000,
    "clauses_proved": [
        "no overflow anywhere inside cossin for every phase, both profiles agree (cossin_total, cossin_mode_irrelevant, cossinCore_total_range)",
        "|cos|,|sin| <= 2147454703 < 2^31, negation fits, squared norm < 2^63 (cossin_range)",
        "result depends only on the octant and the 22-bit field; low 7 bits ignored (cossin_depends_only_on_field, cossin_ignores_low7)",
        "quarter turn: (-sin, cos) exactly; half turn; conjugation by bit complement (cossin_quarter_turn, cossin_half_turn, cossin_conj)",
        "quadrant mirror = XOR 0x3fffffff swaps the magnitudes of cos and sin exactly (cossin_quadrant_mirror, cossin_quadrant_mirror_abs, cossinMirror_is_xor)",
        "each output sums to exactly zero over all 2^32 phases (cossin_sum_zero), by pairing, not enumeration",
    ],
    "clauses_explored": [
        "accuracy |out/A - (cos,sin)(p*pi/2^31)| < 1e-5 against f64 cos/sin: all 2^32 phases in the thorough tier, 2^24 stratified in quick (max observed 9.0232e-6)",
    ],
    "level_text": "All exact clauses (range, symmetries, zero sum, no overflow) are theorems for all 2^32 phases. The accuracy clause compares with the real cos/sin and is explored natively (exhaustively over the finite domain in the thorough tier); it is not a theorem.",
    "level_note": "Model: cossin, cossinCore, cossinTable (IdspModel/Model/Cossin*.lean); the 128-entry table is compared with the table build.rs generated for the current build on every run (op cossin_tab). Reading of 'mirroring swaps cos and sin': magnitudes swap, signs follow the quadrant (the literal (s, c) is false in odd quadrants: cossin_quadrant_mirror_literal_false).",
    "rule": "quick: one phase per 256-block (2^24), closed under the half turn; thorough: all 2^32 phases; each phase checked for accuracy, range, three symmetries",
}
PROPS["C16"] = {
    "families": ["dsm"],
    "n_quick": 100000, "n_thorough": 1000000,
    "clauses_proved": [
        "range invariant for every K <= 7, every invariant state, every input list; never panics; both profiles agree (dsm_range, dsm_range_step, dsm_range_from)",
        "output is the exact (unbounded) MASH-1^K value; run equals the unbounded specification (dsm_mash, dsm_mash_run)",
        "error identity 2^32*sum(y) - sum(x) = function of the final state, within +-2^(K-1)*2^32, for every prefix (dsm_error_identity, dsm_error_step, dsm_err_bound, dsm_run_prefix)",
        "constant input mean bound (dsm_const_input_mean)",
        "K = 8 characterised exactly: deviates only when the exact output is +128 (dsm_step_upto8, dsm_run_upto8); NEGATION witness dsm_k8_overflow_witness: known finding F-C16-b",
        "K = 0 returns 0 (after the fix: commit)",
    ],
    "clauses_explored": [],
    "level_text": "Every clause is a K-generic kernel-checked theorem over all invariant states and all input lists (no enumeration); for K = 8 the exact deviation condition is proved and the property's failure is a proved negation with a 9-step witness (known finding).",
    "level_note": "Model: Dsm.update (IdspModel/Model/Dsm.lean).",
    "rule": "sequences from default: constant, 1-4 bit lattices, carry alignments, random; all 4^6 (4^8 thorough) sequences on the 2-bit lattice for every K; compared with an unbounded reference MASH",
}

PROPS["C12"] = {
    "families": ["cic_dec"],
    "n_quick": 100000, "n_thorough": 1000000,
    "clauses_proved": [
        "emits exactly at calls t with t % R = 0; tick() predicts it (decimate_emit_times, decimate_tick, decimate_tick_iff_some)",
        "m-th output = wrapI w (boxcar_R^{*N} * x)(mR) for every N, R, w, input list (decimate_eq_fir, decimate_outputs); exact when it fits (decimate_exact_when_fits)",
        "gain() = (rate+1)^N; gain_log2 upper bound, exact for power-of-two R (gain_eq, gain_ok, gainLog2_bound, gainLog2_exact)",
        "rate 0 is the identity for every N (decimate_rate0_identity); get_decimate = last output (getDecimate_eq)",
    ],
    "clauses_explored": [],
    "level_text": "Every clause is a theorem generic in the order N, the rate, the width and the input list (integrator wrap-around proved harmless via wrapI being a ring homomorphism).",
    "level_note": "Model: Cic.decimate/gain/gainLog2 (IdspModel/Model/Cic.lean), N = list length. set_rate mid-stream is outside the property. gain() casts `rate as T` (wraps for narrow T): stated in gain_eq_general.",
    "rule": "orders 0..=6, rates 0..=64 and powers of two, i8..i128, small and integrator-wrapping inputs; FIR reference computed modulo 2^128",
}
PROPS["C13"] = {
    "families": ["cic_int"],
    "n_quick": 100000, "n_thorough": 1000000,
    "clauses_proved": [
        "under the tick contract the run never hits the debug_assert / index underflow; tick true exactly every R calls (interpolate_contract_never_panics, interpolate_tick_period)",
        "every output = exact FIR (boxcar^N) of the held input whenever the checked run returns (interpolate_eq_fir, interpolate_eq_fir_sum); converse sufficient condition (interpolate_ok_of_fits)",
        "get_interpolate = last returned output (getInterpolate_eq_last)",
        "constant input: x*step response, settled = x*(rate+1)^N from response_length on, monotone between levels (interpolate_constant, interpolate_constant_settled, interpolate_level_change, stepResp_shape)",
        "settle_interpolate(x) is a fixed point with outputs x*gain and equals the state reached from new() after N+1 periods (settle_fixed_point, settle_fixed_point_gain, settle_eq_run_from_zero, run_from_zero_settles)",
        "contract violations panic in a checked build (interpolate_some_off_tick_checked_panics, interpolate_none_on_tick_checked_panics)",
    ],
    "clauses_explored": [],
    "level_text": "Every clause is a theorem generic in N, rate, width and the low-rate sequence; 'as long as no intermediate value overflows' is the hypothesis that the checked model run returns ok.",
    "level_note": "Model: Cic.interpolate/settleInterpolate (IdspModel/Model/Cic.lean). Release-mode behaviour under overflow is not claimed by the property and not proved.",
    "rule": "orders 0..=5, rates 0..=32, i32/i64/i128, arbitrary low-rate sequences sized to avoid overflow; contract violations in the correspondence stream",
}
PROPS["C05"] = {
    "families": ["num"],
    "n_quick": 200000, "n_thorough": 2000000,
    "clauses_proved": [
        "macc = (clamp(floor(T/ONE)), T mod ONE), remainder in [0, ONE), floor*ONE + rem = T, parametric in (w, q) and for the four instances (macc_exact, macc_exact_instances); release wrap form (macc_release_wrap); checked overflow panics exactly when T does not fit (macc_checked_overflow); arbitrary e1 is a genuine bitwise or (macc_any_e1)",
        "mul_scaled = floor((a*b + ONE/2)/ONE) (mul_scaled_exact), x*ONE = x (mul_scaled_one), div_scaled = truncated quotient, b = 0 panics (div_scaled_exact)",
        "-2 exactly representable (neg_two_representable); clip (clip_spec)",
    ],
    "clauses_explored": [
        "quantize(real) gives the nearest coefficient (float multiply + round: not modelled; sampled natively for i16/i32)",
    ],
    "level_text": "The integer clauses are theorems parametric in the width and the number of fractional bits (bit-level offset split proved equal to u*ONE + e1); the float->fixed quantize clause is explored only.",
    "level_note": "Model: macc, mulScaled, divScaled, clip (IdspModel/Model/Num.lean). Not modelled: quantize (f32/f64 multiply and round), the float Coefficient impls.",
    "rule": "i8 macc: the complete (u, s) plane x limit pairs x e1 lattice (complete e1 range in thorough); i8 mul/div all pairs; wider types lattice + random",
}
PROPS["C03"] = {
    "families": ["biquad", "num"],
    "n_quick": 150000, "n_thorough": 1500000,
    "clauses_proved": [
        "N = 4, 5: y0 = clamp(floor(T/ONE)), state = [x0, x1, y0, y1(, T mod ONE)] when every partial sum fits (update4_exact, update5_exact); release: only the total must fit (update45_release_exact); checked: whenever it returns it is exact (update45_checked_exact_of_ok); remainder stays in [0, ONE) (update5_remainder_range, run5_remainder_range)",
        "configuration unchanged (it is an argument of the model, not part of the result)",
        "IDENTITY returns x0, HOLD returns y1, proportional(k) returns clamp(floor(k*x0/ONE)) (identity_returns_x0, hold_returns_y1, proportional_exact, proportional_exact_of_representable)",
        "DF2T exact-arithmetic recurrence over any CommRing: clamped recurrence from the third sample on; equals DF1 from rest (df2t_third_output, df2t_run_recurrence, df2t_run_of_df1, df2t_eq_df1_from_rest, df2t_eq_df1_from_rest_zero_offset)",
        "NEGATION: a partial sum can overflow although the total fits, checked build only (update4_partial_sum_overflow_witness, update4_exact_checked_full_false): known finding F-C03",
    ],
    "clauses_explored": [
        "f32/f64: the same expression to floating-point rounding; DF2T reproduces DF1 from rest for stable filters (native, tolerance scaled by filter gain)",
    ],
    "level_text": "Fixed-point clauses are theorems for all four widths; the DF2T clause is a theorem about the exact-arithmetic recurrence over any commutative ring; IEEE rounding is outside the theorems and explored natively.",
    "level_note": "Model: biquadUpdate4/5/2, biquadAcc (IdspModel/Model/Biquad.lean). The fixed-point DF2T (documented as 'do not use') is tied by correspondence only. Floats are not modelled bit-exactly.",
    "rule": "all widths, N in {4,5,2}, coefficient styles (arbitrary, integrator, double integrator, identity), fed-back histories, accumulator-overflow cases",
}
PROPS["C04"] = {
    "families": ["biquad"],
    "n_quick": 150000, "n_thorough": 1500000,
    "clauses_proved": [
        "min <= y <= max for N = 4, 5, 2, every state/input/coefficients, every step of every run (update4_in_limits, update5_in_limits, update2_in_limits, update45_in_limits_checked, run_in_limits)",
        "N = 4: state after two equal outputs under constant input is (x, x, lim, lim), independent of L; continuations identical (state4_after_two, no_windup4, no_windup4_recovery); N = 2 likewise (state2_after_two, no_windup2)",
        "N = 5: the four stored samples agree; continuation agrees given equal remainder (no_windup5_partial, no_windup5_recovery_partial)",
        "NEGATION: N = 5 response after saturation depends on L through the carried remainder (no_windup5_full_false): known finding F-C04",
    ],
    "clauses_explored": [
        "f32/f64 limits and bit-identical recovery (native, compared between saturation durations on the implementation)",
    ],
    "level_text": "Limit and no-wind-up clauses are theorems for all widths and state forms; the N = 5 literal 'bit-identical' claim is false (proved negation, known finding, <= 1 LSB).",
    "level_note": "Model: as C03. Floats: explored natively only.",
    "rule": "integrating and double-integrating filters, all limit pairs on the lattice, saturation durations 2 vs 2+l within the same saturation episode, random continuations",
}

NOT_APPLICABLE = {
    "C%02d" % i: "check not built yet (work in progress in this session; see DESIGN.md section 5 for the plan)" for i in range(1, 21)
}
