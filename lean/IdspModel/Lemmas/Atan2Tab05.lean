import IdspModel.Lemmas.Atan2Tab
/-! `atani` table, chunk 5 of 8: quotient fields 40960 … 49152 (complete range, evaluated by the kernel). -/
namespace Idsp

theorem atanTab5 : atanRun 40960 8193 = true := by decide +kernel

end Idsp
