use idsp::*;
use std::thread;
fn tol(y: i32, x: i32) -> f64 { let m = (x as f64).abs().max((y as f64).abs()); (1.5e-5f64).max(1.0 / m) }
fn err(y: i32, x: i32, a: i32) -> f64 {
    let want = (y as f64).atan2(x as f64);
    let have = a as f64 * std::f64::consts::PI / (1u64 << 31) as f64;
    let mut d = (have - want).abs();
    if d > std::f64::consts::PI { d = 2.0 * std::f64::consts::PI - d; }
    d
}
fn main() {
    let n: i32 = 1 << 17;
    let nt = 16;
    let hs: Vec<_> = (0..nt).map(|t| thread::spawn(move || {
        let mut worst = (0f64, 0, 0); let mut bad = 0u64; let mut maxabs=(0f64,0,0);
        let mut x = 4 + t;
        while x <= n { for y in 0..=x {
            let a = atan2(y, x); let e = err(y, x, a); let r = e / tol(y, x);
            if r > worst.0 { worst = (r, y, x); } if r > 1.0 { bad += 1; }
            if x > 70000 && e > maxabs.0 { maxabs = (e,y,x); }
            // reflections (within 1 LSB)
            let ax = atan2(-y, x); if (ax.wrapping_add(a)).abs() > 1 { bad += 1<<20; }
            let ay = atan2(y, -x); if (ay.wrapping_add(a).wrapping_sub(i32::MIN)).abs() > 1 { bad += 1<<30; }
            let ad = atan2(x, y); if (ad.wrapping_add(a).wrapping_sub(1<<30)).abs() > 1 { bad += 1<<40; }
        } x += nt; }
        (worst, bad, maxabs)
    })).collect();
    for h in hs { println!("{:?}", h.join().unwrap()); }
}
