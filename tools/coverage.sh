#!/bin/sh
# Line coverage of /repo/src by the harness (correspondence generators + native oracles, quick tier).
# Not part of any check: a measurement used to find public surface the generators do not reach.
# Needs the nightly toolchain's llvm-tools (llvm-profdata / llvm-cov). Scratch directory is removed at the end.
set -e
S=$(mktemp -d /tmp/idsp-cov.XXXXXX)
T=$(dirname "$(rustup which --toolchain nightly rustc)")/../lib/rustlib/x86_64-unknown-linux-gnu/bin
cd /verif/harness
LLVM_PROFILE_FILE=$S/build-%p.profraw CARGO_NET_OFFLINE=true RUSTFLAGS="--cfg idsp_verif -C instrument-coverage" CARGO_TARGET_DIR=$S/target \
  cargo +nightly build --offline --profile checked >/dev/null 2>&1
B=$S/target/checked/drive
FAMS=$(python3 -c "import sys; sys.path.insert(0,'/verif'); import props; print(','.join(sorted({f for c in props.PROPS.values() for f in c['families']})))")
LLVM_PROFILE_FILE=$S/gen-%p.profraw $B gen $FAMS 1 40000 >/dev/null
for p in C01 C02 C03 C04 C05 C06 C07 C08 C09 C10 C11 C12 C13 C14 C15 C16 C17 C18 C19 C20; do
  LLVM_PROFILE_FILE=$S/s-$p-%p.profraw $B search $p quick 1 >/dev/null 2>&1 &
done
wait
$T/llvm-profdata merge -sparse $S/*.profraw -o $S/all.profdata
$T/llvm-cov report $B -instr-profile=$S/all.profdata --ignore-filename-regex='(\.cargo|rustc|harness)' | awk '{printf "%-24s %9s %9s %9s\n", $1, $7, $9, $10}'
$T/llvm-cov export $B -instr-profile=$S/all.profdata --ignore-filename-regex='(\.cargo|rustc|harness)' -format=lcov > $S/all.lcov
python3 - "$S/all.lcov" <<'PY'
import collections, sys
cur = None; da = collections.defaultdict(dict)
for l in open(sys.argv[1]):
    l = l.strip()
    if l.startswith('SF:'): cur = l[3:]
    elif l.startswith('DA:'):
        n, c = l[3:].split(',')[:2]; da[cur][int(n)] = max(da[cur].get(int(n), 0), int(c))
tot = mis = 0
print("uncovered lines (no instantiation executed them):")
for f in sorted(da):
    miss = sorted(n for n, c in da[f].items() if c == 0); tot += len(da[f]); mis += len(miss)
    if miss:
        r = []; s = p = miss[0]
        for n in miss[1:]:
            if n == p + 1: p = n
            else: r.append((s, p)); s = p = n
        r.append((s, p))
        print(" ", f.replace('/repo/src/', ''), ' '.join(f"{a}-{b}" if a != b else str(a) for a, b in r))
print(f"lines {tot} missed {mis} covered {100 * (tot - mis) / tot:.1f}%")
PY
rm -rf $S
