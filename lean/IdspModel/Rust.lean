/-
  Rust fixed-width integer semantics on unbounded `Int`.   (import-free)

  Values are mathematical integers.  A width is explicit at every operation Rust
  performs at a width.  `Mode` selects the build profile: in `.checked`
  (overflow-checks + debug-assertions) a plain `+ - * neg <<` that leaves the type's
  range panics; in `.release` it wraps.  `wrapping_*`, `as` casts and the like wrap in
  both modes.
-/
namespace Idsp

/-- Signed two's-complement reduction to `w` bits. -/
def wrapI (w : Nat) (x : Int) : Int := (x + 2 ^ (w - 1)) % 2 ^ w - 2 ^ (w - 1)

/-- Unsigned reduction to `w` bits. -/
def wrapU (w : Nat) (x : Int) : Int := x % 2 ^ w

def inI (w : Nat) (x : Int) : Bool := decide (-(2 ^ (w - 1)) ≤ x) && decide (x < 2 ^ (w - 1))
def inU (w : Nat) (x : Int) : Bool := decide (0 ≤ x) && decide (x < 2 ^ w)

def minI (w : Nat) : Int := -(2 ^ (w - 1))
def maxI (w : Nat) : Int := 2 ^ (w - 1) - 1

inductive Mode where
  | checked
  | release
deriving DecidableEq, Repr

/-- A panic, tagged with the source site for diagnostics only. -/
structure Panic where
  site : String
deriving Repr, DecidableEq

abbrev R := Except Panic

/-- Result of a plain signed arithmetic operation whose exact value is `x`. -/
def arithI (m : Mode) (w : Nat) (site : String) (x : Int) : R Int :=
  if inI w x then .ok x else
    match m with
    | .checked => .error ⟨site⟩
    | .release => .ok (wrapI w x)

/-- Result of a plain unsigned arithmetic operation whose exact value is `x`. -/
def arithU (m : Mode) (w : Nat) (site : String) (x : Int) : R Int :=
  if inU w x then .ok x else
    match m with
    | .checked => .error ⟨site⟩
    | .release => .ok (wrapU w x)

/-- `debug_assert!(c)`. -/
def dbgAssert (m : Mode) (site : String) (c : Bool) : R Unit :=
  match m with
  | .checked => if c then .ok () else .error ⟨site⟩
  | .release => .ok ()

/-- Arithmetic shift right (signed) / logical shift right (on a non-negative value): floor division. -/
def shr (x : Int) (k : Nat) : Int := x / 2 ^ k

/-- `x << k` at signed width `w`: plain `<<` never checks the value, only the amount. -/
def shlI (m : Mode) (w : Nat) (site : String) (x : Int) (k : Int) : R Int :=
  if 0 ≤ k ∧ k < w then .ok (wrapI w (x * 2 ^ k.toNat)) else
    match m with
    | .checked => .error ⟨site⟩
    | .release => .ok (wrapI w (x * 2 ^ (k % w).toNat))

def shlU (m : Mode) (w : Nat) (site : String) (x : Int) (k : Int) : R Int :=
  if 0 ≤ k ∧ k < w then .ok (wrapU w (x * 2 ^ k.toNat)) else
    match m with
    | .checked => .error ⟨site⟩
    | .release => .ok (wrapU w (x * 2 ^ (k % w).toNat))

/-- `x >> k` with amount check (value semantics: floor division). -/
def shrC (m : Mode) (w : Nat) (site : String) (x : Int) (k : Int) : R Int :=
  if 0 ≤ k ∧ k < w then .ok (shr x k.toNat) else
    match m with
    | .checked => .error ⟨site⟩
    | .release => .ok (shr x (k % w).toNat)

def satI (w : Nat) (x : Int) : Int :=
  if x < minI w then minI w else if x > maxI w then maxI w else x

/-- number of leading zeros of an unsigned `w`-bit value -/
def clz (w : Nat) (x : Int) : Nat := w - x.toNat.log2 - (if x ≤ 0 then 0 else 1)

def b2i (b : Bool) : Int := if b then 1 else 0

end Idsp
