import Mathlib.Tactic.Ring
import Mathlib.Tactic.Linarith
import Mathlib.Tactic.Positivity
import Mathlib.Tactic.FieldSimp
import Mathlib.Tactic.NormNum
import Mathlib.Algebra.Order.Field.Basic
import Mathlib.Data.Real.Basic
/-!
# Lock-in recovery: the linear part of `Lowpass<2>` over the reals, input-to-state bound

State in LSB units: `S = s0 / 2^32`, `T = s1 / 2^32`; gains `α = k0 / 2^32`, `β = -k1 / 2^32`.  In the error
coordinates `(E, s) = (-S, T)` one update with disturbance `u` is
  `E' = (1-2α)·E − (2−2β)·s − 2u`,  `s' = 2α·E + (1−2β)·s + 2u`.
`lkQ` is the real version of the invariant quadratic form `lp2Q` (`Lemmas/Lp2Lyap.lean`): `Q(A v) = det(A)·Q(v)`.
This file re-derives the one-step input-to-state inequality over `ℝ` and iterates it along an ARBITRARY bounded
disturbance sequence.
-/
namespace Idsp

/-- invariant quadratic form, real version -/
def lkQ (α β E s : ℝ) : ℝ := α * E ^ 2 - (β - α) * E * s + (1 - β) * s ^ 2

/-- `−discriminant/4` of the characteristic polynomial -/
def lkDisc (α β : ℝ) : ℝ := 4 * α - (α + β) ^ 2

theorem lkQ_nonneg {α β : ℝ} (hα : 0 < α) (hD : 0 ≤ lkDisc α β) (E s : ℝ) : 0 ≤ lkQ α β E s := by
  have h : 4 * α * lkQ α β E s = (2 * α * E - (β - α) * s) ^ 2 + lkDisc α β * s ^ 2 := by
    unfold lkQ lkDisc; ring
  have h2 : 0 ≤ 4 * α * lkQ α β E s := by
    rw [h]; have := mul_nonneg hD (sq_nonneg s); positivity
  by_contra hc
  have hc' := not_le.mp hc
  nlinarith

theorem lkQ_extent_E (α β E s : ℝ) : lkDisc α β * E ^ 2 ≤ 4 * (1 - β) * lkQ α β E s := by
  have h : 4 * (1 - β) * lkQ α β E s = (2 * (1 - β) * s - (β - α) * E) ^ 2 + lkDisc α β * E ^ 2 := by
    unfold lkQ lkDisc; ring
  rw [h]; nlinarith [sq_nonneg (2 * (1 - β) * s - (β - α) * E)]

theorem lkQ_extent_s (α β E s : ℝ) : lkDisc α β * s ^ 2 ≤ 4 * α * lkQ α β E s := by
  have h : 4 * α * lkQ α β E s = (2 * α * E - (β - α) * s) ^ 2 + lkDisc α β * s ^ 2 := by
    unfold lkQ lkDisc; ring
  rw [h]; nlinarith [sq_nonneg (2 * α * E - (β - α) * s)]

/-- one-step input-to-state inequality -/
theorem lkQ_iss {α β : ℝ} (hα : 0 < α) (hD : 0 ≤ lkDisc α β) (E s E' s' u : ℝ)
    (hE : E' = (1 - 2 * α) * E - (2 - 2 * β) * s - 2 * u)
    (hs : s' = 2 * α * E + (1 - 2 * β) * s + 2 * u) :
    β * (1 - β) * lkQ α β E' s' ≤ β * (1 + 2 * α - 2 * β) * lkQ α β E s + 4 * (1 - β) * u ^ 2 := by
  have hid : β * (1 + 2 * α - 2 * β) * lkQ α β E s + 4 * (1 - β) * u ^ 2 - β * (1 - β) * lkQ α β E' s'
      = lkQ α β (β * ((1 - 2 * α) * E - (2 - 2 * β) * s) + 2 * (1 - β) * u)
          (β * (2 * α * E + (1 - 2 * β) * s) - 2 * (1 - β) * u) := by
    rw [hE, hs]; unfold lkQ; ring
  have hnn := lkQ_nonneg hα hD
    (β * ((1 - 2 * α) * E - (2 - 2 * β) * s) + 2 * (1 - β) * u)
    (β * (2 * α * E + (1 - 2 * β) * s) - 2 * (1 - β) * u)
  linarith

/-- the contraction factor per step and the equilibrium level of the form -/
noncomputable def lkLam (α β : ℝ) : ℝ := (1 + 2 * α - 2 * β) / (1 - β)
noncomputable def lkQstar (α β Δ : ℝ) : ℝ := 4 * (1 - β) * Δ ^ 2 / (β * (β - 2 * α))

/-- **ISS along an arbitrary disturbance sequence bounded by `Δ`**: `Q_n ≤ λ^n·Q_0 + Q*`. -/
theorem lkQ_seq {α β Δ : ℝ} (hα : 0 < α) (h2 : 2 * α < β) (hβ : β < 1 / 2) (hD : 0 ≤ lkDisc α β)
    (E s δ : ℕ → ℝ)
    (hE : ∀ n, E (n + 1) = (1 - 2 * α) * E n - (2 - 2 * β) * s n - 2 * δ n)
    (hs : ∀ n, s (n + 1) = 2 * α * E n + (1 - 2 * β) * s n + 2 * δ n)
    (hδ : ∀ n, |δ n| ≤ Δ) (n : ℕ) :
    lkQ α β (E n) (s n) ≤ lkLam α β ^ n * lkQ α β (E 0) (s 0) + lkQstar α β Δ := by
  have hβ0 : 0 < β := by linarith
  have h1β : 0 < 1 - β := by linarith
  have hΔ : 0 ≤ Δ := le_trans (abs_nonneg _) (hδ 0)
  have hlam0 : 0 ≤ lkLam α β := by unfold lkLam; apply div_nonneg <;> linarith
  have hQs : 0 ≤ lkQstar α β Δ := by
    unfold lkQstar; apply div_nonneg
    · positivity
    · apply mul_nonneg <;> linarith
  -- fixed point: λ Q* + 4Δ²/β = Q*
  have hfix : lkLam α β * lkQstar α β Δ + 4 * Δ ^ 2 / β = lkQstar α β Δ := by
    unfold lkLam lkQstar
    have : β - 2 * α ≠ 0 := by linarith
    field_simp
    ring
  induction n with
  | zero =>
    simp only [pow_zero, one_mul]; linarith
  | succ n ih =>
    have hstep := lkQ_iss hα hD (E n) (s n) (E (n + 1)) (s (n + 1)) (δ n) (hE n) (hs n)
    have hu : δ n ^ 2 ≤ Δ ^ 2 := by
      have := hδ n
      rw [← sq_abs (δ n)]
      exact pow_le_pow_left₀ (abs_nonneg _) this 2
    -- divide by β(1-β)
    have hpos : 0 < β * (1 - β) := mul_pos hβ0 h1β
    have h3 : lkQ α β (E (n + 1)) (s (n + 1)) ≤ lkLam α β * lkQ α β (E n) (s n) + 4 * Δ ^ 2 / β := by
      have e : lkLam α β * lkQ α β (E n) (s n) + 4 * Δ ^ 2 / β
          = (β * (1 + 2 * α - 2 * β) * lkQ α β (E n) (s n) + 4 * (1 - β) * Δ ^ 2) / (β * (1 - β)) := by
        unfold lkLam; field_simp
      rw [e, le_div_iff₀ hpos]
      have : 4 * (1 - β) * δ n ^ 2 ≤ 4 * (1 - β) * Δ ^ 2 := by
        apply mul_le_mul_of_nonneg_left hu; linarith
      linarith
    have h4 : lkLam α β * lkQ α β (E n) (s n)
        ≤ lkLam α β * (lkLam α β ^ n * lkQ α β (E 0) (s 0) + lkQstar α β Δ) :=
      mul_le_mul_of_nonneg_left ih hlam0
    calc lkQ α β (E (n + 1)) (s (n + 1))
        ≤ lkLam α β * (lkLam α β ^ n * lkQ α β (E 0) (s 0) + lkQstar α β Δ) + 4 * Δ ^ 2 / β := by linarith
      _ = lkLam α β ^ (n + 1) * lkQ α β (E 0) (s 0) + (lkLam α β * lkQstar α β Δ + 4 * Δ ^ 2 / β) := by ring
      _ = lkLam α β ^ (n + 1) * lkQ α β (E 0) (s 0) + lkQstar α β Δ := by rw [hfix]

end Idsp
