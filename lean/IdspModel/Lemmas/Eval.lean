import IdspModel.Lemmas.Basic
/-! Evaluation lemmas for the monadic model primitives, phrased with plain arithmetic side conditions so that
    `simp (disch := omega)` can run a model function symbolically. -/
namespace Idsp

deriving instance DecidableEq for Except

theorem arithI8_ok {m : Mode} {site : String} {x : Int} (h0 : -128 ≤ x) (h1 : x < 128) :
    arithI m 8 site x = .ok x := by
  apply arithI_ok_of_in; rw [inI_iff]; simp; omega
theorem arithI32_ok {m : Mode} {site : String} {x : Int} (h0 : -2147483648 ≤ x) (h1 : x < 2147483648) :
    arithI m 32 site x = .ok x := by
  apply arithI_ok_of_in; rw [inI_iff]; simp; omega
theorem arithI64_ok {m : Mode} {site : String} {x : Int}
    (h0 : -9223372036854775808 ≤ x) (h1 : x < 9223372036854775808) :
    arithI m 64 site x = .ok x := by
  apply arithI_ok_of_in; rw [inI_iff]; simp; omega
theorem arithU32_ok {m : Mode} {site : String} {x : Int} (h0 : 0 ≤ x) (h1 : x < 4294967296) :
    arithU m 32 site x = .ok x := by
  apply arithU_ok_of_in; rw [inU_iff]; simp; omega
theorem arithU64_ok {m : Mode} {site : String} {x : Int} (h0 : 0 ≤ x) (h1 : x < 18446744073709551616) :
    arithU m 64 site x = .ok x := by
  apply arithU_ok_of_in; rw [inU_iff]; simp; omega
theorem shlI_ok {m : Mode} {w : Nat} {site : String} {x k : Int} (h0 : 0 ≤ k) (h1 : k < w) :
    shlI m w site x k = .ok (wrapI w (x * 2 ^ k.toNat)) := by simp [shlI, h0, h1]
theorem shlU_ok {m : Mode} {w : Nat} {site : String} {x k : Int} (h0 : 0 ≤ k) (h1 : k < w) :
    shlU m w site x k = .ok (wrapU w (x * 2 ^ k.toNat)) := by simp [shlU, h0, h1]
theorem shrC_ok {m : Mode} {w : Nat} {site : String} {x k : Int} (h0 : 0 ≤ k) (h1 : k < w) :
    shrC m w site x k = .ok (x / 2 ^ k.toNat) := by simp [shrC, shr, h0, h1]
theorem wrapI32_id {x : Int} (h0 : -2147483648 ≤ x) (h1 : x < 2147483648) : wrapI 32 x = x := by
  apply wrapI_of_in (by decide); rw [inI_iff]; simp; omega
theorem wrapI64_id {x : Int} (h0 : -9223372036854775808 ≤ x) (h1 : x < 9223372036854775808) :
    wrapI 64 x = x := by
  apply wrapI_of_in (by decide); rw [inI_iff]; simp; omega
@[simp] theorem dbgAssert_true {m : Mode} {site : String} : dbgAssert m site true = .ok () := by
  cases m <;> simp [dbgAssert]
@[simp] theorem dbgAssert_checked_false {site : String} : dbgAssert .checked site false = .error ⟨site⟩ := by
  simp [dbgAssert]
@[simp] theorem bind_ok' {α β} (a : α) (f : α → R β) : (Except.ok a : R α) >>= f = f a := rfl
@[simp] theorem bind_error' {α β} (e : Panic) (f : α → R β) : (Except.error e : R α) >>= f = .error e := rfl

end Idsp
