import IdspModel.Lemmas.FloatModelPidGl
import IdspModel.Lemmas.Quantize
/-!
  `pidBuild` under the rounding model: the six values handed to `quantize`, the integer-kernel accumulation in the
  float type, the Lipschitz property of the fixed-point quantiser, and the exactness extension `FlModelDX`.
-/
namespace Idsp

/-- the five outputs of `pidBuild` as a function of the six values handed to `quantize` (`pidBuild_unfold`) -/
def fpidComb {α γ : Type} (quantize : α → γ) (gzero : γ) (gadd : γ → γ → γ) (gmulInt : Int → γ → γ)
    (G0 G1 G2 L0 L1 L2 : α) : γ × γ × γ × γ × γ :=
  (gadd (gadd (gadd gzero (gmulInt 1 (quantize G0))) (gmulInt 1 (quantize G1))) (gmulInt 1 (quantize G2)),
   gadd (gadd (gadd gzero (gmulInt 0 (quantize G0))) (gmulInt (-1) (quantize G1))) (gmulInt (-2) (quantize G2)),
   gadd (gadd (gadd gzero (gmulInt 0 (quantize G0))) (gmulInt 0 (quantize G1))) (gmulInt 1 (quantize G2)),
   gadd (gadd (gadd gzero (gmulInt 0 (quantize L0))) (gmulInt (-1) (quantize L1))) (gmulInt (-2) (quantize L2)),
   gadd (gadd (gadd gzero (gmulInt 0 (quantize L0))) (gmulInt 0 (quantize L1))) (gmulInt 1 (quantize L2)))

theorem fpidBuild_eq_comb {α γ : Type} (o : FOps α) (quantize : α → γ) (gzero : γ) (gadd : γ → γ → γ)
    (gmulInt : Int → γ → γ) (period : α) (order : Nat) (gain : List α) (limit : List (Option α))
    (g0 l0 g1 l1 g2 l2 : α) (h : pidGl o period order gain limit = [(g0, l0), (g1, l1), (g2, l2)]) :
    pidBuild o quantize gzero gadd gmulInt period order gain limit =
      fpidComb quantize gzero gadd gmulInt
        (o.mul g0 (o.div (o.ofNat 1) (o.add (o.add (o.add (o.ofNat 0) l0) l1) l2)))
        (o.mul g1 (o.div (o.ofNat 1) (o.add (o.add (o.add (o.ofNat 0) l0) l1) l2)))
        (o.mul g2 (o.div (o.ofNat 1) (o.add (o.add (o.add (o.ofNat 0) l0) l1) l2)))
        (o.mul l0 (o.div (o.ofNat 1) (o.add (o.add (o.add (o.ofNat 0) l0) l1) l2)))
        (o.mul l1 (o.div (o.ofNat 1) (o.add (o.add (o.add (o.ofNat 0) l0) l1) l2)))
        (o.mul l2 (o.div (o.ofNat 1) (o.add (o.add (o.add (o.ofNat 0) l0) l1) l2))) := by
  rw [pidBuild_unfold o quantize gzero gadd gmulInt period order gain limit g0 l0 g1 l1 g2 l2 h]
  rfl

namespace FlModelD

variable {u : ℝ} (M : FlModelD u)

/-- from the entries of `pidGl` to the six values handed to `quantize`: `a0i` and the six products -/
theorem rel_build (hu1 : u < 1) {a0 a1 a2 b0 b1 b2 : ℕ} {g0' g1' g2' l0' l1' l2' g0 g1 g2 l0 l1 l2 : ℝ}
    (hg0 : fpidRel u a0 g0' g0) (hg1 : fpidRel u a1 g1' g1) (hg2 : fpidRel u a2 g2' g2)
    (hl0 : fpidRel u b0 l0' l0) (hl1 : fpidRel u b1 l1' l1) (hl2 : fpidRel u b2 l2' l2)
    (p0 : 0 ≤ l0) (p1 : 0 ≤ l1) (p2 : 0 ≤ l2) (K : ℕ)
    (hK : ∀ n ∈ [a0, a1, a2, b0, b1, b2], n + (0 + (max (max (max 0 b0 + 1) b1 + 1) b2 + 1) + 1) + 1 ≤ K) :
    let a' := M.fdiv ((1 : ℕ) : ℝ) (M.fadd (M.fadd (M.fadd ((0 : ℕ) : ℝ) l0') l1') l2')
    let a := ((1 : ℕ) : ℝ) / (((0 : ℕ) : ℝ) + l0 + l1 + l2)
    fpidRel u K (M.fmul g0' a') (g0 * a) ∧ fpidRel u K (M.fmul g1' a') (g1 * a) ∧
    fpidRel u K (M.fmul g2' a') (g2 * a) ∧ fpidRel u K (M.fmul l0' a') (l0 * a) ∧
    fpidRel u K (M.fmul l1' a') (l1 * a) ∧ fpidRel u K (M.fmul l2' a') (l2 * a) := by
  intro a' a
  have ha := M.rel_a0i hu1 hl0 hl1 hl2 p0 p1 p2
  have hu := M.u_nonneg
  simp only [List.mem_cons, List.not_mem_nil, or_false, forall_eq_or_imp, forall_eq] at hK
  obtain ⟨k0, k1, k2, k3, k4, k5⟩ := hK
  exact ⟨(M.rel_fmul hu1 hg0 ha).mono hu hu1 k0, (M.rel_fmul hu1 hg1 ha).mono hu hu1 k1,
    (M.rel_fmul hu1 hg2 ha).mono hu hu1 k2, (M.rel_fmul hu1 hl0 ha).mono hu hu1 k3,
    (M.rel_fmul hu1 hl1 ha).mono hu hu1 k4, (M.rel_fmul hu1 hl2 ha).mono hu hu1 k5⟩

/-- integer-kernel accumulation in the float type: `fl(fl(fl(0 + t0) + t1) + t2)` with `t_i = fl(k_i·G_i')`,
    signs arbitrary: backward-error form, three more roundings on every term -/
theorem sum3_abs (hu1 : u < 1) {n : ℕ} {t0 t1 t2 x0 x1 x2 : ℝ} (h0 : fpidRel u n t0 x0) (h1 : fpidRel u n t1 x1)
    (h2 : fpidRel u n t2 x2) :
    |M.fadd (M.fadd (M.fadd 0 t0) t1) t2 - (0 + x0 + x1 + x2)| ≤ gamD u (n + 3) * (|x0| + |x1| + |x2|) := by
  have hu := M.u_nonneg
  obtain ⟨δ1, d1, e1⟩ := M.add_err 0 t0
  obtain ⟨δ2, d2, e2⟩ := M.add_err (M.fadd 0 t0) t1
  obtain ⟨δ3, d3, e3⟩ := M.add_err (M.fadd (M.fadd 0 t0) t1) t2
  have r0 : fpidRel u (n + 3) (t0 * (1 + δ1) * (1 + δ2) * (1 + δ3)) x0 :=
    ((h0.round hu hu1 d1).round hu hu1 d2).round hu hu1 d3
  have r1 : fpidRel u (n + 3) (t1 * (1 + δ2) * (1 + δ3)) x1 :=
    ((h1.round hu hu1 d2).round hu hu1 d3).mono hu hu1 (by omega)
  have r2 : fpidRel u (n + 3) (t2 * (1 + δ3)) x2 := (h2.round hu hu1 d3).mono hu hu1 (by omega)
  have a0 := r0.abs_sub_le hu hu1
  have a1 := r1.abs_sub_le hu hu1
  have a2 := r2.abs_sub_le hu hu1
  have e : M.fadd (M.fadd (M.fadd 0 t0) t1) t2 - (0 + x0 + x1 + x2) =
      (t0 * (1 + δ1) * (1 + δ2) * (1 + δ3) - x0) + (t1 * (1 + δ2) * (1 + δ3) - x1) + (t2 * (1 + δ3) - x2) := by
    rw [e3, e2, e1]; ring
  rw [e]
  have := (abs_add_le ((t0 * (1 + δ1) * (1 + δ2) * (1 + δ3) - x0) + (t1 * (1 + δ2) * (1 + δ3) - x1))
    (t2 * (1 + δ3) - x2)).trans (add_le_add (abs_add_le _ _) le_rfl)
  nlinarith [this]

end FlModelD

/-! ### the fixed-point quantiser is 1-Lipschitz up to one LSB -/

theorem fpid_satI_lipschitz (w : ℕ) (m n : ℤ) : |satI w m - satI w n| ≤ |m - n| := by
  have h := (quantSat_range w 0)
  have hmn : minI w ≤ maxI w := h.1.trans h.2
  unfold satI
  split_ifs <;> rw [abs_le] <;> constructor <;> (rcases abs_cases (m - n) with ⟨e, _⟩ | ⟨e, _⟩ <;> omega)

theorem fpid_round_lipschitz (a b : ℝ) : |roundHalfAway a - roundHalfAway b| ≤ |a - b| + 1 := by
  have ha := quantRound_err a
  have hb := quantRound_err b
  have e : ((roundHalfAway a - roundHalfAway b : ℤ) : ℝ) =
      (((roundHalfAway a : ℤ) : ℝ) - a) + (a - b) + (b - ((roundHalfAway b : ℤ) : ℝ)) := by
    push_cast; ring
  have h1 : |((roundHalfAway a - roundHalfAway b : ℤ) : ℝ)| ≤ |a - b| + 1 := by
    rw [e]
    have := abs_add_le ((((roundHalfAway a : ℤ) : ℝ) - a) + (a - b)) (b - ((roundHalfAway b : ℤ) : ℝ))
    have h2 := abs_add_le (((roundHalfAway a : ℤ) : ℝ) - a) (a - b)
    have h3 : |b - ((roundHalfAway b : ℤ) : ℝ)| ≤ 1 / 2 := by rw [abs_sub_comm]; exact hb
    linarith
  exact_mod_cast h1

/-- `|quantizeR v' − quantizeR v| ≤ |v' − v|·2^q + 1` (in LSB) -/
theorem fpid_quantizeR_lipschitz (w q : ℕ) (v' v : ℝ) :
    ((|quantizeR w q v' - quantizeR w q v| : ℤ) : ℝ) ≤ |v' - v| * 2 ^ q + 1 := by
  unfold quantizeR
  have h1 := fpid_satI_lipschitz w (roundHalfAway (v' * 2 ^ q)) (roundHalfAway (v * 2 ^ q))
  have h2 := fpid_round_lipschitz (v' * 2 ^ q) (v * 2 ^ q)
  have h1' : ((|satI w (roundHalfAway (v' * 2 ^ q)) - satI w (roundHalfAway (v * 2 ^ q))| : ℤ) : ℝ) ≤
      ((|roundHalfAway (v' * 2 ^ q) - roundHalfAway (v * 2 ^ q)| : ℤ) : ℝ) := by exact_mod_cast h1
  refine h1'.trans ?_
  have e : v' * 2 ^ q - v * 2 ^ q = (v' - v) * 2 ^ q := by ring
  rw [e, abs_mul, abs_of_pos (by positivity : (0 : ℝ) < 2 ^ q)] at h2
  exact_mod_cast h2

/-! ### exactness extension -/

/-- the standard model with division plus the IEEE exactness law on a class `rep` of representable numbers
    containing `0` and `1`: an operation on representable operands whose exact result is representable returns it -/
structure FlModelDX (u : ℝ) extends FlModelD u where
  rep : ℝ → Prop
  rep_zero : rep 0
  rep_one : rep 1
  add_exact : ∀ a b, rep a → rep b → rep (a + b) → fadd a b = a + b
  mul_exact : ∀ a b, rep a → rep b → rep (a * b) → fmul a b = a * b
  div_exact : ∀ a b, rep a → rep b → rep (a / b) → fdiv a b = a / b

/-- exact arithmetic, every real representable -/
noncomputable def FlModelDX.exact (u : ℝ) (hu : 0 ≤ u) : FlModelDX u where
  toFlModelD := FlModelD.exact u hu
  rep _ := True
  rep_zero := trivial
  rep_one := trivial
  add_exact _ _ _ _ _ := rfl
  mul_exact _ _ _ _ _ := rfl
  div_exact _ _ _ _ _ := rfl

/-- a rounding instance: results in `{0, 1}` are returned exactly, everything else is rounded up by `1 + u` -/
noncomputable def FlModelDX.roundOutside01 (u : ℝ) (hu : 0 ≤ u) : FlModelDX u := by
  classical
  exact
  { fadd := fun a b => if a + b = 0 ∨ a + b = 1 then a + b else (a + b) * (1 + u)
    fsub := fun a b => (a - b) * (1 + u)
    fmul := fun a b => if a * b = 0 ∨ a * b = 1 then a * b else (a * b) * (1 + u)
    fdiv := fun a b => if a / b = 0 ∨ a / b = 1 then a / b else (a / b) * (1 + u)
    add_err := fun a b => by
      by_cases h : a + b = 0 ∨ a + b = 1
      · exact ⟨0, by simpa using hu, by simp [h]⟩
      · exact ⟨u, by rw [abs_of_nonneg hu], by simp [h]⟩
    sub_err := fun a b => ⟨u, by rw [abs_of_nonneg hu], rfl⟩
    mul_err := fun a b => by
      by_cases h : a * b = 0 ∨ a * b = 1
      · exact ⟨0, by simpa using hu, by simp only [if_pos h]; ring⟩
      · exact ⟨u, by rw [abs_of_nonneg hu], by simp only [if_neg h]⟩
    div_err := fun a b => by
      by_cases h : a / b = 0 ∨ a / b = 1
      · exact ⟨0, by simpa using hu, by simp only [if_pos h]; ring⟩
      · exact ⟨u, by rw [abs_of_nonneg hu], by simp only [if_neg h]⟩
    rep := fun x => x = 0 ∨ x = 1
    rep_zero := Or.inl rfl
    rep_one := Or.inr rfl
    add_exact := fun a b _ _ h => by simp [h]
    mul_exact := fun a b _ _ h => by simp only [if_pos h]
    div_exact := fun a b _ _ h => by simp only [if_pos h] }

namespace FlModelDX

variable {u : ℝ} (X : FlModelDX u)

theorem a0i_one_of_kernel (l0 l1 l2 : ℝ) (h : (l0 = 1 ∧ l1 = 0 ∧ l2 = 0) ∨ (l0 = 0 ∧ l1 = 1 ∧ l2 = 0) ∨
    (l0 = 0 ∧ l1 = 0 ∧ l2 = 1)) :
    X.fdiv 1 (X.fadd (X.fadd (X.fadd 0 l0) l1) l2) = 1 ∧ X.fmul l0 1 = l0 ∧ X.fmul l1 1 = l1 ∧ X.fmul l2 1 = l2 := by
  have z := X.rep_zero
  have o := X.rep_one
  have a00 : X.fadd 0 0 = 0 := by rw [X.add_exact 0 0 z z (by simpa using z)]; ring
  have a01 : X.fadd 0 1 = 1 := by rw [X.add_exact 0 1 z o (by simpa using o)]; ring
  have a10 : X.fadd 1 0 = 1 := by rw [X.add_exact 1 0 o z (by simpa using o)]; ring
  have d11 : X.fdiv 1 1 = 1 := by rw [X.div_exact 1 1 o o (by simpa using o)]; ring
  have m11 : X.fmul 1 1 = 1 := by rw [X.mul_exact 1 1 o o (by simpa using o)]; ring
  have m01 : X.fmul 0 1 = 0 := by rw [X.mul_exact 0 1 z o (by simpa using z)]; ring
  rcases h with ⟨rfl, rfl, rfl⟩ | ⟨rfl, rfl, rfl⟩ | ⟨rfl, rfl, rfl⟩
  · rw [a01, a10, a10, d11]; exact ⟨rfl, m11, m01, m01⟩
  · rw [a00, a01, a10, d11]; exact ⟨rfl, m01, m11, m01⟩
  · rw [a00, a00, a01, d11]; exact ⟨rfl, m01, m01, m11⟩

end FlModelDX

end Idsp
