import IdspModel.Lemmas.NumBiquad2
import IdspModel.Lemmas.NumMul
import IdspModel.Model.Filter
/-!
# Helper lemmas for `Props/C20c.lean`, fixed-point `Biquad` part

* `c20c_mulVal`: the value of `mul_scaled` on in-range operands;
* `BiquadCfg.Df2tFit`: "every plain `+`/`-` of the DF2T step (`Biquad::update::<2>`) fits the sample type", and the
  two directions `Df2tFit ⇒ .ok` (either profile), `.ok ⇒ Df2tFit` (checked profile);
* `forward_gain()`: the exact `.ok` condition.
-/
namespace Idsp

/-- the value `mul_scaled` returns on in-range operands: `⌊(a·b + ONE/2)/ONE⌋` reduced to `w` bits -/
def c20c_mulVal (w q : Nat) (a b : Int) : Int := wrapI w ((a * b + 2 ^ (q - 1)) / 2 ^ q)

theorem c20c_mulScaled (m : Mode) {w q : Nat} (hq0 : 0 < q) (hq : q < w) {a b : Int}
    (ha : inI w a = true) (hb : inI w b = true) : mulScaled m w q a b = .ok (c20c_mulVal w q a b) :=
  mulScaled_eq m hq0 hq ha hb

theorem c20c_mulVal_in {w q : Nat} (hw : 0 < w) (a b : Int) : inI w (c20c_mulVal w q a b) = true :=
  wrapI_in hw _

theorem c20c_clip_in {w : Nat} {t mn mx : Int} (ht : inI w t = true) (hmn : inI w mn = true)
    (hmx : inI w mx = true) : inI w (clip t mn mx) = true := by
  unfold clip; split
  · exact hmn
  · split
    · exact hmx
    · exact ht

/-- the output of the DF2T step: `clamp(s0 + b0·x0)` -/
def c20c_df2tY (w q : Nat) (c : BiquadCfg) (s0 x0 : Int) : Int :=
  clip (s0 + c20c_mulVal w q c.b0 x0) c.mn c.mx

/-- the two new state words of the DF2T step -/
def c20c_df2tS0 (w q : Nat) (c : BiquadCfg) (s0 s1 x0 : Int) : Int :=
  s1 + c20c_mulVal w q c.b1 x0 - c20c_mulVal w q c.a1 (c20c_df2tY w q c s0 x0)
def c20c_df2tS1 (w q : Nat) (c : BiquadCfg) (s0 x0 : Int) : Int :=
  c.u + c20c_mulVal w q c.b2 x0 - c20c_mulVal w q c.a2 (c20c_df2tY w q c s0 x0)

/-- every plain addition / subtraction of `Biquad::update::<2>` (all on the `w`-bit sample type) fits -/
structure BiquadCfg.Df2tFit (w q : Nat) (c : BiquadCfg) (s0 s1 x0 : Int) : Prop where
  t : inI w (s0 + c20c_mulVal w q c.b0 x0) = true
  r1 : inI w (s1 + c20c_mulVal w q c.b1 x0) = true
  n0 : inI w (c20c_df2tS0 w q c s0 s1 x0) = true
  r2 : inI w (c.u + c20c_mulVal w q c.b2 x0) = true
  n1 : inI w (c20c_df2tS1 w q c s0 x0) = true

/-- either profile: all five sums fit ⇒ the update returns the exact DF2T step -/
theorem c20c_update2_of_fit (m : Mode) {w q : Nat} (hq0 : 0 < q) (hq : q < w) {c : BiquadCfg}
    (hc : c.inRange w) {s0 s1 x0 : Int} (hx0 : inI w x0 = true) (hf : c.Df2tFit w q s0 s1 x0) :
    biquadUpdate2 m w q c (s0, s1) x0 =
      .ok ((c20c_df2tS0 w q c s0 s1 x0, c20c_df2tS1 w q c s0 x0), c20c_df2tY w q c s0 x0) := by
  obtain ⟨hb0, hb1, hb2, ha1, ha2, -, hmn, hmx⟩ := hc
  have hy0 : inI w (c20c_df2tY w q c s0 x0) = true := c20c_clip_in hf.t hmn hmx
  obtain ⟨f1, f2, f3, f4, f5⟩ := hf
  unfold c20c_df2tS0 at f3
  unfold c20c_df2tS1 at f5
  unfold c20c_df2tY at f3 f5 hy0
  unfold biquadUpdate2 c20c_df2tS0 c20c_df2tS1 c20c_df2tY
  simp only
  rw [c20c_mulScaled m hq0 hq hb0 hx0, ok_bind, arithI_ok_of_in f1, ok_bind,
    c20c_mulScaled m hq0 hq hb1 hx0, ok_bind, arithI_ok_of_in f2, ok_bind,
    c20c_mulScaled m hq0 hq ha1 hy0, ok_bind, arithI_ok_of_in f3, ok_bind,
    c20c_mulScaled m hq0 hq hb2 hx0, ok_bind, arithI_ok_of_in f4, ok_bind,
    c20c_mulScaled m hq0 hq ha2 hy0, ok_bind, arithI_ok_of_in f5, ok_bind]

/-- checked profile: the update returns ⇒ all five sums fit -/
theorem c20c_fit_of_update2 {w q : Nat} (hq0 : 0 < q) (hq : q < w) {c : BiquadCfg}
    (hc : c.inRange w) {s0 s1 x0 : Int} (hx0 : inI w x0 = true) {r : (Int × Int) × Int}
    (h : biquadUpdate2 .checked w q c (s0, s1) x0 = .ok r) : c.Df2tFit w q s0 s1 x0 := by
  obtain ⟨hb0, hb1, hb2, ha1, ha2, -, hmn, hmx⟩ := hc
  unfold biquadUpdate2 at h
  simp only at h
  rw [c20c_mulScaled .checked hq0 hq hb0 hx0, ok_bind] at h
  obtain ⟨t, e1, h⟩ := bind_eq_ok h
  obtain ⟨f1, rfl⟩ := arithI_checked_ok e1
  have hy0 : inI w (clip (s0 + c20c_mulVal w q c.b0 x0) c.mn c.mx) = true := c20c_clip_in f1 hmn hmx
  rw [c20c_mulScaled .checked hq0 hq hb1 hx0, ok_bind] at h
  obtain ⟨r1, e2, h⟩ := bind_eq_ok h
  obtain ⟨f2, rfl⟩ := arithI_checked_ok e2
  rw [c20c_mulScaled .checked hq0 hq ha1 hy0, ok_bind] at h
  obtain ⟨n0, e3, h⟩ := bind_eq_ok h
  obtain ⟨f3, rfl⟩ := arithI_checked_ok e3
  rw [c20c_mulScaled .checked hq0 hq hb2 hx0, ok_bind] at h
  obtain ⟨r2, e4, h⟩ := bind_eq_ok h
  obtain ⟨f4, rfl⟩ := arithI_checked_ok e4
  rw [c20c_mulScaled .checked hq0 hq ha2 hy0, ok_bind] at h
  obtain ⟨n1, e5, h⟩ := bind_eq_ok h
  obtain ⟨f5, rfl⟩ := arithI_checked_ok e5
  exact ⟨f1, f2, f3, f4, f5⟩

/-- release profile: `mul_scaled` always returns -/
theorem c20c_mulScaled_release {w : Nat} (hw : 0 < w) (q : Nat) (a b : Int) :
    ∃ v, mulScaled .release w q a b = .ok v := by
  unfold mulScaled
  simp only [arithI_release (show 0 < 2 * w by omega), ok_bind]
  exact ⟨_, rfl⟩

/-- release profile: `Biquad::update::<2>` always returns -/
theorem c20c_update2_release {w : Nat} (hw : 0 < w) (q : Nat) (c : BiquadCfg) (st : Int × Int) (x0 : Int) :
    ∃ v, biquadUpdate2 .release w q c st x0 = .ok v := by
  obtain ⟨s0, s1⟩ := st
  unfold biquadUpdate2 mulScaled
  simp only [arithI_release (show 0 < 2 * w by omega), arithI_release hw, ok_bind]
  exact ⟨_, rfl⟩

/-! ## `forward_gain()` -/

/-- checked profile: `forward_gain()` returns exactly when `b0 + b1` and `b0 + b1 + b2` fit the sample type -/
theorem c20c_forwardGain_iff (w : Nat) (c : BiquadCfg) (g : Int) :
    biquadForwardGain .checked w c = .ok g ↔
      inI w (c.b0 + c.b1) = true ∧ inI w (c.b0 + c.b1 + c.b2) = true ∧ g = c.b0 + c.b1 + c.b2 := by
  unfold biquadForwardGain
  constructor
  · intro h
    obtain ⟨a, e1, h⟩ := bind_eq_ok h
    obtain ⟨h1, rfl⟩ := arithI_checked_ok e1
    obtain ⟨h2, rfl⟩ := arithI_checked_ok h
    exact ⟨h1, h2, rfl⟩
  · rintro ⟨h1, h2, rfl⟩
    rw [arithI_ok_of_in h1, ok_bind, arithI_ok_of_in h2]

/-- either profile: both partial sums fit ⇒ `forward_gain() = b0 + b1 + b2` -/
theorem c20c_forwardGain_of_fit (m : Mode) {w : Nat} {c : BiquadCfg} (h1 : inI w (c.b0 + c.b1) = true)
    (h2 : inI w (c.b0 + c.b1 + c.b2) = true) : biquadForwardGain m w c = .ok (c.b0 + c.b1 + c.b2) := by
  unfold biquadForwardGain
  rw [arithI_ok_of_in h1, ok_bind, arithI_ok_of_in h2]

end Idsp
