import IdspModel.Lemmas.NumCfg
namespace Idsp

/-- the last two steps of a returning run over `pre ++ [xa, xb]` whose outputs end in `[ya, yb]` -/
theorem runR_last_two {σ : Type} {step : σ → Int → R (σ × Int)} {st stf : σ} {pre out ys : List Int}
    {xa xb ya yb : Int} (h : runR step st (pre ++ [xa, xb]) = .ok (stf, out)) (ho : out = ys ++ [ya, yb]) :
    ∃ st0 st1, step st0 xa = .ok (st1, ya) ∧ step st1 xb = .ok (stf, yb) := by
  obtain ⟨st0, ys', ws, _, h2, rfl⟩ := runR_append_ok h
  obtain ⟨st1, ya', ws1, ha, h3, rfl⟩ := runR_cons_ok h2
  obtain ⟨st2, yb', ws2, hb, h4, rfl⟩ := runR_cons_ok h3
  cases h4
  have := List.append_inj_right' ho (by simp)
  simp only [List.cons.injEq, and_true] at this
  obtain ⟨rfl, rfl⟩ := this
  exact ⟨st0, st1, ha, hb⟩

theorem replicate_two_le {L : Nat} (hL : 2 ≤ L) (x : Int) :
    List.replicate L x = List.replicate (L - 2) x ++ [x, x] := by
  obtain ⟨n, rfl⟩ : ∃ n, L = n + 2 := ⟨L - 2, by omega⟩
  rw [show n + 2 - 2 = n by omega, show [x, x] = List.replicate 2 x from rfl, List.replicate_append_replicate]

/-- a returning checked-profile N = 4 / 5 update has aligned limits -/
theorem biquadUpdate4_checked_aligned {w q : Nat} {c : BiquadCfg} {xy : Int × Int × Int × Int} {x0 : Int}
    {r : (Int × Int × Int × Int) × Int} (h : biquadUpdate4 .checked w q c xy x0 = .ok r) : c.aligned w q := by
  obtain ⟨x1, x2, y1, y2⟩ := xy
  unfold biquadUpdate4 at h
  simp only at h
  obtain ⟨s, _, h⟩ := bind_eq_ok h
  obtain ⟨p, hm, _⟩ := bind_eq_ok h
  exact macc_checked_aligned hm

theorem biquadUpdate5_checked_aligned {w q : Nat} {c : BiquadCfg} {xy : Int × Int × Int × Int × Int} {x0 : Int}
    {r : (Int × Int × Int × Int × Int) × Int} (h : biquadUpdate5 .checked w q c xy x0 = .ok r) :
    c.aligned w q := by
  obtain ⟨x1, x2, y1, y2, e1⟩ := xy
  unfold biquadUpdate5 at h
  simp only at h
  obtain ⟨s, _, h⟩ := bind_eq_ok h
  obtain ⟨p, hm, _⟩ := bind_eq_ok h
  exact macc_checked_aligned hm

end Idsp
