use idsp::*;
fn lcg(s: &mut u64) -> u64 { *s = s.wrapping_mul(6364136223846793005).wrapping_add(1442695040888963407); *s >> 11 }
fn main() {
    let mut s = 12345u64; let mut worst_f = 0i64; let mut worst_p = 0f64; let mut bad = 0; let mut cases = 0;
    let ks: Vec<i32> = { let mut v = vec![i32::MAX, i32::MAX-1, 1<<30, (1<<30)+1, 1<<24, 3<<23, 1<<20, (1<<20)+12345, 1<<16, 1<<12, (1<<12)+1, 1<<10]; for _ in 0..40 { let e = 10 + lcg(&mut s) % 21; let k = (1u64 << e) + lcg(&mut s) % (1u64 << e); v.push(k.min(i32::MAX as u64) as i32); } v };
    for &k in &ks { for fi in 0..8 {
        let f0: i32 = match fi { 0 => 0, 1 => -1, 2 => i32::MIN, 3 => i32::MAX, 4 => 1, _ => lcg(&mut s) as i32 };
        let mut p = PLL::default();
        // scramble history
        let hist = lcg(&mut s) % 50;
        for _ in 0..hist { let kk = ((1u64<<8) + lcg(&mut s) % ((1u64<<31) - (1<<8))) as i32; if lcg(&mut s) % 4 == 0 { p.update(None, kk); } else { p.update(Some(lcg(&mut s) as i32), kk); } }
        let n = 64 * ((1u64 << 32) / k as u64) + 64;
        let mut x = lcg(&mut s) as i32;
        for _ in 0..n { x = x.wrapping_add(f0); p.update(Some(x), k); }
        let lim = (1i64 << 31) / k as i64 + 2;
        let mut okc = true;
        for _ in 0..2000 { x = x.wrapping_add(f0); p.update(Some(x), k);
            let ef = (p.frequency().wrapping_sub(f0) as i64).abs(); let ep = (p.phase().wrapping_sub(x) as i64).abs();
            worst_f = worst_f.max(ef); worst_p = worst_p.max(ep as f64 / lim as f64);
            if ef > 1 || ep > lim { okc = false; } }
        cases += 1; if !okc { bad += 1; println!("BAD k={} f0={}", k, f0); }
    }}
    println!("cases {} bad {} worst_f {} worst_p/lim {}", cases, bad, worst_f, worst_p);
}
