import IdspModel.Model.Unwrap
import IdspModel.Lemmas.Basic
/-!
# C17 (extension) — `Unwrapper::wraps` and `Accu` periodicity

`Unwrapper::wraps::<P, S>()` is documented as "the current number of wraps". The theorems here state what
the two-shift formula `(y >> S) + ((y >> (S-1)) & 1)` computes: `y / 2^S` rounded to nearest (ties up), so that
`y = wraps · 2^S + phase` with `phase` the signed `S`-bit residue of `y` — the exact modular decomposition of the
unwrapped value. Property theorems only.
-/
namespace Idsp

/-- the arithmetic core of `wraps`: for `S ≥ 1`, `(y >> S) + ((y >> (S-1)) & 1) = ⌊(y + 2^(S-1)) / 2^S⌋`. -/
theorem wraps_core (s : Nat) (hs : 0 < s) (y : Int) :
    shr y s + (shr y (s - 1)) % 2 = (y + 2 ^ (s - 1)) / 2 ^ s := by
  obtain ⟨t, rfl⟩ : ∃ t, s = t + 1 := ⟨s - 1, by omega⟩
  simp only [shr, Nat.add_sub_cancel]
  have hpos : (0 : Int) < 2 ^ t := Int.pow_pos (by decide)
  have h2 : (2 : Int) ^ (t + 1) = 2 ^ t * 2 := by rw [Int.pow_succ]
  rw [h2, ← Int.ediv_ediv_of_nonneg (by omega : (0 : Int) ≤ 2 ^ t), ← Int.ediv_ediv_of_nonneg (by omega : (0 : Int) ≤ 2 ^ t)]
  have h3 : (y + 2 ^ t) / 2 ^ t = y / 2 ^ t + 1 := by
    rw [Int.add_ediv_of_dvd_right (Int.dvd_refl _), Int.ediv_self (by omega)]
  rw [h3]
  omega

/-- `wraps` at the `P` width: the rounded quotient, reduced to `P` (the only reduction is the final cast). -/
theorem unwrapper_wraps_round (wp s : Nat) (hp : 0 < wp) (hs : 0 < s) (y : Int) :
    unwrapperWraps wp s y = wrapI wp ((y + 2 ^ (s - 1)) / 2 ^ s) := by
  unfold unwrapperWraps
  have hmod : (wrapI wp (shr y (s - 1))) % 2 = (shr y (s - 1)) % 2 := by
    obtain ⟨k, hk⟩ := wrapI_eq_sub wp (shr y (s - 1))
    obtain ⟨t, rfl⟩ : ∃ t, wp = t + 1 := ⟨wp - 1, by omega⟩
    rw [hk, Int.pow_succ]
    have : k * (2 ^ t * 2) = 2 * (k * 2 ^ t) := by
      rw [Int.mul_comm (2 ^ t) 2, ← Int.mul_assoc, Int.mul_comm k 2, Int.mul_assoc]
    rw [this]
    omega
  rw [hmod, wrapI_add_wrapI_left, wraps_core s hs y]

/-- exact decomposition of the unwrapped value: `y = round(y / 2^S) · 2^S + (signed S-bit residue of y)`;
    with `unwrapper_wraps_round` and `unwrapperPhase S y = wrapI S y` this is `y = wraps·2^S + phase`
    whenever the wrap count fits `P`. -/
theorem unwrapper_wraps_phase (s : Nat) (y : Int) :
    (y + 2 ^ (s - 1)) / 2 ^ s * 2 ^ s + unwrapperPhase s y = y := by
  unfold unwrapperPhase wrapI
  have := Int.ediv_mul_add_emod (y + 2 ^ (s - 1)) (2 ^ s)
  omega

/-- the literal reading with the two getters of the code, when the count fits `P`. -/
theorem unwrapper_wraps_phase_getters (wp s : Nat) (hp : 0 < wp) (hs : 0 < s) (y : Int)
    (hfit : inI wp ((y + 2 ^ (s - 1)) / 2 ^ s) = true) :
    unwrapperWraps wp s y * 2 ^ s + unwrapperPhase s y = y := by
  rw [unwrapper_wraps_round wp s hp hs y, wrapI_of_in hp hfit]
  exact unwrapper_wraps_phase s y

/-- the phase getter is bounded: `-2^(S-1) ≤ phase < 2^(S-1)`. -/
theorem unwrapper_phase_in (s : Nat) (hs : 0 < s) (y : Int) : inI s (unwrapperPhase s y) = true :=
  wrapI_in hs y

-- non-vacuity / concrete instances (Unwrapper<i64>, P = i32, S = 32)
example : unwrapperWraps 32 32 (3 * 2 ^ 32 - 5) = 3 := by decide
example : unwrapperWraps 32 32 (-(2 ^ 31)) = 0 := by decide
example : unwrapperWraps 32 32 (2 ^ 31) = 1 := by decide
example : inI 32 ((3 * 2 ^ 32 - 5 + 2 ^ (32 - 1)) / 2 ^ 32) = true := by decide

/-- `Accu` is periodic: item `n + 2^w` equals item `n` (the iterator never ends and never drifts). -/
theorem accu_periodic (w : Nat) (state step : Int) (n : Nat) :
    wrapI w (state + ((n + 2 ^ w : Nat) : Int) * step) = wrapI w (state + (n : Int) * step) := by
  have : state + ((n + 2 ^ w : Nat) : Int) * step = state + (n : Int) * step + step * 2 ^ w := by
    push_cast
    rw [Int.add_mul, Int.mul_comm ((2 : Int) ^ w) step]
    omega
  rw [this, wrapI_add_mul]

end Idsp
