import IdspModel.Model.Cic
import IdspModel.Lemmas.Basic
import Mathlib.Tactic.Ring
/-! # `gain()` and `gain_log2()` of the CIC filter -/
namespace Idsp

/-- if `gain()` does not panic under overflow checks, it is `(rate as T + 1)^N` and everything was in range -/
theorem gain_checked_ok {w : Nat} {s : Cic} {g : Int} (h : s.gain .checked w = .ok g) :
    g = (wrapI w s.rate + 1) ^ s.combs.length ∧ inI w (wrapI w s.rate + 1) = true ∧ inI w g = true := by
  unfold Cic.gain at h
  cases hb : arithI .checked w "cic.rs:91 rate.as_() + T::one()" (wrapI w s.rate + 1) with
  | error e => rw [hb] at h; cases h
  | ok b =>
    rw [hb] at h
    obtain ⟨hin, rfl⟩ := arithI_checked_ok hb
    obtain ⟨hin2, rfl⟩ := arithI_checked_ok h
    exact ⟨rfl, hin, hin2⟩

/-- conversely `gain()` succeeds when base and power fit -/
theorem gain_ok_of_in {m : Mode} {w : Nat} {s : Cic} (h1 : inI w (wrapI w s.rate + 1) = true)
    (h2 : inI w ((wrapI w s.rate + 1) ^ s.combs.length) = true) :
    s.gain m w = .ok ((wrapI w s.rate + 1) ^ s.combs.length) := by
  unfold Cic.gain
  rw [arithI_ok_of_in h1]
  exact arithI_ok_of_in h2

/-- in release mode `gain()` is `(rate+1)^N` reduced modulo `2^w` -/
theorem gain_release {w : Nat} (hw : 0 < w) (s : Cic) :
    ∃ g, s.gain .release w = .ok g ∧ wrapI w g = wrapI w ((s.rate + 1) ^ s.combs.length) := by
  have hmul : ∀ a b : Int, wrapI w (wrapI w a * b) = wrapI w (a * b) := by
    intro a b
    obtain ⟨k, hk⟩ := wrapI_eq_sub w a
    rw [hk, show (a - k * 2 ^ w) * b = a * b + (-(k * b)) * 2 ^ w by ring, wrapI_add_mul]
  have hpow : ∀ (a : Int) (n : Nat), wrapI w ((wrapI w a) ^ n) = wrapI w (a ^ n) := by
    intro a n
    induction n with
    | zero => simp
    | succ n ih =>
      rw [Int.pow_succ, Int.pow_succ, Int.mul_comm, hmul, Int.mul_comm, ← hmul, ih, hmul]
  have hrel : ∀ site x, ∃ y, arithI .release w site x = .ok y ∧ y = wrapI w x := by
    intro site x
    unfold arithI
    by_cases hx : inI w x = true
    · exact ⟨x, by simp [hx], (wrapI_of_in hw hx).symm⟩
    · exact ⟨wrapI w x, by simp [hx], rfl⟩
  unfold Cic.gain
  obtain ⟨b, hb, rfl⟩ := hrel "cic.rs:91 rate.as_() + T::one()" (wrapI w s.rate + 1)
  obtain ⟨g, hg, rfl⟩ := hrel "cic.rs:91 pow(N)" ((wrapI w (wrapI w s.rate + 1)) ^ s.combs.length)
  refine ⟨_, by rw [hb]; exact hg, ?_⟩
  rw [wrapI_wrapI hw, hpow, ← hpow (wrapI w s.rate + 1), wrapI_add_wrapI_left, hpow]

/-- number of significant bits of a `u32` -/
def bitsOf (rate : Nat) : Nat := if rate = 0 then 0 else rate.log2 + 1

theorem gainLog2_eq {s : Cic} {rate : Nat} (hs : s.rate = rate) (hr : rate < 2 ^ 32) :
    s.gainLog2 = ((bitsOf rate * s.combs.length : Nat) : Int) := by
  unfold Cic.gainLog2 clz bitsOf
  rw [hs]
  by_cases h0 : rate = 0
  · subst h0; simp
  · have hl : rate.log2 < 32 := (Nat.log2_lt h0).mpr hr
    have : ¬ ((rate : Int) ≤ 0) := by omega
    simp only [Int.toNat_natCast, this, if_false, h0]
    push_cast
    have : ((32 - rate.log2 - 1 : Nat) : Int) = 32 - rate.log2 - 1 := by omega
    rw [this]; ring

theorem succ_le_two_pow_bitsOf (rate : Nat) : rate + 1 ≤ 2 ^ bitsOf rate := by
  unfold bitsOf
  by_cases h0 : rate = 0
  · subst h0; simp
  · simp only [h0, if_false]
    exact Nat.lt_log2_self

theorem bitsOf_two_pow_sub_one (k : Nat) : bitsOf (2 ^ k - 1) = k := by
  unfold bitsOf
  cases k with
  | zero => simp
  | succ k =>
    have hp : 0 < 2 ^ k := Nat.pow_pos (by decide)
    have e : 2 ^ (k + 1) = 2 * 2 ^ k := by rw [Nat.pow_succ, Nat.mul_comm]
    have h0 : 2 ^ (k + 1) - 1 ≠ 0 := by omega
    simp only [h0, if_false]
    have : (2 ^ (k + 1) - 1).log2 = k := (Nat.log2_eq_iff h0).mpr ⟨by omega, by omega⟩
    rw [this]

end Idsp
