import IdspModel.Lemmas.Atan2Tab00
import IdspModel.Lemmas.Atan2Tab01
import IdspModel.Lemmas.Atan2Tab02
import IdspModel.Lemmas.Atan2Tab03
import IdspModel.Lemmas.Atan2Tab04
import IdspModel.Lemmas.Atan2Tab05
import IdspModel.Lemmas.Atan2Tab06
import IdspModel.Lemmas.Atan2Tab07
/-!
# `atani` on every quotient field `0 … 2^16`: the glued table

`atanQ q` is `atani` (checked mode) at `q·2^15 + 2^14`.  For every `q ≤ 65536` (all that the
clamped `divi` produces) it succeeds (no intermediate
overflow), its value lies in `[0, 2^29 + 2599]` (`< 2^30`), and it is non-decreasing in `q`.  Complete kernel
evaluation in 8 chunks of 8193 points.
-/
namespace Idsp

theorem atanRun_all (k : Nat) (hk : k < 8) : atanRun (8192 * k) 8193 = true := by
  have h : k = 0 ∨ k = 1 ∨ k = 2 ∨ k = 3 ∨ k = 4 ∨ k = 5 ∨ k = 6 ∨ k = 7 := by omega
  rcases h with rfl | rfl | rfl | rfl | rfl | rfl | rfl | rfl
  · exact atanTab0
  · exact atanTab1
  · exact atanTab2
  · exact atanTab3
  · exact atanTab4
  · exact atanTab5
  · exact atanTab6
  · exact atanTab7

/-- two consecutive table entries -/
theorem atanQ_step (q : Nat) (h : q < 65536) :
    ∃ r r' : Int, atanQ q = .ok r ∧ atanQ (q + 1) = .ok r' ∧ 0 ≤ r ∧ r ≤ r' ∧ r' ≤ atanMax := by
  have hk : q / 8192 < 8 := by omega
  have e : 8192 * (q / 8192) + q % 8192 = q := Nat.div_add_mod q 8192
  obtain ⟨r, hr, _, h2⟩ := atanRun_spec (atanRun_all _ hk) (q % 8192) (by omega)
  obtain ⟨r', hr', hle⟩ := h2 (by omega)
  obtain ⟨r'', hr'', hmax, _⟩ := atanRun_spec (atanRun_all _ hk) (q % 8192 + 1) (by omega)
  rw [e] at hr hr'
  rw [← Nat.add_assoc, e] at hr''
  have : (r'' : Int) = (r' : Int) := by
    have := hr''.symm.trans hr'
    exact Except.ok.inj this
  refine ⟨r, r', hr, hr', by omega, by omega, ?_⟩
  unfold atanMax; omega

/-- every table entry exists and is in `[0, atanMax]` -/
theorem atanQ_ok (q : Nat) (h : q ≤ 65536) : ∃ r : Int, atanQ q = .ok r ∧ 0 ≤ r ∧ r ≤ atanMax := by
  rcases Nat.lt_or_ge q 65536 with hlt | hge
  · obtain ⟨r, r', hr, _, h0, hle, hmax⟩ := atanQ_step q hlt
    exact ⟨r, hr, h0, by omega⟩
  · have : q = 65535 + 1 := by omega
    subst this
    obtain ⟨r, r', _, hr', h0, hle, hmax⟩ := atanQ_step 65535 (by omega)
    exact ⟨r', hr', by omega, hmax⟩

/-- the table is non-decreasing -/
theorem atanQ_mono_add : ∀ (d q : Nat), q + d ≤ 65536 → ∀ r r' : Int,
    atanQ q = .ok r → atanQ (q + d) = .ok r' → r ≤ r' := by
  intro d
  induction d with
  | zero =>
    intro q _ r r' hr hr'
    have := Except.ok.inj (hr.symm.trans hr')
    omega
  | succ d ih =>
    intro q hq r r' hr hr'
    obtain ⟨s, s', hs, hs', _, hle, _⟩ := atanQ_step (q + d) (by omega)
    have h1 := ih q (by omega) r s hr hs
    have : s' = r' := Except.ok.inj (hs'.symm.trans hr')
    omega

theorem atanQ_mono {q q' : Nat} (h : q ≤ q') (h' : q' ≤ 65536) {r r' : Int}
    (hr : atanQ q = .ok r) (hr' : atanQ q' = .ok r') : r ≤ r' := by
  obtain ⟨d, rfl⟩ : ∃ d, q' = q + d := ⟨q' - q, by omega⟩
  exact atanQ_mono_add d q h' r r' hr hr'

theorem atanQ_0 : atanQ 0 = .ok 5215 := atanQN_some (by decide +kernel)
theorem atanQ_65536 : atanQ 65536 = .ok 536873511 := atanQN_some (by decide +kernel)

/-- `atani 0 = 0` (the `x ≤ 1` case of `divi`) -/
theorem atani_zero : atani .checked 0 = .ok 0 := ataniN_ok (x := 0) (r := 0) (by decide +kernel)

end Idsp
