import IdspModel.Lemmas.PolarNorm
import IdspModel.Lemmas.CossinSym
import IdspModel.Lemmas.Lockin
/-!
Helper lemmas for C19, part 2: the squared norm of every `cossin` output (lifted from the per-row bound through the
octant un-mapping, which only swaps/negates the two components), and the core output never lies on an axis or on
the diagonal (needed for the exact reflection identities of `atan2`).
-/
namespace Idsp

theorem cossinCoreVal_norm {field : Int} (h0 : 0 ≤ field) (h1 : field < 2 ^ 22) :
    2147376274 * 2 ^ 31 ≤ (cossinCoreVal field).1 * (cossinCoreVal field).1 +
      (cossinCoreVal field).2 * (cossinCoreVal field).2 ∧
    (cossinCoreVal field).1 * (cossinCoreVal field).1 + (cossinCoreVal field).2 * (cossinCoreVal field).2 < 2 ^ 62 := by
  have hi : (field / 2 ^ 15).toNat < 128 := by omega
  have hrow := cossinTable_rows_ok _ hi
  have hrow' := polarTable_rows_ok _ hi
  have hd0 : -12868 ≤ ((field % 2 ^ 15 - 2 ^ 14) * 51471) / 2 ^ 16 := by omega
  have hd1 : ((field % 2 ^ 15 - 2 ^ 14) * 51471) / 2 ^ 16 ≤ 12866 := by omega
  exact polarRow_norm hrow hrow' hd0 hd1

/-- the octant un-mapping preserves the squared norm -/
theorem cossinUnmap_norm (o : Int) (v : Int × Int) :
    (cossinUnmap o v).1 * (cossinUnmap o v).1 + (cossinUnmap o v).2 * (cossinUnmap o v).2 =
      v.1 * v.1 + v.2 * v.2 := by
  unfold cossinUnmap
  (repeat' split) <;> simp only [Int.neg_mul_neg] <;> omega

/-- squared norm of `cossin` for every phase: `2147376274·2^31 ≤ c² + s² < 2^62` -/
theorem cossinVal_norm_tight (p : Int) :
    2147376274 * 2 ^ 31 ≤ (cossinVal p).1 * (cossinVal p).1 + (cossinVal p).2 * (cossinVal p).2 ∧
    (cossinVal p).1 * (cossinVal p).1 + (cossinVal p).2 * (cossinVal p).2 < 2 ^ 62 := by
  have ha := cossinArg_range p
  unfold cossinVal
  rw [cossinUnmap_norm]
  exact cossinCoreVal_norm ha.1 ha.2

/-! ## the core output is never on an axis or on the diagonal -/

/-- per-row test (row index `i`, word `l`): for every row but the first the sine output at the most negative
    interpolation offset is positive; for every row but the last the cosine output at the most positive offset
    exceeds the sine output there -/
def polarRowOff (i : Nat) (l : Int) : Bool :=
  (decide (i = 0) || decide (0 < (l / 2 ^ 16) * 2 ^ 15 + ((l % 2 ^ 16 + 2 ^ 16) * (-12868)) / 2 ^ 8)) &&
  (decide (i = 127) || decide ((l / 2 ^ 16) * 2 ^ 15 + ((l % 2 ^ 16 + 2 ^ 16) * 12866) / 2 ^ 8 <
    (l % 2 ^ 16 + 2 ^ 16) * 2 ^ 14 - (l / 2 ^ 16 * 12866) / 2 ^ 7))

theorem polarTable_rows_off : ∀ i : Nat, i < 128 → polarRowOff i (cossinTable.getD i 0) = true := by
  decide +kernel

theorem polarTable_row0 : cossinTable.getD 0 0 = 13238269 := by decide +kernel
theorem polarTable_row127 : cossinTable.getD 127 0 = 3027659556 := by decide +kernel

/-- the core output `(a, b)`: `a > 0`, `b ≠ 0`, `a ≠ b` for all `2^22` fields.  (`b < 0` does occur, for the five
    lowest fields; `b > a` does occur, for 18 fields of the last row.) -/
theorem cossinCoreVal_off {field : Int} (h0 : 0 ≤ field) (h1 : field < 2 ^ 22) :
    0 < (cossinCoreVal field).1 ∧ (cossinCoreVal field).2 ≠ 0 ∧ (cossinCoreVal field).1 ≠ (cossinCoreVal field).2 := by
  have hb := cossinCoreVal_bounds h0 h1
  have hi : (field / 2 ^ 15).toNat < 128 := by omega
  have hrow := cossinTable_rows_ok _ hi
  have hoff := polarTable_rows_off _ hi
  have hd0 : -12868 ≤ ((field % 2 ^ 15 - 2 ^ 14) * 51471) / 2 ^ 16 := by omega
  have hd1 : ((field % 2 ^ 15 - 2 ^ 14) * 51471) / 2 ^ 16 ≤ 12866 := by omega
  refine ⟨by omega, ?_, ?_⟩
  · -- b ≠ 0
    unfold cossinCoreVal
    simp only
    generalize hd : ((field % 2 ^ 15 - 2 ^ 14) * 51471) / 2 ^ 16 = d at hd0 hd1
    by_cases hz : (field / 2 ^ 15).toNat = 0
    · rw [hz, polarTable_row0]
      omega
    · simp only [polarRowOff, hz, decide_false, Bool.false_or, Bool.and_eq_true, decide_eq_true_eq] at hoff
      generalize cossinTable.getD (field / 2 ^ 15).toNat 0 = l at hoff hrow
      have hl := cossinRow_bounds hrow hd0 hd1
      have hc : 0 ≤ l % 2 ^ 16 + 2 ^ 16 := by omega
      have := cossin_mul_ediv_mono (a := l % 2 ^ 16 + 2 ^ 16) (2 ^ 8) hc (by decide) hd0
      omega
  · -- a ≠ b
    unfold cossinCoreVal
    simp only
    generalize hd : ((field % 2 ^ 15 - 2 ^ 14) * 51471) / 2 ^ 16 = d at hd0 hd1
    by_cases hz : (field / 2 ^ 15).toNat = 127
    · rw [hz, polarTable_row127]
      omega
    · simp only [polarRowOff, hz, decide_false, Bool.false_or, Bool.and_eq_true, decide_eq_true_eq] at hoff
      generalize cossinTable.getD (field / 2 ^ 15).toNat 0 = l at hoff hrow
      have hl := cossinRow_bounds hrow hd0 hd1
      have hs : 0 ≤ l / 2 ^ 16 := by omega
      have hc : 0 ≤ l % 2 ^ 16 + 2 ^ 16 := by omega
      have := cossin_mul_ediv_mono (a := l % 2 ^ 16 + 2 ^ 16) (2 ^ 8) hc (by decide) hd1
      have := cossin_mul_ediv_mono (a := l / 2 ^ 16) (2 ^ 7) hs (by decide) hd1
      omega

/-- every `cossin` output is off both axes and off both diagonals -/
theorem cossinVal_off (p : Int) :
    (cossinVal p).1 ≠ 0 ∧ (cossinVal p).2 ≠ 0 ∧ (cossinVal p).1 ≠ (cossinVal p).2 ∧
      (cossinVal p).1 ≠ -(cossinVal p).2 := by
  have ha := cossinArg_range p
  obtain ⟨a0, b0, ab⟩ := cossinCoreVal_off ha.1 ha.2
  obtain ⟨c0, _, s0, _⟩ := cossinCoreVal_bounds ha.1 ha.2
  unfold cossinVal
  generalize cossinCoreVal _ = v at *
  rcases cossinOct_cases p with h | h | h | h | h | h | h | h <;> rw [h] <;> simp [cossinUnmap] <;> omega

end Idsp
