import IdspModel.Lemmas.RpllSched
/-! Kernel evaluations for the two RPLL witnesses (`decide +kernel` on closed terms; no `native_decide`). -/
namespace Idsp

/-! ### Witness A (finding F-C07-a): `dt2 = 8, P = 990, first edge at 351, sf = 23, sp = 22` -/

def rpllCfgA : RpllCfg := ⟨8, 990, 351, 23, 22⟩

/-- The state of the real code (and of the model, by `#eval`; not by kernel evaluation) after the first
    `1572864 = 2^(23−8+5) + 2^(22−8+5)` updates of `rpllCfgA` started from `RPLL::new(8)`.
    Only the orbit property below is used in proofs. -/
def rpllStar : RPLL := ⟨8, 402652161, 1110613570, 1110617805, -1036855023⟩

/-- phase error between −69402800 and −69402780 units of 2^-32 turns (≈ −0.016159 turns) -/
def rpllGoodA (e _f : Int) : Bool := decide (-69402800 ≤ e ∧ e ≤ -69402780)

set_option maxRecDepth 100000 in
/-- one orbit: 1980 updates starting with update number 1572864 bring `rpllStar` back to itself, 506880 ticks
    (512 reference periods) later, and after every one of them the phase error is ≈ −0.016159 turns -/
theorem rpllStar_orbit (m : Mode) :
    rpllCfgA.chk m rpllGoodA 1572864 1980 rpllStar = some (rpllStar.shiftX (2 ^ rpllCfgA.d * (1980 : Nat))) := by
  cases m <;> decide +kernel

/-! ### Witness B (finding F-C07-b): `dt2 = 2, P = 6, first edge at 1, sf = 3, sp = 2` -/

def rpllCfgB : RpllCfg := ⟨2, 6, 1, 3, 2⟩

/-- BOTH tolerances of the property are violated: phase error > 1e-3 turns and relative frequency error > 1e-5 -/
def rpllGoodB (e f : Int) : Bool :=
  decide (2 ^ 32 < 1000 * (e.natAbs : Int) ∧ 2 ^ 34 < 100000 * ((f * 6 - 2 ^ 34).natAbs : Int))

/-- state before update 96 = 2^(3−2+5) + 2^(2−2+5) -/
def rpllB96 : RPLL := ⟨2, 379, 2863311530, 475643312, -1072333697⟩
/-- state before update 315 -/
def rpllB315 : RPLL := ⟨2, 1255, 2863311530, 477218592, -1073741828⟩

set_option maxRecDepth 100000 in
theorem rpllB_reach (m : Mode) : rpllCfgB.run m 0 96 (RPLL.new 2) = .ok rpllB96 := by
  cases m <;> decide +kernel

set_option maxRecDepth 100000 in
theorem rpllB_transient (m : Mode) : rpllCfgB.chk m rpllGoodB 96 219 rpllB96 = some rpllB315 := by
  cases m <;> decide +kernel

set_option maxRecDepth 100000 in
theorem rpllB_orbit (m : Mode) :
    rpllCfgB.chk m rpllGoodB 315 6 rpllB315 = some (rpllB315.shiftX (2 ^ rpllCfgB.d * (6 : Nat))) := by
  cases m <;> decide +kernel

end Idsp
