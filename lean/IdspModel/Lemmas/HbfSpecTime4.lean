import IdspModel.Lemmas.HbfSpecTime
/-! Impulse response of the MODEL decimating cascade of depth 3 over `ℚ`, all 8 input phases (kernel computation). -/
namespace Idsp

theorem hbfDecImpulseOK_3 : ∀ p < 8, hbfDecImpulseOK 3 p := by decide +kernel

end Idsp
