import IdspModel.Props.C05
import IdspModel.Lemmas.Quantize
import IdspModel.Lemmas.QuantizeFl
/-!
# C05 (quantisation clause) — "quantising a real number gives the nearest coefficient"

Code (`src/num.rs`, `impl_int!(T, U, A, Q)`, `C = f32` or `f64`):

    fn quantize<C>(value: C) -> Self { (value * (1 << Q).as_()).round().as_() }

Specification on the reals (`IdspModel/Lemmas/Quantize.lean`):
* `roundHalfAway x = ⌊x + 1/2⌋` for `x ≥ 0`, `−⌊−x + 1/2⌋` for `x < 0` (`f32/f64::round`: ties away from zero);
* `quantizeR w q v = satI w (roundHalfAway (v · 2^q))` (`satI w` of `Rust.lean` = the saturating float → `iW` cast,
  `minI w = −2^(w−1)`, `maxI w = 2^(w−1) − 1`).
The four instances are `(w, q) = (8,6), (16,14), (32,30), (64,62)`; everything below is proved for ALL `w`, `q` and all
real `v`.  "The rounded value fits" is `inI w (roundHalfAway (v·2^q)) = true`; `quant_fits_of_range` derives it from
a bound on `v·2^q`.

Sections 1–6 are pure real/integer arithmetic.  Section 7 links the floating point evaluation to `quantizeR` under the
explicit rounding-model hypothesis `QuantFl u` (`Lemmas/QuantizeFl.lean`: `FlModelX u` plus "`round` is exact on finite
floats"); the executable transcription `quantizeInt w q` over Lean's `Float` (`DriverF.lean`) is tied to the real code
by differential testing, not by these theorems.
Property theorems only (helper lemmas live in `IdspModel/Lemmas/Quantize*.lean`).
-/
namespace Idsp

/-! ## 0. When does the rounded value fit? -/

/-- **Fit criterion.**  If `v·2^q` lies in `(MIN − 1/2, MAX + 1/2)` (in particular if `MIN ≤ v·2^q ≤ MAX`) the rounded
    value fits the `w`-bit type, so `quantizeR` does not saturate and equals `roundHalfAway (v·2^q)`. -/
theorem quant_fits_of_range (w q : ℕ) (v : ℝ) (hlo : ((minI w : ℤ) : ℝ) - 1 / 2 < v * 2 ^ q)
    (hhi : v * 2 ^ q < ((maxI w : ℤ) : ℝ) + 1 / 2) :
    inI w (roundHalfAway (v * 2 ^ q)) = true ∧ quantizeR w q v = roundHalfAway (v * 2 ^ q) := by
  have h : inI w (roundHalfAway (v * 2 ^ q)) = true :=
    (quant_inI_iff w _).mpr ⟨quantRound_ge_of_half_lt hlo, quantRound_le_of_lt_half hhi⟩
  exact ⟨h, quantizeR_of_fit h⟩

/-- `i8`, `q = 6`, `v = 0.7`: `44.8` is inside `(−128.5, 127.5)` -/
example : inI 8 (roundHalfAway ((7 / 10 : ℝ) * 2 ^ 6)) = true ∧
    quantizeR 8 6 (7 / 10) = roundHalfAway ((7 / 10 : ℝ) * 2 ^ 6) :=
  quant_fits_of_range 8 6 (7 / 10) (by norm_num [minI]) (by norm_num [maxI])

/-! ## 1. Nearest coefficient -/

/-- **Quantisation returns the nearest coefficient.**  When the rounded value fits `w` bits, the result is within
    one half of `v·2^q`, and NO integer `n` (hence no representable coefficient) is closer to `v·2^q`. -/
theorem quant_nearest (w q : ℕ) (v : ℝ) (hfit : inI w (roundHalfAway (v * 2 ^ q)) = true) :
    |((quantizeR w q v : ℤ) : ℝ) - v * 2 ^ q| ≤ 1 / 2 ∧
    ∀ n : ℤ, |((quantizeR w q v : ℤ) : ℝ) - v * 2 ^ q| ≤ |(n : ℝ) - v * 2 ^ q| := by
  rw [quantizeR_of_fit hfit]
  exact ⟨quantRound_err _, quantRound_nearest _⟩

/-- **The nearest coefficient is unique off the ties.**  An in-range integer `n` STRICTLY within one half of `v·2^q`
    is the result. -/
theorem quant_nearest_unique (w q : ℕ) (v : ℝ) (n : ℤ) (hn : inI w n = true)
    (h : |(n : ℝ) - v * 2 ^ q| < 1 / 2) : quantizeR w q v = n := by
  unfold quantizeR
  rw [quantRound_eq_of_abs_lt h, quantSat_of_inI hn]

/-- **Ties go away from zero.**  If `v·2^q = m + 1/2` for an integer `m` (both `m` and `m + 1` are nearest) and the
    rounded value fits, the result is `m + 1` for `m ≥ 0` and `m` for `m < 0`: the candidate of larger magnitude,
    `|result| = |v·2^q| + 1/2`. -/
theorem quant_ties_away (w q : ℕ) (v : ℝ) (m : ℤ) (htie : v * 2 ^ q = (m : ℝ) + 1 / 2)
    (hfit : inI w (roundHalfAway (v * 2 ^ q)) = true) :
    quantizeR w q v = (if 0 ≤ m then m + 1 else m) ∧
    |((quantizeR w q v : ℤ) : ℝ)| = |v * 2 ^ q| + 1 / 2 := by
  rw [quantizeR_of_fit hfit, htie]
  exact ⟨quantRound_tie m, quantRound_tie_abs m⟩

/-- `i8`: `0.7·64 = 44.8 ↦ 45` -/
example : quantizeR 8 6 (7 / 10) = 45 :=
  quant_nearest_unique 8 6 (7 / 10) 45 (by decide) (by norm_num [abs_lt])

/-- the hypothesis of `quant_nearest` at `i8`, `v = 0.7` -/
example : inI 8 (roundHalfAway ((7 / 10 : ℝ) * 2 ^ 6)) = true := by
  rw [quantRound_eq_of_abs_lt (n := 45) (by norm_num [abs_lt])]; decide

/-- ties at `i8`: `2.5/64 ↦ 3` and `−2.5/64 ↦ −3` (hypotheses of `quant_ties_away` with `m = 2`, `m = −3`) -/
example : quantizeR 8 6 (5 / 128) = 3 ∧ quantizeR 8 6 (-(5 / 128)) = -3 := by
  have e1 : (5 / 128 : ℝ) * 2 ^ 6 = ((2 : ℤ) : ℝ) + 1 / 2 := by norm_num
  have e2 : (-(5 / 128) : ℝ) * 2 ^ 6 = ((-3 : ℤ) : ℝ) + 1 / 2 := by norm_num
  have f1 : inI 8 (roundHalfAway ((5 / 128 : ℝ) * 2 ^ 6)) = true := by rw [e1, quantRound_tie]; decide
  have f2 : inI 8 (roundHalfAway ((-(5 / 128) : ℝ) * 2 ^ 6)) = true := by rw [e2, quantRound_tie]; decide
  exact ⟨(quant_ties_away 8 6 _ 2 e1 f1).1, (quant_ties_away 8 6 _ (-3) e2 f2).1⟩

/-! ## 2. Saturation -/

/-- **Saturation.**  The result always lies in the type's range; at or above `MAX` (indeed anywhere strictly above
    `MAX − 1/2`) it is `MAX`; at or below `MIN` (indeed anywhere up to and including `MIN + 1/2`, a tie that goes
    away from zero) it is `MIN`. -/
theorem quant_saturates (w q : ℕ) (v : ℝ) :
    inI w (quantizeR w q v) = true ∧
    (((maxI w : ℤ) : ℝ) ≤ v * 2 ^ q → quantizeR w q v = maxI w) ∧
    (v * 2 ^ q ≤ ((minI w : ℤ) : ℝ) → quantizeR w q v = minI w) ∧
    (((maxI w : ℤ) : ℝ) - 1 / 2 < v * 2 ^ q → quantizeR w q v = maxI w) ∧
    (v * 2 ^ q ≤ ((minI w : ℤ) : ℝ) + 1 / 2 → quantizeR w q v = minI w) := by
  have hmax : ((maxI w : ℤ) : ℝ) - 1 / 2 < v * 2 ^ q → quantizeR w q v = maxI w :=
    fun h => quantSat_of_ge (quantRound_ge_of_half_lt h)
  have hmin : v * 2 ^ q ≤ ((minI w : ℤ) : ℝ) + 1 / 2 → quantizeR w q v = minI w := by
    intro h
    apply quantSat_of_le
    have h1 := quantRound_mono h
    have hneg : ¬ (0 ≤ minI w) := by
      have := quant_two_pow_pos (w - 1); unfold minI; omega
    rwa [quantRound_tie, if_neg hneg] at h1
  exact ⟨quantSat_inI w _, fun h => hmax (by linarith), fun h => hmin (by linarith), hmax, hmin⟩

/-- **Nearest element of the type's range, always.**  For every real `v` (saturating or not) and every integer `n` in
    `[−2^(w−1), 2^(w−1) − 1]`, the result is at least as close to `v·2^q` as `n` is. -/
theorem quant_saturates_nearest (w q : ℕ) (v : ℝ) (n : ℤ) (hn : inI w n = true) :
    |((quantizeR w q v : ℤ) : ℝ) - v * 2 ^ q| ≤ |(n : ℝ) - v * 2 ^ q| :=
  quantSat_nearest w _ n hn

/-- `i8`: `+2.0` (not representable) saturates to `127`, `−3.5` to `−128` -/
example : quantizeR 8 6 2 = 127 ∧ quantizeR 8 6 (-7 / 2) = -128 :=
  ⟨(quant_saturates 8 6 2).2.1 (by norm_num [maxI]), (quant_saturates 8 6 (-7 / 2)).2.2.1 (by norm_num [minI])⟩

/-! ## 3. Monotonicity -/

/-- **Quantisation is monotone** (for all reals, saturation included). -/
theorem quant_monotone (w q : ℕ) (v v' : ℝ) (h : v ≤ v') : quantizeR w q v ≤ quantizeR w q v' :=
  quantizeR_mono w q h

example : quantizeR 16 14 (1 / 3) ≤ quantizeR 16 14 (1 / 2) := quant_monotone 16 14 _ _ (by norm_num)

/-! ## 4. Coefficients are fixed points -/

/-- **Exact on coefficients.**  Every representable coefficient `k / 2^q` (`k` in the range of the type) quantises
    to `k`: `quantize` is a left inverse of "coefficient value". -/
theorem quant_exact_on_coefficients (w q : ℕ) (k : ℤ) (hk : inI w k = true) :
    quantizeR w q ((k : ℝ) / 2 ^ q) = k :=
  quantizeR_coeff w q k hk

/-- **The constants**, for any type with two guard bits (`w = q + 2`): `quantize(1.0) = ONE = 2^q`,
    `quantize(−1.0) = NEG_ONE = −2^q`, `quantize(−2.0) = −2·2^q = MIN` exactly, whereas `quantize(+2.0)` saturates to
    `MAX = 2·2^q − 1`. -/
theorem quant_constants (w q : ℕ) (hq : q + 2 = w) :
    quantizeR w q 1 = 2 ^ q ∧ quantizeR w q (-1) = -(2 ^ q) ∧ quantizeR w q (-2) = -2 * 2 ^ q ∧
    -2 * (2 : ℤ) ^ q = minI w ∧ quantizeR w q 2 = maxI w ∧ maxI w = 2 * 2 ^ q - 1 := by
  have hw : w - 1 = q + 1 := by omega
  have hP := quant_two_pow_pos q
  have h1 : (2 : ℤ) ^ (q + 1) = 2 ^ q * 2 := pow_succ ..
  have hp : (0 : ℝ) < 2 ^ q := by positivity
  have hmin : -2 * (2 : ℤ) ^ q = minI w := by unfold minI; rw [hw, h1]; omega
  have hmax : maxI w = 2 * 2 ^ q - 1 := by unfold maxI; rw [hw, h1]; omega
  have hin : ∀ k : ℤ, -2 * 2 ^ q ≤ k → k ≤ 2 * 2 ^ q - 1 → inI w k = true := by
    intro k a b; rw [quant_inI_iff]; omega
  have e1 : (1 : ℝ) = (((2 : ℤ) ^ q : ℤ) : ℝ) / 2 ^ q := by push_cast; field_simp
  have e2 : (-1 : ℝ) = ((-(2 : ℤ) ^ q : ℤ) : ℝ) / 2 ^ q := by push_cast; field_simp
  have e3 : (-2 : ℝ) = ((-2 * (2 : ℤ) ^ q : ℤ) : ℝ) / 2 ^ q := by push_cast; field_simp
  refine ⟨?_, ?_, ?_, hmin, ?_, hmax⟩
  · rw [e1]; exact quantizeR_coeff w q _ (hin _ (by omega) (by omega))
  · rw [e2]; exact quantizeR_coeff w q _ (hin _ (by omega) (by omega))
  · rw [e3]; exact quantizeR_coeff w q _ (hin _ (by omega) (by omega))
  · apply (quant_saturates w q 2).2.1
    rw [hmax]; push_cast; linarith

/-- **The constants of the four instances**: `ONE`, `NEG_ONE` and `−2 ↦ MIN` for `i8/i16/i32/i64`. -/
theorem quant_constants_instances :
    (quantizeR 8 6 1 = 64 ∧ quantizeR 8 6 (-1) = -64 ∧ quantizeR 8 6 (-2) = -128 ∧ minI 8 = -128) ∧
    (quantizeR 16 14 1 = 16384 ∧ quantizeR 16 14 (-1) = -16384 ∧ quantizeR 16 14 (-2) = -32768 ∧
      minI 16 = -32768) ∧
    (quantizeR 32 30 1 = 1073741824 ∧ quantizeR 32 30 (-1) = -1073741824 ∧ quantizeR 32 30 (-2) = -2147483648 ∧
      minI 32 = -2147483648) ∧
    (quantizeR 64 62 1 = 4611686018427387904 ∧ quantizeR 64 62 (-1) = -4611686018427387904 ∧
      quantizeR 64 62 (-2) = -9223372036854775808 ∧ minI 64 = -9223372036854775808) := by
  obtain ⟨a1, a2, a3, -⟩ := quant_constants 8 6 rfl
  obtain ⟨b1, b2, b3, -⟩ := quant_constants 16 14 rfl
  obtain ⟨c1, c2, c3, -⟩ := quant_constants 32 30 rfl
  obtain ⟨d1, d2, d3, -⟩ := quant_constants 64 62 rfl
  refine ⟨⟨?_, ?_, ?_, by decide⟩, ⟨?_, ?_, ?_, by decide⟩, ⟨?_, ?_, ?_, by decide⟩, ⟨?_, ?_, ?_, by decide⟩⟩
  all_goals first
    | (rw [a1]; norm_num) | (rw [a2]; norm_num) | (rw [a3]; norm_num)
    | (rw [b1]; norm_num) | (rw [b2]; norm_num) | (rw [b3]; norm_num)
    | (rw [c1]; norm_num) | (rw [c2]; norm_num) | (rw [c3]; norm_num)
    | (rw [d1]; norm_num) | (rw [d2]; norm_num) | (rw [d3]; norm_num)

/-- `i16`: the coefficient `−12345 / 2^14` quantises to `−12345` -/
example : quantizeR 16 14 (((-12345 : ℤ) : ℝ) / 2 ^ 14) = -12345 :=
  quant_exact_on_coefficients 16 14 (-12345) (by decide)

/-! ## 5. Symmetry -/

/-- **Rounding is odd**: `round(−x) = −round(x)` for every real `x` (no bias towards either sign). -/
theorem quant_odd (x : ℝ) : roundHalfAway (-x) = -roundHalfAway x := quantRound_neg x

/-- **Quantisation is odd when neither side saturates**: if the rounded value `r` of `v·2^q` and its negation both
    fit (i.e. `r ≠ MIN` and `r` fits), `quantize(−v) = −quantize(v)`.  In general
    `quantize(−v) = sat(−round(v·2^q))`. -/
theorem quant_odd_quantize (w q : ℕ) (v : ℝ) :
    quantizeR w q (-v) = satI w (-roundHalfAway (v * 2 ^ q)) ∧
    (inI w (roundHalfAway (v * 2 ^ q)) = true → inI w (-roundHalfAway (v * 2 ^ q)) = true →
      quantizeR w q (-v) = -quantizeR w q v) := by
  refine ⟨quantizeR_neg_eq w q v, fun h1 h2 => ?_⟩
  rw [quantizeR_neg_eq, quantSat_of_inI h2, quantizeR_of_fit h1]

/-- `i8`, `v = 0.7`: both `45` and `−45` fit, `quantize(−0.7) = −45` -/
example : quantizeR 8 6 (-(7 / 10)) = -quantizeR 8 6 (7 / 10) := by
  have e : roundHalfAway ((7 / 10 : ℝ) * 2 ^ 6) = 45 := quantRound_eq_of_abs_lt (by norm_num [abs_lt])
  exact (quant_odd_quantize 8 6 (7 / 10)).2 (by rw [e]; decide) (by rw [e]; decide)

/-- the guard is needed: the range is asymmetric, `quantize(−2.0) = −128` but `quantize(2.0) = 127` at `i8` -/
example : quantizeR 8 6 (-2) = -128 ∧ quantizeR 8 6 2 = 127 ∧ quantizeR 8 6 (-2) ≠ -quantizeR 8 6 2 := by
  obtain ⟨-, -, h3, -, h5, -⟩ := quant_constants 8 6 rfl
  have a : quantizeR 8 6 (-2) = -128 := by rw [h3]; norm_num
  have b : quantizeR 8 6 2 = 127 := by rw [h5]; decide
  exact ⟨a, b, by rw [a, b]; decide⟩

/-! ## 6. Error of the coefficient value -/

/-- **Half an LSB.**  When the rounded value fits, the coefficient VALUE `quantize(v) / 2^q` differs from `v` by at
    most `2^−(q+1)` (`= 1 / 2^(q+1)`). -/
theorem quant_scale_error (w q : ℕ) (v : ℝ) (hfit : inI w (roundHalfAway (v * 2 ^ q)) = true) :
    |((quantizeR w q v : ℤ) : ℝ) / 2 ^ q - v| ≤ (2 : ℝ) ^ (-((q : ℤ) + 1)) ∧
    (2 : ℝ) ^ (-((q : ℤ) + 1)) = 1 / 2 ^ (q + 1) := by
  rw [quantizeR_of_fit hfit, quant_zpow_neg]
  exact ⟨quantRound_scale_err q v, rfl⟩

/-- `i32`, `v = 1/3` (rounded value `357913941` fits): the coefficient is within `2^-31` of `1/3` -/
example : |((quantizeR 32 30 (1 / 3) : ℤ) : ℝ) / 2 ^ 30 - 1 / 3| ≤ (2 : ℝ) ^ (-((30 : ℕ) : ℤ) - 1) := by
  have e : roundHalfAway ((1 / 3 : ℝ) * 2 ^ 30) = 357913941 := quantRound_eq_of_abs_lt (by norm_num [abs_lt])
  have := (quant_scale_error 32 30 (1 / 3) (by rw [e]; decide)).1
  rwa [neg_add'] at this

/-! ## 7. The floating point evaluation -/

/-- **The float pipeline computes `quantizeR`.**  Under the rounding model `QuantFl u` (`FlModelX u` + exact `round`):
    for a finite float `v`, with `2^q` a finite float (`q ≤ 127` in binary32) and the product `v·2^q` a finite float
    (power-of-two scaling without overflow/underflow; this is the IEEE exactness law `mul_exact`), the code's
    `cast(round(fl(v × 2^q)))` equals `quantizeR w q v`: in particular `round(fl(v·2^q)) = roundHalfAway (v·2^q)`. -/
theorem quant_float_eq {u : ℝ} (M : QuantFl u) (w q : ℕ) (v : ℝ) (hv : M.rep v) (h2 : M.rep (2 ^ q))
    (hp : M.rep (v * 2 ^ q)) :
    M.fround (M.fmul v (2 ^ q)) = ((roundHalfAway (v * 2 ^ q) : ℤ) : ℝ) ∧ quantizeFl M w q v = quantizeR w q v := by
  refine ⟨?_, quantizeFl_eq_aux M w q v hv h2 hp⟩
  rw [M.mul_exact v (2 ^ q) hv h2 hp, M.round_exact _ hp]

/-- hence every theorem above transfers to the float pipeline, e.g. nearest-in-range -/
theorem quant_float_nearest {u : ℝ} (M : QuantFl u) (w q : ℕ) (v : ℝ) (hv : M.rep v) (h2 : M.rep (2 ^ q))
    (hp : M.rep (v * 2 ^ q)) (n : ℤ) (hn : inI w n = true) :
    |((quantizeFl M w q v : ℤ) : ℝ) - v * 2 ^ q| ≤ |(n : ℝ) - v * 2 ^ q| := by
  rw [(quant_float_eq M w q v hv h2 hp).2]
  exact quant_saturates_nearest w q v n hn

/-- non-vacuity in a genuinely rounding model (exact on the grid of multiples of `2^-10`, relative error `2^-24`
    elsewhere): `v = 717/1024`, `2^6` and `v·2^6 = 45888/1024` are on the grid, and the pipeline returns `45` -/
example : quantizeFl (QuantFl.roundOutside (2 ^ (-24 : ℤ)) (by positivity) quantGrid quantGrid_zero quantGrid_one
    quantGrid_neg) 8 6 (717 / 1024) = 45 := by
  have hv : quantGrid (717 / 1024) := ⟨717, by norm_num⟩
  have h2 : quantGrid (2 ^ 6) := ⟨65536, by norm_num⟩
  have hp : quantGrid (717 / 1024 * 2 ^ 6) := ⟨45888, by norm_num⟩
  rw [(quant_float_eq (QuantFl.roundOutside (2 ^ (-24 : ℤ)) (by positivity) quantGrid quantGrid_zero quantGrid_one
    quantGrid_neg) 8 6 (717 / 1024) hv h2 hp).2]
  exact quant_nearest_unique 8 6 _ 45 (by decide) (by norm_num [abs_lt])

end Idsp
