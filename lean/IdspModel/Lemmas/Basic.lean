import IdspModel.Rust
/-! Basic facts about `wrapI`, `wrapU`, `inI`, `arithI` used by all property files. Core Lean only. -/
namespace Idsp

theorem two_pow_pos (n : Nat) : (0 : Int) < 2 ^ n := Int.pow_pos (by decide)

theorem two_pow_succ_pred {w : Nat} (hw : 0 < w) : (2 : Int) ^ w = 2 * 2 ^ (w - 1) := by
  obtain ⟨k, rfl⟩ : ∃ k, w = k + 1 := ⟨w - 1, by omega⟩
  simp [Int.pow_succ, Int.mul_comm]

theorem two_pow_mono {a b : Nat} (h : a ≤ b) : (2 : Int) ^ a ≤ 2 ^ b := by
  have := Nat.pow_le_pow_right (by decide : 2 > 0) h
  exact_mod_cast this

theorem inI_iff {w : Nat} {x : Int} : inI w x = true ↔ -(2 ^ (w - 1)) ≤ x ∧ x < 2 ^ (w - 1) := by
  simp [inI]

theorem inU_iff {w : Nat} {x : Int} : inU w x = true ↔ 0 ≤ x ∧ x < 2 ^ w := by
  simp [inU]

theorem inI_mono {wp wq : Nat} (h : wp ≤ wq) {z : Int} (hz : inI wp z = true) : inI wq z = true := by
  have := inI_iff.mp hz
  have hm : (2 : Int) ^ (wp - 1) ≤ 2 ^ (wq - 1) := two_pow_mono (by omega)
  rw [inI_iff]; omega

theorem wrapI_of_in {w : Nat} (hw : 0 < w) {z : Int} (h : inI w z = true) : wrapI w z = z := by
  have h2 := two_pow_succ_pred hw
  have ⟨h0, h1⟩ := inI_iff.mp h
  unfold wrapI
  rw [Int.emod_eq_of_lt (by omega) (by omega)]
  omega

theorem wrapI_add_mul (w : Nat) (z k : Int) : wrapI w (z + k * 2 ^ w) = wrapI w z := by
  unfold wrapI
  rw [show z + k * 2 ^ w + 2 ^ (w - 1) = z + 2 ^ (w - 1) + k * 2 ^ w by omega, Int.add_mul_emod_self_right]

theorem wrapI_in {w : Nat} (hw : 0 < w) (z : Int) : inI w (wrapI w z) = true := by
  have h2 := two_pow_succ_pred hw
  have hp := two_pow_pos (w - 1)
  have hp' := two_pow_pos w
  have a := Int.emod_nonneg (z + 2 ^ (w - 1)) (Int.ne_of_gt hp')
  have b := Int.emod_lt_of_pos (z + 2 ^ (w - 1)) hp'
  rw [inI_iff]; unfold wrapI; omega

/-- `wrapI w z` differs from `z` by a multiple of `2^w` -/
theorem wrapI_eq_sub (w : Nat) (z : Int) : ∃ k : Int, wrapI w z = z - k * 2 ^ w := by
  refine ⟨(z + 2 ^ (w - 1)) / 2 ^ w, ?_⟩
  unfold wrapI
  have := Int.emod_add_mul_ediv (z + 2 ^ (w - 1)) (2 ^ w)
  have hc : 2 ^ w * ((z + 2 ^ (w - 1)) / 2 ^ w) = (z + 2 ^ (w - 1)) / 2 ^ w * 2 ^ w := Int.mul_comm _ _
  omega

theorem wrapI_wrapI {w : Nat} (hw : 0 < w) (z : Int) : wrapI w (wrapI w z) = wrapI w z :=
  wrapI_of_in hw (wrapI_in hw z)

/-- wrapping is a ring homomorphism onto `ℤ/2^w`: addition -/
theorem wrapI_add_wrapI_left (w : Nat) (a b : Int) : wrapI w (wrapI w a + b) = wrapI w (a + b) := by
  obtain ⟨k, hk⟩ := wrapI_eq_sub w a
  rw [hk, show a - k * 2 ^ w + b = a + b + (-k) * 2 ^ w by rw [Int.neg_mul]; omega, wrapI_add_mul]

theorem wrapI_add_wrapI_right (w : Nat) (a b : Int) : wrapI w (a + wrapI w b) = wrapI w (a + b) := by
  rw [Int.add_comm, wrapI_add_wrapI_left, Int.add_comm]

theorem wrapI_sub_wrapI_left (w : Nat) (a b : Int) : wrapI w (wrapI w a - b) = wrapI w (a - b) := by
  rw [Int.sub_eq_add_neg, wrapI_add_wrapI_left, ← Int.sub_eq_add_neg]

theorem wrapI_sub_wrapI_right (w : Nat) (a b : Int) : wrapI w (a - wrapI w b) = wrapI w (a - b) := by
  obtain ⟨k, hk⟩ := wrapI_eq_sub w b
  rw [hk, show a - (b - k * 2 ^ w) = a - b + k * 2 ^ w by omega, wrapI_add_mul]

/-- the three-way case split used for sums/differences of two in-range values -/
theorem wrapI_cases {w : Nat} (hw : 0 < w) {z : Int}
    (h : -(2 ^ w) ≤ z + 2 ^ (w - 1) ∧ z + 2 ^ (w - 1) < 2 * 2 ^ w) :
    (inI w z = true ∧ wrapI w z = z) ∨
    (2 ^ (w - 1) ≤ z ∧ wrapI w z = z - 2 ^ w) ∨
    (z < -(2 ^ (w - 1)) ∧ wrapI w z = z + 2 ^ w) := by
  have h2 := two_pow_succ_pred hw
  have hp := two_pow_pos (w - 1)
  by_cases h1 : z < -(2 ^ (w - 1))
  · right; right; refine ⟨h1, ?_⟩
    have := wrapI_add_mul w z 1
    rw [Int.one_mul] at this
    rw [← this]; apply wrapI_of_in hw; rw [inI_iff]; omega
  · by_cases h3 : 2 ^ (w - 1) ≤ z
    · right; left; refine ⟨h3, ?_⟩
      have := wrapI_add_mul w z (-1)
      rw [show z + -1 * 2 ^ w = z - 2 ^ w by omega] at this
      rw [← this]; apply wrapI_of_in hw; rw [inI_iff]; omega
    · left
      have : inI w z = true := by rw [inI_iff]; omega
      exact ⟨this, wrapI_of_in hw this⟩

theorem arithI_ok_of_in {m : Mode} {w : Nat} {site : String} {x : Int} (h : inI w x = true) :
    arithI m w site x = .ok x := by simp [arithI, h]

theorem arithI_checked_ok {w : Nat} {site : String} {x y : Int}
    (h : arithI .checked w site x = .ok y) : inI w x = true ∧ y = x := by
  unfold arithI at h
  split at h
  · next hin => exact ⟨hin, by cases h; rfl⟩
  · cases h

theorem arithU_ok_of_in {m : Mode} {w : Nat} {site : String} {x : Int} (h : inU w x = true) :
    arithU m w site x = .ok x := by simp [arithU, h]

end Idsp
