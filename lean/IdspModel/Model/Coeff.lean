/-! Model of `src/iir/coefficients.rs` (`Filter<T>` builders), `Biquad::from(&[[C;3];2])` and `PidBuilder::build`
    (`src/iir/pid.rs`) over an abstract scalar type `α` with a record of operations.  Instantiated at Lean `Float`
    in the driver (tolerance comparison with the crate's f64) and at `ℝ` in the theorems.  IEEE rounding and libm
    are NOT modelled. -/
namespace Idsp

structure FOps (α : Type) where
  add : α → α → α
  sub : α → α → α
  mul : α → α → α
  div : α → α → α
  neg : α → α
  ofNat : Nat → α
  half : α            -- 0.5
  ln2 : α
  sqrt : α → α
  sin : α → α
  cos : α → α
  sinh : α → α

inductive Shape (α : Type) where
  | q (v : α)
  | bandwidth (v : α)
  | slope (v : α)

structure FilterCfg (α : Type) where
  frequency : α     -- angular critical frequency w0
  gain : α
  shelf : α
  shape : Shape α

section
variable {α : Type} (o : FOps α)
local infixl:65 " +. " => o.add
local infixl:65 " -. " => o.sub
local infixl:70 " *. " => o.mul
local infixl:70 " /. " => o.div

/-- inverse Q -/
def FilterCfg.qi (f : FilterCfg α) : α :=
  match f.shape with
  | .q v => o.ofNat 1 /. v
  | .bandwidth bw =>
    o.ofNat 2 *. o.sinh (o.ln2 /. o.ofNat 2 *. bw *. f.frequency /. o.sin f.frequency)
  | .slope s =>
    -- shelf amplitude A = sqrt(shelf) (since the `fix:` commit; it used the pass-band gain)
    let a := o.sqrt f.shelf
    o.sqrt ((a +. o.ofNat 1 /. a) *. (o.ofNat 1 /. s -. o.ofNat 1) +. o.ofNat 2)

/-- `(cos w0, alpha = sin w0 / 2 * qi)` -/
def FilterCfg.fcosAlpha (f : FilterCfg α) : α × α :=
  (o.cos f.frequency, o.half *. o.sin f.frequency *. f.qi o)

abbrev BA (α : Type) := (α × α × α) × (α × α × α)

def FilterCfg.lowpass (f : FilterCfg α) : BA α :=
  let (fcos, alpha) := f.fcosAlpha o
  let b := f.gain *. o.half *. (o.ofNat 1 -. fcos)
  ((b, o.ofNat 2 *. b, b), (o.ofNat 1 +. alpha, o.neg (o.ofNat 2) *. fcos, o.ofNat 1 -. alpha))

def FilterCfg.highpass (f : FilterCfg α) : BA α :=
  let (fcos, alpha) := f.fcosAlpha o
  let b := f.gain *. o.half *. (o.ofNat 1 +. fcos)
  ((b, o.neg (o.ofNat 2) *. b, b), (o.ofNat 1 +. alpha, o.neg (o.ofNat 2) *. fcos, o.ofNat 1 -. alpha))

def FilterCfg.bandpass (f : FilterCfg α) : BA α :=
  let (fcos, alpha) := f.fcosAlpha o
  let b := f.gain *. alpha
  ((b, o.ofNat 0, o.neg b), (o.ofNat 1 +. alpha, o.neg (o.ofNat 2) *. fcos, o.ofNat 1 -. alpha))

def FilterCfg.notch (f : FilterCfg α) : BA α :=
  let (fcos, alpha) := f.fcosAlpha o
  let f2 := o.neg (o.ofNat 2) *. fcos
  ((f.gain, f2 *. f.gain, f.gain), (o.ofNat 1 +. alpha, f2, o.ofNat 1 -. alpha))

def FilterCfg.allpass (f : FilterCfg α) : BA α :=
  let (fcos, alpha) := f.fcosAlpha o
  let f2 := o.neg (o.ofNat 2) *. fcos
  (((o.ofNat 1 -. alpha) *. f.gain, f2 *. f.gain, (o.ofNat 1 +. alpha) *. f.gain),
   (o.ofNat 1 +. alpha, f2, o.ofNat 1 -. alpha))

def FilterCfg.peaking (f : FilterCfg α) : BA α :=
  let (fcos, alpha) := f.fcosAlpha o
  let s := o.sqrt f.shelf
  let f2 := o.neg (o.ofNat 2) *. fcos
  (((o.ofNat 1 +. alpha *. s) *. f.gain, f2 *. f.gain, (o.ofNat 1 -. alpha *. s) *. f.gain),
   (o.ofNat 1 +. alpha /. s, f2, o.ofNat 1 -. alpha /. s))

def FilterCfg.lowshelf (f : FilterCfg α) : BA α :=
  let (fcos, alpha) := f.fcosAlpha o
  let s := o.sqrt f.shelf
  let tsa := o.ofNat 2 *. o.sqrt s *. alpha
  let sp1 := s +. o.ofNat 1
  let sm1 := s -. o.ofNat 1
  ((s *. f.gain *. (sp1 -. sm1 *. fcos +. tsa),
    o.ofNat 2 *. s *. f.gain *. (sm1 -. sp1 *. fcos),
    s *. f.gain *. (sp1 -. sm1 *. fcos -. tsa)),
   (sp1 +. sm1 *. fcos +. tsa, o.neg (o.ofNat 2) *. (sm1 +. sp1 *. fcos), sp1 +. sm1 *. fcos -. tsa))

def FilterCfg.highshelf (f : FilterCfg α) : BA α :=
  let (fcos, alpha) := f.fcosAlpha o
  let s := o.sqrt f.shelf
  let tsa := o.ofNat 2 *. o.sqrt s *. alpha
  let sp1 := s +. o.ofNat 1
  let sm1 := s -. o.ofNat 1
  ((s *. f.gain *. (sp1 +. sm1 *. fcos +. tsa),
    o.neg (o.ofNat 2) *. s *. f.gain *. (sm1 +. sp1 *. fcos),
    s *. f.gain *. (sp1 +. sm1 *. fcos -. tsa)),
   (sp1 -. sm1 *. fcos +. tsa, o.ofNat 2 *. (sm1 -. sp1 *. fcos), sp1 -. sm1 *. fcos -. tsa))

def FilterCfg.iho (f : FilterCfg α) : BA α :=
  let (fcos, alpha) := f.fcosAlpha o
  let fsin := o.half *. o.sin f.frequency
  let a := (o.ofNat 1 +. fcos) /. (o.ofNat 2 *. f.shelf)
  ((f.gain *. (o.ofNat 1 +. alpha), o.neg (o.ofNat 2) *. f.gain *. fcos, f.gain *. (o.ofNat 1 -. alpha)),
   (a +. fsin, o.neg (o.ofNat 2) *. a, a -. fsin))

/-- filter type index as in the harness: 0 lowpass, 1 highpass, 2 bandpass, 3 allpass, 4 notch, 5 peaking,
    6 lowshelf, 7 highshelf, 8 iho -/
def FilterCfg.build (f : FilterCfg α) (typ : Nat) : BA α :=
  match typ with
  | 0 => f.lowpass o | 1 => f.highpass o | 2 => f.bandpass o | 3 => f.allpass o | 4 => f.notch o
  | 5 => f.peaking o | 6 => f.lowshelf o | 7 => f.highshelf o | _ => f.iho o

/-- `Biquad::<T>::from(&ba)`: multiply by `1/a0`, then `quantize` each of `b0 b1 b2 a1 a2` -/
def biquadFromBa {γ : Type} (quantize : α → γ) (ba : BA α) : γ × γ × γ × γ × γ :=
  let ((b0, b1, b2), (a0, a1, a2)) := ba
  let ia0 := o.ofNat 1 /. a0
  (quantize (b0 *. ia0), quantize (b1 *. ia0), quantize (b2 *. ia0), quantize (a1 *. ia0), quantize (a2 *. ia0))

/-! ### PidBuilder::build -/

/-- the three relevant (gain·z, limit-normalised) pairs, lowest order action first.
    `order`: 2 = P, 1 = I, 0 = I2; `gain`, `limit`: five entries `[I2, I, P, D, D2]`; a limit `none` is `+∞`
    (then `g/∞ = 0`). Index 2 (the P action) has `l = 1`. -/
def pidGl (period : α) (order : Nat) (gain : List α) (limit : List (Option α)) : List (α × α) :=
  -- z for slot 2 is period^(-order), slot 1: that * period, slot 0: that * period^2
  let pw : Nat → α := fun n => (List.replicate n period).foldl (fun acc p => acc *. p) (o.ofNat 1)
  let z2 := o.ofNat 1 /. pw order
  let z1 := z2 *. period
  let z0 := z1 *. period
  [z0, z1, z2].zipIdx.map fun (z, j) =>
    let i := order + j
    let g := gain.getD i (o.ofNat 0) *. z
    let l := if i = 2 then o.ofNat 1 else
      match limit.getD i none with
      | some lim => g /. lim
      | none => o.ofNat 0
    (g, l)

/-- `PidBuilder::<T>::build::<C>()` with `C` modelled by `γ` with plain `add`/`mulInt` (kernel entries are the
    integers 0, ±1, −2) and `quantize : α → γ`. Returns `[b0, b1, b2, a1, a2]`. -/
def pidBuild {γ : Type} (quantize : α → γ) (gzero : γ) (gadd : γ → γ → γ) (gmulInt : Int → γ → γ)
    (period : α) (order : Nat) (gain : List α) (limit : List (Option α)) : γ × γ × γ × γ × γ :=
  let gl := pidGl o period order gain limit
  let lsum := gl.foldl (fun acc p => acc +. p.2) (o.ofNat 0)
  let a0i := o.ofNat 1 /. lsum
  let kernels : List (Int × Int × Int) := [(1, 0, 0), (1, -1, 0), (1, -2, 1)]
  let acc := (gl.zip kernels).foldl (fun (acc : (γ × γ) × (γ × γ) × (γ × γ)) (p : (α × α) × (Int × Int × Int)) =>
      let ((gg, ll), (k0, k1, k2)) := p
      let g := quantize (gg *. a0i)
      let l := quantize (ll *. a0i)
      let ((b0, a0), (b1, a1), (b2, a2)) := acc
      ((gadd b0 (gmulInt k0 g), gadd a0 (gmulInt k0 l)),
       (gadd b1 (gmulInt k1 g), gadd a1 (gmulInt k1 l)),
       (gadd b2 (gmulInt k2 g), gadd a2 (gmulInt k2 l))))
    ((gzero, gzero), (gzero, gzero), (gzero, gzero))
  let ((b0, _), (b1, a1), (b2, a2)) := acc
  (b0, b1, b2, a1, a2)

end
end Idsp
