import IdspModel.Lemmas.HbfSpecCheck
import IdspModel.Lemmas.HbfSpecDefs
import Mathlib.Analysis.SpecialFunctions.Trigonometric.Bounds
import Mathlib.Analysis.SpecialFunctions.Pow.Real
import Mathlib.Tactic.IntervalCases
/-!
Instantiation of the bound checker (`Lemmas/HbfSpecCheck.lean`) at the tap sets `HBF_TAPS`:
the stage lists of the depth-`d` cascades, `hbfCascadeGain d f = cascAmp (hbfStages d) (π f / 2^(d-1))`, rational
enclosures of the band-edge cosines `cos(0.6π/2^k)`, `cos(0.4π/2^k)` (from `cos(π/5) = (1+√5)/4` and the half-angle
formula), and the wrappers turning a successful run of `bisectAbs` / `bisectPos` into a stop-band / pass-band bound.
-/
namespace Idsp
namespace HbfSpec
open Finset Real

/-- split signed numerators into (positive part, negative part) -/
def sp (l : List ℤ) : List (ℕ × ℕ) := l.map fun t => (t.toNat, (-t).toNat)

/-- checker input for the depth-`d` cascade: highest-rate stage first -/
def hbfStages : ℕ → List (ℕ × List (ℕ × ℕ))
  | 0 => []
  | 1 => [(hbfTapsE0, sp hbfTapsN0)]
  | 2 => [(hbfTapsE1, sp hbfTapsN1), (hbfTapsE0, sp hbfTapsN0)]
  | 3 => [(hbfTapsE2, sp hbfTapsN2), (hbfTapsE1, sp hbfTapsN1), (hbfTapsE0, sp hbfTapsN0)]
  | _ => [(hbfTapsE3, sp hbfTapsN3), (hbfTapsE2, sp hbfTapsN2), (hbfTapsE1, sp hbfTapsN1), (hbfTapsE0, sp hbfTapsN0)]

theorem amp0 (θ : ℝ) : ampN hbfTapsE0 (sp hbfTapsN0) θ = hbfAmp hbfTapsQ0 θ := by
  simp [hbfAmp, hbfTapsQ0, Finset.sum_range_succ, ampN, cosSum, sp, hbfTapsN0, hbfTapsE0]
  norm_num
  ring
theorem amp1 (θ : ℝ) : ampN hbfTapsE1 (sp hbfTapsN1) θ = hbfAmp hbfTapsQ1 θ := by
  simp [hbfAmp, hbfTapsQ1, Finset.sum_range_succ, ampN, cosSum, sp, hbfTapsN1, hbfTapsE1]
  norm_num
  ring
theorem amp2 (θ : ℝ) : ampN hbfTapsE2 (sp hbfTapsN2) θ = hbfAmp hbfTapsQ2 θ := by
  simp [hbfAmp, hbfTapsQ2, Finset.sum_range_succ, ampN, cosSum, sp, hbfTapsN2, hbfTapsE2]
  norm_num
  ring
theorem amp3 (θ : ℝ) : ampN hbfTapsE3 (sp hbfTapsN3) θ = hbfAmp hbfTapsQ3 θ := by
  simp [hbfAmp, hbfTapsQ3, Finset.sum_range_succ, ampN, cosSum, sp, hbfTapsN3, hbfTapsE3]
  norm_num
  ring

theorem gain_eq_cascAmp (d : ℕ) (h1 : 1 ≤ d) (h4 : d ≤ 4) (f : ℝ) :
    hbfCascadeGain d f = cascAmp (hbfStages d) (π * f / 2 ^ (d - 1)) := by
  have e1 : π * f / 2 ^ 0 = 2 * (π * f / 2 ^ 1) := by ring
  have e2 : π * f / 2 ^ 1 = 2 * (π * f / 2 ^ 2) := by ring
  have e3 : π * f / 2 ^ 2 = 2 * (π * f / 2 ^ 3) := by ring
  interval_cases d
  · simp only [hbfCascadeGain, Finset.prod_range_succ, Finset.prod_range_zero, hbfStages, cascAmp, hbfTapsQ,
      amp0]
    ring_nf
  · simp only [hbfCascadeGain, Finset.prod_range_succ, Finset.prod_range_zero, hbfStages, cascAmp, hbfTapsQ,
      amp0, amp1, Nat.add_one_sub_one, ← e1]
    ring
  · simp only [hbfCascadeGain, Finset.prod_range_succ, Finset.prod_range_zero, hbfStages, cascAmp, hbfTapsQ,
      amp0, amp1, amp2, Nat.add_one_sub_one, ← e1, ← e2]
    ring
  · simp only [hbfCascadeGain, Finset.prod_range_succ, Finset.prod_range_zero, hbfStages, cascAmp, hbfTapsQ,
      amp0, amp1, amp2, amp3, Nat.add_one_sub_one, ← e1, ← e2, ← e3]
    ring

/-! ### band edges -/

theorem cos_two_pi_div_five : cos (2 * (π / 5)) = (√5 - 1) / 4 := by
  rw [cos_two_mul, cos_pi_div_five]
  have h : √5 ^ 2 = 5 := sq_sqrt (by norm_num)
  nlinarith [h]

theorem sqrt5_bounds : (2.236067977496 : ℝ) < √5 ∧ √5 < (2.236067977504 : ℝ) := by
  constructor
  · rw [lt_sqrt (by norm_num)]; norm_num
  · rw [sqrt_lt' (by norm_num)]; norm_num

theorem cos_half_le {θ u v : ℝ} (hu : cos θ ≤ u) (hv : 0 ≤ v) (h : (1 + u) / 2 ≤ v ^ 2) : cos (θ / 2) ≤ v := by
  have hs : cos (θ / 2) ^ 2 = 1 / 2 + cos θ / 2 := by
    have := cos_sq (θ / 2)
    rwa [show 2 * (θ / 2) = θ by ring] at this
  have : cos (θ / 2) ^ 2 ≤ v ^ 2 := by rw [hs]; linarith
  exact le_trans (le_abs_self _) (abs_le_of_sq_le_sq this hv)

theorem le_cos_half {θ l w : ℝ} (hl : l ≤ cos θ) (hw : 0 ≤ w) (h : w ^ 2 ≤ (1 + l) / 2)
    (h1 : -π ≤ θ) (h2 : θ ≤ π) : w ≤ cos (θ / 2) := by
  have hs : cos (θ / 2) ^ 2 = 1 / 2 + cos θ / 2 := by
    have := cos_sq (θ / 2)
    rwa [show 2 * (θ / 2) = θ by ring] at this
  have hc : 0 ≤ cos (θ / 2) := cos_nonneg_of_mem_Icc ⟨by linarith, by linarith⟩
  have : w ^ 2 ≤ cos (θ / 2) ^ 2 := by rw [hs]; linarith
  exact (pow_le_pow_iff_left₀ hw hc (by norm_num)).mp this

/-- stop-band edge `0.6` of the low rate as seen by the highest-rate stage of a depth-`k+1` cascade:
    rational upper bounds of `cos(0.6π/2^k)` -/
theorem stop_edge :
    cos (π * (3 / 5) / 2 ^ 0) ≤ (-0.309016994374 : ℝ) ∧ cos (π * (3 / 5) / 2 ^ 1) ≤ (0.587785252293 : ℝ) ∧
    cos (π * (3 / 5) / 2 ^ 2) ≤ (0.891006524189 : ℝ) ∧ cos (π * (3 / 5) / 2 ^ 3) ≤ (0.972369920398 : ℝ) := by
  have b0 : cos (π * (3 / 5) / 2 ^ 0) ≤ (-0.309016994374 : ℝ) := by
    have e : π * (3 / 5) / 2 ^ 0 = π - 2 * (π / 5) := by ring
    rw [e, cos_pi_sub, cos_two_pi_div_five]
    have := sqrt5_bounds.1
    linarith
  have b1 : cos (π * (3 / 5) / 2 ^ 1) ≤ (0.587785252293 : ℝ) := by
    have e : π * (3 / 5) / 2 ^ 1 = (π * (3 / 5) / 2 ^ 0) / 2 := by ring
    rw [e]; exact cos_half_le b0 (by norm_num) (by norm_num)
  have b2 : cos (π * (3 / 5) / 2 ^ 2) ≤ (0.891006524189 : ℝ) := by
    have e : π * (3 / 5) / 2 ^ 2 = (π * (3 / 5) / 2 ^ 1) / 2 := by ring
    rw [e]; exact cos_half_le b1 (by norm_num) (by norm_num)
  have b3 : cos (π * (3 / 5) / 2 ^ 3) ≤ (0.972369920398 : ℝ) := by
    have e : π * (3 / 5) / 2 ^ 3 = (π * (3 / 5) / 2 ^ 2) / 2 := by ring
    rw [e]; exact cos_half_le b2 (by norm_num) (by norm_num)
  exact ⟨b0, b1, b2, b3⟩

/-- pass-band edge `0.4` of the low rate: rational lower bounds of `cos(0.4π/2^k)` -/
theorem pass_edge :
    (0.309016994374 : ℝ) ≤ cos (π * (2 / 5) / 2 ^ 0) ∧ (0.809016994374 : ℝ) ≤ cos (π * (2 / 5) / 2 ^ 1) ∧
    (0.951056516294 : ℝ) ≤ cos (π * (2 / 5) / 2 ^ 2) ∧ (0.987688340594 : ℝ) ≤ cos (π * (2 / 5) / 2 ^ 3) := by
  have hpi := pi_pos
  have b0 : (0.309016994374 : ℝ) ≤ cos (π * (2 / 5) / 2 ^ 0) := by
    have e : π * (2 / 5) / 2 ^ 0 = 2 * (π / 5) := by ring
    rw [e, cos_two_pi_div_five]
    have := sqrt5_bounds.1
    linarith
  have b1 : (0.809016994374 : ℝ) ≤ cos (π * (2 / 5) / 2 ^ 1) := by
    have e : π * (2 / 5) / 2 ^ 1 = (π * (2 / 5) / 2 ^ 0) / 2 := by ring
    rw [e]; exact le_cos_half b0 (by norm_num) (by norm_num) (by norm_num; nlinarith) (by norm_num; nlinarith)
  have b2 : (0.951056516294 : ℝ) ≤ cos (π * (2 / 5) / 2 ^ 2) := by
    have e : π * (2 / 5) / 2 ^ 2 = (π * (2 / 5) / 2 ^ 1) / 2 := by ring
    rw [e]; exact le_cos_half b1 (by norm_num) (by norm_num) (by norm_num; nlinarith) (by norm_num; nlinarith)
  have b3 : (0.987688340594 : ℝ) ≤ cos (π * (2 / 5) / 2 ^ 3) := by
    have e : π * (2 / 5) / 2 ^ 3 = (π * (2 / 5) / 2 ^ 2) / 2 := by ring
    rw [e]; exact le_cos_half b2 (by norm_num) (by norm_num) (by norm_num; nlinarith) (by norm_num; nlinarith)
  exact ⟨b0, b1, b2, b3⟩

/-- every stop-band frequency lies in the cell `[-2^24, hi]/2^24` of the highest-rate stage's cosine -/
theorem stop_cell (k : ℕ) (u : ℝ) (hi : ℤ) (hu : cos (π * (3 / 5) / 2 ^ k) ≤ u) (hhi : 2 ^ 24 * u ≤ hi)
    (f : ℝ) (hf1 : 3 / 5 ≤ f) (hf2 : f ≤ 2 ^ k) :
    ((-(2 ^ 24) : ℤ) : ℝ) ≤ 2 ^ 24 * cos (π * f / 2 ^ k) ∧ 2 ^ 24 * cos (π * f / 2 ^ k) ≤ hi := by
  have hpi := pi_pos
  have hp : (0:ℝ) < 2 ^ k := by positivity
  constructor
  · have := neg_one_le_cos (π * f / 2 ^ k)
    push_cast; nlinarith
  · have h0 : 0 ≤ π * (3 / 5) / 2 ^ k := by positivity
    have h1 : π * f / 2 ^ k ≤ π := by
      rw [div_le_iff₀ hp]; exact mul_le_mul_of_nonneg_left hf2 hpi.le
    have h2 : π * (3 / 5) / 2 ^ k ≤ π * f / 2 ^ k :=
      div_le_div_of_nonneg_right (mul_le_mul_of_nonneg_left hf1 hpi.le) hp.le
    have := cos_le_cos_of_nonneg_of_le_pi h0 h1 h2
    nlinarith

/-- every pass-band frequency lies in the cell `[lo, 2^24]/2^24` -/
theorem pass_cell (k : ℕ) (l : ℝ) (lo : ℤ) (hl : l ≤ cos (π * (2 / 5) / 2 ^ k)) (hlo : (lo : ℝ) ≤ 2 ^ 24 * l)
    (f : ℝ) (hf1 : 0 ≤ f) (hf2 : f ≤ 2 / 5) :
    (lo : ℝ) ≤ 2 ^ 24 * cos (π * f / 2 ^ k) ∧ 2 ^ 24 * cos (π * f / 2 ^ k) ≤ ((2 ^ 24 : ℤ) : ℝ) := by
  have hpi := pi_pos
  have hp : (0:ℝ) < 2 ^ k := by positivity
  constructor
  · have h0 : 0 ≤ π * f / 2 ^ k := by positivity
    have h2 : π * f / 2 ^ k ≤ π * (2 / 5) / 2 ^ k :=
      div_le_div_of_nonneg_right (mul_le_mul_of_nonneg_left hf2 hpi.le) hp.le
    have h1 : π * (2 / 5) / 2 ^ k ≤ π := by
      rw [div_le_iff₀ hp]
      have : (1:ℝ) ≤ 2 ^ k := one_le_pow₀ (by norm_num)
      nlinarith
    have := cos_le_cos_of_nonneg_of_le_pi h0 h1 h2
    nlinarith
  · have := cos_le_one (π * f / 2 ^ k)
    push_cast; nlinarith

end HbfSpec
end Idsp
