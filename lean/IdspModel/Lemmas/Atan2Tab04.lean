import IdspModel.Lemmas.Atan2Tab
/-! `atani` table, chunk 4 of 8: quotient fields 32768 … 40960 (complete range, evaluated by the kernel). -/
namespace Idsp

theorem atanTab4 : atanRun 32768 8193 = true := by decide +kernel

end Idsp
