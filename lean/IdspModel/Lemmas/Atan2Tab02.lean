import IdspModel.Lemmas.Atan2Tab
/-! `atani` table, chunk 2 of 8: quotient fields 16384 … 24576 (complete range, evaluated by the kernel). -/
namespace Idsp

theorem atanTab2 : atanRun 16384 8193 = true := by decide +kernel

end Idsp
