import IdspModel.Rust
import Mathlib.Data.Real.Basic
import Mathlib.Algebra.Order.Floor.Ring
import Mathlib.Algebra.Order.Archimedean.Real.Basic
import Mathlib.Tactic.FieldSimp
import Mathlib.Algebra.Order.Ring.Abs
import Mathlib.Tactic.Ring
import Mathlib.Tactic.Linarith
import Mathlib.Tactic.Positivity
import Mathlib.Tactic.NormNum
/-!
# `Coefficient::quantize` of `src/num.rs` (`impl_int!`): the real-valued specification

    fn quantize<C>(value: C) -> Self { (value * (1 << Q).as_()).round().as_() }

`roundHalfAway` is `f32/f64::round` on the reals (nearest integer, ties away from zero), `satI w` (`Rust.lean`) is the
saturating float → `w`-bit signed integer cast, `quantizeR w q v = satI w (roundHalfAway (v · 2^q))`.
This file has the helper lemmas (rounding, saturation); the property theorems are in `Props/C05q.lean`.
-/
namespace Idsp

/-- `f32::round` / `f64::round` on the reals: nearest integer, ties AWAY from zero -/
noncomputable def roundHalfAway (x : ℝ) : ℤ := if 0 ≤ x then ⌊x + 1 / 2⌋ else -⌊-x + 1 / 2⌋

/-- the real-valued specification of `quantize` for a `w`-bit type with `q` fractional bits -/
noncomputable def quantizeR (w q : ℕ) (v : ℝ) : ℤ := satI w (roundHalfAway (v * 2 ^ q))

/-! ### rounding -/

theorem quantFloorHalf_err (x : ℝ) : |((⌊x + 1 / 2⌋ : ℤ) : ℝ) - x| ≤ 1 / 2 := by
  have h1 := Int.floor_le (x + 1 / 2)
  have h2 := Int.lt_floor_add_one (x + 1 / 2)
  rw [abs_le]; constructor <;> linarith

theorem quantRound_of_nonneg {x : ℝ} (h : 0 ≤ x) : roundHalfAway x = ⌊x + 1 / 2⌋ := by
  unfold roundHalfAway; rw [if_pos h]

theorem quantRound_of_neg {x : ℝ} (h : x < 0) : roundHalfAway x = -⌊-x + 1 / 2⌋ := by
  unfold roundHalfAway; rw [if_neg (not_le.mpr h)]

/-- the rounding error is at most one half -/
theorem quantRound_err (x : ℝ) : |((roundHalfAway x : ℤ) : ℝ) - x| ≤ 1 / 2 := by
  unfold roundHalfAway
  split
  · exact quantFloorHalf_err x
  · have := quantFloorHalf_err (-x)
    push_cast
    rw [abs_le] at this ⊢
    constructor <;> linarith [this.1, this.2]

/-- no integer is closer to `x` than `roundHalfAway x` -/
theorem quantRound_nearest (x : ℝ) (n : ℤ) : |((roundHalfAway x : ℤ) : ℝ) - x| ≤ |(n : ℝ) - x| := by
  by_contra hlt
  rw [not_le] at hlt
  have he := quantRound_err x
  have h1 : |(n : ℝ) - roundHalfAway x| < 1 := by
    have := abs_sub_le (n : ℝ) x (roundHalfAway x)
    rw [abs_sub_comm x] at this
    linarith
  have h2 : |n - roundHalfAway x| < 1 := by exact_mod_cast h1
  have h3 : n = roundHalfAway x := by have := abs_lt.mp h2; omega
  rw [h3] at hlt
  exact lt_irrefl _ hlt

/-- an integer strictly within one half of `x` IS the rounded value -/
theorem quantRound_eq_of_abs_lt {x : ℝ} {n : ℤ} (h : |(n : ℝ) - x| < 1 / 2) : roundHalfAway x = n := by
  have he := quantRound_err x
  have h1 : |((roundHalfAway x : ℤ) : ℝ) - n| < 1 := by
    have := abs_sub_le ((roundHalfAway x : ℤ) : ℝ) x n
    rw [abs_sub_comm x] at this
    linarith
  have h2 : |roundHalfAway x - n| < 1 := by exact_mod_cast h1
  have := abs_lt.mp h2; omega

/-- rounding is odd: no bias towards either sign -/
theorem quantRound_neg (x : ℝ) : roundHalfAway (-x) = -roundHalfAway x := by
  rcases lt_trichotomy x 0 with h | h | h
  · rw [quantRound_of_nonneg (by linarith : (0 : ℝ) ≤ -x), quantRound_of_neg h, neg_neg]
  · subst h
    rw [neg_zero, quantRound_of_nonneg le_rfl]
    have : ⌊(0 : ℝ) + 1 / 2⌋ = 0 := by rw [Int.floor_eq_iff]; norm_num
    rw [this]; rfl
  · rw [quantRound_of_neg (by linarith : -x < 0), quantRound_of_nonneg h.le, neg_neg]

/-- rounding is monotone -/
theorem quantRound_mono {x y : ℝ} (h : x ≤ y) : roundHalfAway x ≤ roundHalfAway y := by
  by_cases hx : 0 ≤ x
  · rw [quantRound_of_nonneg hx, quantRound_of_nonneg (hx.trans h)]
    exact Int.floor_mono (by linarith)
  · rw [not_le] at hx
    rw [quantRound_of_neg hx]
    by_cases hy : 0 ≤ y
    · rw [quantRound_of_nonneg hy]
      have h1 : 0 ≤ ⌊-x + 1 / 2⌋ := Int.floor_nonneg.mpr (by linarith)
      have h2 : 0 ≤ ⌊y + 1 / 2⌋ := Int.floor_nonneg.mpr (by linarith)
      omega
    · rw [not_le] at hy
      rw [quantRound_of_neg hy]
      have : ⌊-y + 1 / 2⌋ ≤ ⌊-x + 1 / 2⌋ := Int.floor_mono (by linarith)
      omega

/-- integers are fixed points of rounding -/
theorem quantRound_intCast (k : ℤ) : roundHalfAway (k : ℝ) = k := by
  by_cases hk : 0 ≤ k
  · rw [quantRound_of_nonneg (by exact_mod_cast hk), Int.floor_eq_iff]
    constructor <;> linarith
  · rw [not_le] at hk
    rw [quantRound_of_neg (by exact_mod_cast hk)]
    have : ⌊-(k : ℝ) + 1 / 2⌋ = -k := by
      rw [Int.floor_eq_iff]; push_cast; constructor <;> linarith
    rw [this, neg_neg]

/-- ties go AWAY from zero: `m + 1/2` rounds to `m + 1` for `m ≥ 0` and to `m` for `m < 0` (`m + 1/2 < 0`) -/
theorem quantRound_tie (m : ℤ) : roundHalfAway ((m : ℝ) + 1 / 2) = if 0 ≤ m then m + 1 else m := by
  split
  · rename_i hm
    have hm' : (0 : ℝ) ≤ m := by exact_mod_cast hm
    rw [quantRound_of_nonneg (by linarith), Int.floor_eq_iff]
    push_cast; constructor <;> linarith
  · rename_i hm
    have hm' : (m : ℝ) ≤ -1 := by
      have : m ≤ -1 := by omega
      exact_mod_cast this
    rw [quantRound_of_neg (by linarith)]
    have : ⌊-((m : ℝ) + 1 / 2) + 1 / 2⌋ = -m := by
      rw [Int.floor_eq_iff]; push_cast; constructor <;> linarith
    rw [this, neg_neg]

/-- at a tie the result is the candidate of LARGER magnitude: `|round x| = |x| + 1/2` -/
theorem quantRound_tie_abs (m : ℤ) :
    |((roundHalfAway ((m : ℝ) + 1 / 2) : ℤ) : ℝ)| = |(m : ℝ) + 1 / 2| + 1 / 2 := by
  rw [quantRound_tie]
  split
  · rename_i hm
    have hm' : (0 : ℝ) ≤ m := by exact_mod_cast hm
    push_cast
    rw [abs_of_nonneg (by linarith), abs_of_nonneg (by linarith)]; ring
  · rename_i hm
    have hm' : (m : ℝ) ≤ -1 := by
      have : m ≤ -1 := by omega
      exact_mod_cast this
    rw [abs_of_nonpos (by linarith), abs_of_nonpos (by linarith)]; ring

/-- `k ≤ x` for an integer `k` gives `k ≤ round x` -/
theorem quantRound_ge_of_intCast_le {k : ℤ} {x : ℝ} (h : (k : ℝ) ≤ x) : k ≤ roundHalfAway x := by
  have := quantRound_mono h
  rwa [quantRound_intCast] at this

theorem quantRound_le_of_le_intCast {k : ℤ} {x : ℝ} (h : x ≤ (k : ℝ)) : roundHalfAway x ≤ k := by
  have := quantRound_mono h
  rwa [quantRound_intCast] at this

/-- sharp upper threshold: everything strictly above `k − 1/2` rounds to at least `k` -/
theorem quantRound_ge_of_half_lt {k : ℤ} {x : ℝ} (h : (k : ℝ) - 1 / 2 < x) : k ≤ roundHalfAway x := by
  by_cases hx : 0 ≤ x
  · rw [quantRound_of_nonneg hx, Int.le_floor]; linarith
  · rw [not_le] at hx
    rw [quantRound_of_neg hx]
    have : ⌊-x + 1 / 2⌋ < -k + 1 := by rw [Int.floor_lt]; push_cast; linarith
    omega

/-- sharp lower threshold: everything strictly below `k + 1/2` rounds to at most `k` -/
theorem quantRound_le_of_lt_half {k : ℤ} {x : ℝ} (h : x < (k : ℝ) + 1 / 2) : roundHalfAway x ≤ k := by
  have := quantRound_ge_of_half_lt (k := -k) (x := -x) (by push_cast; linarith)
  rw [quantRound_neg] at this
  omega

/-! ### the saturating cast -/

theorem quant_two_pow_pos (n : ℕ) : (0 : ℤ) < 2 ^ n := by positivity

theorem quant_inI_iff (w : ℕ) (x : ℤ) : inI w x = true ↔ minI w ≤ x ∧ x ≤ maxI w := by
  unfold inI minI maxI
  rw [Bool.and_eq_true, decide_eq_true_eq, decide_eq_true_eq]
  omega

theorem quantSat_range (w : ℕ) (x : ℤ) : minI w ≤ satI w x ∧ satI w x ≤ maxI w := by
  have hP := quant_two_pow_pos (w - 1)
  unfold satI minI maxI
  split <;> [skip; split] <;> omega

theorem quantSat_inI (w : ℕ) (x : ℤ) : inI w (satI w x) = true :=
  (quant_inI_iff w _).mpr (quantSat_range w x)

theorem quantSat_of_inI {w : ℕ} {x : ℤ} (h : inI w x = true) : satI w x = x := by
  rw [quant_inI_iff] at h
  unfold satI
  rw [if_neg (by omega), if_neg (by omega)]

theorem quantSat_of_ge {w : ℕ} {x : ℤ} (h : maxI w ≤ x) : satI w x = maxI w := by
  have hP := quant_two_pow_pos (w - 1)
  unfold satI minI maxI at *
  split <;> [skip; split] <;> omega

theorem quantSat_of_le {w : ℕ} {x : ℤ} (h : x ≤ minI w) : satI w x = minI w := by
  have hP := quant_two_pow_pos (w - 1)
  unfold satI minI maxI at *
  split <;> [skip; split] <;> omega

theorem quantSat_mono (w : ℕ) {x y : ℤ} (h : x ≤ y) : satI w x ≤ satI w y := by
  have hP := quant_two_pow_pos (w - 1)
  unfold satI minI maxI
  split <;> [skip; split] <;> (split <;> [skip; split]) <;> omega

/-- the saturating cast of the rounded value is a nearest point of the type's range -/
theorem quantSat_nearest (w : ℕ) (t : ℝ) (n : ℤ) (hn : inI w n = true) :
    |((satI w (roundHalfAway t) : ℤ) : ℝ) - t| ≤ |(n : ℝ) - t| := by
  rw [quant_inI_iff] at hn
  obtain ⟨he1, he2⟩ := abs_le.mp (quantRound_err t)
  by_cases h1 : roundHalfAway t < minI w
  · rw [quantSat_of_le h1.le]
    have a : ((roundHalfAway t : ℤ) : ℝ) ≤ (minI w : ℝ) - 1 := by
      have : roundHalfAway t ≤ minI w - 1 := by omega
      exact_mod_cast this
    have b : ((minI w : ℤ) : ℝ) ≤ n := by exact_mod_cast hn.1
    rw [abs_of_nonneg (by linarith), abs_of_nonneg (by linarith)]; linarith
  · by_cases h2 : maxI w < roundHalfAway t
    · rw [quantSat_of_ge h2.le]
      have a : (maxI w : ℝ) + 1 ≤ ((roundHalfAway t : ℤ) : ℝ) := by
        have : maxI w + 1 ≤ roundHalfAway t := by omega
        exact_mod_cast this
      have b : (n : ℝ) ≤ ((maxI w : ℤ) : ℝ) := by exact_mod_cast hn.2
      rw [abs_of_nonpos (by linarith), abs_of_nonpos (by linarith)]; linarith
    · rw [quantSat_of_inI ((quant_inI_iff w _).mpr ⟨by omega, by omega⟩)]
      exact quantRound_nearest t n

/-! ### `quantizeR` -/

theorem quantizeR_of_fit {w q : ℕ} {v : ℝ} (h : inI w (roundHalfAway (v * 2 ^ q)) = true) :
    quantizeR w q v = roundHalfAway (v * 2 ^ q) := quantSat_of_inI h

theorem quantizeR_mono (w q : ℕ) {v v' : ℝ} (h : v ≤ v') : quantizeR w q v ≤ quantizeR w q v' := by
  have hp : (0 : ℝ) < 2 ^ q := by positivity
  exact quantSat_mono w (quantRound_mono (mul_le_mul_of_nonneg_right h hp.le))

theorem quantizeR_coeff (w q : ℕ) (k : ℤ) (hk : inI w k = true) : quantizeR w q ((k : ℝ) / 2 ^ q) = k := by
  have hp : (0 : ℝ) < 2 ^ q := by positivity
  unfold quantizeR
  rw [div_mul_cancel₀ _ hp.ne', quantRound_intCast, quantSat_of_inI hk]

/-- `quantize(−v)` in general: the saturated negation of the rounded value -/
theorem quantizeR_neg_eq (w q : ℕ) (v : ℝ) :
    quantizeR w q (-v) = satI w (-roundHalfAway (v * 2 ^ q)) := by
  unfold quantizeR
  rw [neg_mul, quantRound_neg]

/-- `2^-(q+1)` as a quotient -/
theorem quant_zpow_neg (q : ℕ) : (2 : ℝ) ^ (-((q : ℤ) + 1)) = 1 / 2 ^ (q + 1) := by
  rw [zpow_neg, one_div]
  congr 1

/-- the error of the coefficient VALUE `round(v·2^q)/2^q` is at most half a unit in the last place -/
theorem quantRound_scale_err (q : ℕ) (v : ℝ) :
    |((roundHalfAway (v * 2 ^ q) : ℤ) : ℝ) / 2 ^ q - v| ≤ 1 / 2 ^ (q + 1) := by
  have hp : (0 : ℝ) < 2 ^ q := by positivity
  have e : ((roundHalfAway (v * 2 ^ q) : ℤ) : ℝ) / 2 ^ q - v =
      (((roundHalfAway (v * 2 ^ q) : ℤ) : ℝ) - v * 2 ^ q) / 2 ^ q := by
    field_simp
  rw [e, abs_div, abs_of_pos hp, div_le_iff₀ hp]
  have : (1 : ℝ) / 2 ^ (q + 1) * 2 ^ q = 1 / 2 := by
    rw [pow_succ]; field_simp
  rw [this]
  exact quantRound_err _

end Idsp
