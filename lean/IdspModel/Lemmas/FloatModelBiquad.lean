import IdspModel.Lemmas.FloatModel
import IdspModel.Lemmas.NumExact
/-!
  Forward error analysis of the float biquad expressions of `Model/BiquadF.lean` under the standard model
  (`Lemmas/FloatModel.lean`), in the `Near` calculus; exactness lemmas of `FlModelX`.
-/
namespace Idsp

theorem Near.congr {v x e m e' m' : ℝ} (h : Near v x e m) (he : e = e') (hm : m = m') : Near v x e' m' := by
  subst he; subst hm; exact h

theorem Near.congr_val {v x x' e m : ℝ} (h : Near v x e m) (hx : x = x') : Near v x' e m := by
  subst hx; exact h

/-- the coefficients and offset of a float configuration as an exact-arithmetic configuration (`Lemmas/NumExact`) -/
def FBiquadCfg.toExact (c : FBiquadCfg ℝ) : ExactCfg ℝ := ⟨c.b0, c.b1, c.b2, c.a1, c.a2, c.u⟩

/-- the per-term rounding bound of one DF1 update -/
noncomputable def df1Bound (u : ℝ) (c : FBiquadCfg ℝ) (x0 x1 x2 y1 y2 : ℝ) : ℝ :=
  gam u 6 * |c.b0 * x0| + gam u 6 * |c.b1 * x1| + gam u 5 * |c.b2 * x2| + gam u 4 * |c.a1 * y1| +
    gam u 3 * |c.a2 * y2| + u * |c.u|

/-- the per-term rounding bound of the DF2T recurrence (third sample on) -/
noncomputable def df2tBound (u : ℝ) (c : FBiquadCfg ℝ) (x0 x1 x2 y1 y2 : ℝ) : ℝ :=
  gam u 2 * |c.b0 * x0| + gam u 4 * |c.b1 * x1| + gam u 6 * |c.b2 * x2| + gam u 3 * |c.a1 * y1| +
    gam u 5 * |c.a2 * y2| + gam u 5 * |c.u|

/-- a genuinely rounding instance: every operation rounds away from zero by the full factor `(1 + u)` -/
def FlModel.roundUp (u : ℝ) (hu : 0 ≤ u) : FlModel u where
  fadd a b := (a + b) * (1 + u)
  fsub a b := (a - b) * (1 + u)
  fmul a b := (a * b) * (1 + u)
  add_err _ _ := ⟨u, by rw [abs_of_nonneg hu], rfl⟩
  sub_err _ _ := ⟨u, by rw [abs_of_nonneg hu], rfl⟩
  mul_err _ _ := ⟨u, by rw [abs_of_nonneg hu], rfl⟩

namespace FlModel

variable {u : ℝ} (M : FlModel u)

/-- the summing junction expression: the first two products pass through 5 roundings, then 4, 3, 2 -/
theorem fbiquadSum_near (c : FBiquadCfg ℝ) (x0 x1 x2 y1 y2 : ℝ) :
    Near (fbiquadSum M.ops c x0 x1 x2 y1 y2) (c.b0 * x0 + c.b1 * x1 + c.b2 * x2 - c.a1 * y1 - c.a2 * y2)
      (gam u 5 * |c.b0 * x0| + gam u 5 * |c.b1 * x1| + gam u 4 * |c.b2 * x2| + gam u 3 * |c.a1 * y1| +
        gam u 2 * |c.a2 * y2|)
      (|c.b0 * x0| + |c.b1 * x1| + |c.b2 * x2| + |c.a1 * y1| + |c.a2 * y2|) := by
  have h := M.near_sub (M.near_sub (M.near_add (M.near_add (M.near_mul c.b0 x0) (M.near_mul c.b1 x1))
    (M.near_mul c.b2 x2)) (M.near_mul c.a1 y1)) (M.near_mul c.a2 y2)
  exact h.congr (by unfold gam; ring) rfl

/-- the float `macc` argument `u + s`: one more rounding on every product, one on the offset -/
theorem fbiquadJunction_near (c : FBiquadCfg ℝ) (x0 x1 x2 y1 y2 : ℝ) :
    Near (M.fadd c.u (fbiquadSum M.ops c x0 x1 x2 y1 y2))
      (c.b0 * x0 + c.b1 * x1 + c.b2 * x2 - c.a1 * y1 - c.a2 * y2 + c.u)
      (gam u 6 * |c.b0 * x0| + gam u 6 * |c.b1 * x1| + gam u 5 * |c.b2 * x2| + gam u 4 * |c.a1 * y1| +
        gam u 3 * |c.a2 * y2| + gam u 1 * |c.u|)
      (|c.b0 * x0| + |c.b1 * x1| + |c.b2 * x2| + |c.a1 * y1| + |c.a2 * y2| + |c.u|) := by
  have h := M.near_add (near_exact c.u) (M.fbiquadSum_near c x0 x1 x2 y1 y2)
  exact (h.congr (by unfold gam; ring) (by ring)).congr_val (by ring)

/-- the DF2T output expression `s + b·x` for an approximate state word `s` -/
theorem near_out {s S es ms : ℝ} (hs : Near s S es ms) (b x : ℝ) :
    Near (M.fadd s (M.fmul b x)) (S + b * x) ((1 + u) * es + gam u 1 * ms + gam u 2 * |b * x|) (ms + |b * x|) := by
  have h := M.near_add hs (M.near_mul b x)
  exact h.congr (by unfold gam; ring) rfl

/-- the DF2T state expression `(s + b·x) − a·y` for an approximate state word `s` -/
theorem near_state {s S es ms : ℝ} (hs : Near s S es ms) (b x a y : ℝ) :
    Near (M.fsub (M.fadd s (M.fmul b x)) (M.fmul a y)) (S + b * x - a * y)
      ((1 + u) ^ 2 * es + gam u 2 * ms + gam u 3 * |b * x| + gam u 2 * |a * y|) (ms + |b * x| + |a * y|) := by
  have h := M.near_sub (M.near_add hs (M.near_mul b x)) (M.near_mul a y)
  exact h.congr (by unfold gam; ring) rfl

/-- unfolding of the N = 2 update under the model -/
theorem fbiquadUpdate2_eq (c : FBiquadCfg ℝ) (s0 s1 x0 : ℝ) :
    fbiquadUpdate2 M.ops c (s0, s1) x0 =
      ((M.fsub (M.fadd s1 (M.fmul c.b1 x0)) (M.fmul c.a1 (rclip c.mn c.mx (M.fadd s0 (M.fmul c.b0 x0)))),
        M.fsub (M.fadd c.u (M.fmul c.b2 x0)) (M.fmul c.a2 (rclip c.mn c.mx (M.fadd s0 (M.fmul c.b0 x0))))),
       rclip c.mn c.mx (M.fadd s0 (M.fmul c.b0 x0))) := rfl

theorem fbiquadUpdate4_eq (c : FBiquadCfg ℝ) (x1 x2 y1 y2 x0 : ℝ) :
    fbiquadUpdate4 M.ops c (x1, x2, y1, y2) x0 =
      ((x0, x1, rclip c.mn c.mx (M.fadd c.u (fbiquadSum M.ops c x0 x1 x2 y1 y2)), y1),
       rclip c.mn c.mx (M.fadd c.u (fbiquadSum M.ops c x0 x1 x2 y1 y2))) := rfl

theorem fbiquadUpdate5_eq (c : FBiquadCfg ℝ) (x1 x2 y1 y2 e1 x0 : ℝ) :
    fbiquadUpdate5 M.ops c (x1, x2, y1, y2, e1) x0 =
      ((x0, x1, rclip c.mn c.mx (M.fadd c.u (fbiquadSum M.ops c x0 x1 x2 y1 y2)), y1, 0),
       rclip c.mn c.mx (M.fadd c.u (fbiquadSum M.ops c x0 x1 x2 y1 y2))) := rfl

/-- pre-clamp value of the third of three consecutive DF2T updates from any state -/
theorem df2t_third_near (c : FBiquadCfg ℝ) (st : ℝ × ℝ) (xa xb xc : ℝ) :
    let r1 := fbiquadUpdate2 M.ops c st xa
    let r2 := fbiquadUpdate2 M.ops c r1.1 xb
    let r3 := fbiquadUpdate2 M.ops c r2.1 xc
    r3.2 = rclip c.mn c.mx (M.fadd r2.1.1 (M.fmul c.b0 xc)) ∧
    Near (M.fadd r2.1.1 (M.fmul c.b0 xc)) (c.b0 * xc + c.b1 * xb + c.b2 * xa - c.a1 * r2.2 - c.a2 * r1.2 + c.u)
      (df2tBound u c xc xb xa r2.2 r1.2)
      (|c.u| + |c.b2 * xa| + |c.a2 * r1.2| + |c.b1 * xb| + |c.a1 * r2.2| + |c.b0 * xc|) := by
  obtain ⟨s0, s1⟩ := st
  intro r1 r2 r3
  have e1 : r1.1.2 = M.fsub (M.fadd c.u (M.fmul c.b2 xa)) (M.fmul c.a2 r1.2) := rfl
  have e2 : r2.1.1 = M.fsub (M.fadd r1.1.2 (M.fmul c.b1 xb)) (M.fmul c.a1 r2.2) := rfl
  refine ⟨rfl, ?_⟩
  have n1 := M.near_state (near_exact c.u) c.b2 xa c.a2 r1.2
  rw [← e1] at n1
  have n2 := M.near_state n1 c.b1 xb c.a1 r2.2
  rw [← e2] at n2
  have n3 := (M.near_out n2 c.b0 xc).congr_val
    (show c.u + c.b2 * xa - c.a2 * r1.2 + c.b1 * xb - c.a1 * r2.2 + c.b0 * xc =
      c.b0 * xc + c.b1 * xb + c.b2 * xa - c.a1 * r2.2 - c.a2 * r1.2 + c.u by ring)
  exact n3.congr (by unfold df2tBound gam; ring) rfl

/-- pre-clamp values of the first two DF2T updates from a state `(s0, s1)` -/
theorem df2t_first_two_near (c : FBiquadCfg ℝ) (s0 s1 xa xb : ℝ) :
    let r1 := fbiquadUpdate2 M.ops c (s0, s1) xa
    let r2 := fbiquadUpdate2 M.ops c r1.1 xb
    (r1.2 = rclip c.mn c.mx (M.fadd s0 (M.fmul c.b0 xa)) ∧
      Near (M.fadd s0 (M.fmul c.b0 xa)) (c.b0 * xa + s0) (gam u 2 * |c.b0 * xa| + gam u 1 * |s0|)
        (|s0| + |c.b0 * xa|)) ∧
    (r2.2 = rclip c.mn c.mx (M.fadd r1.1.1 (M.fmul c.b0 xb)) ∧
      Near (M.fadd r1.1.1 (M.fmul c.b0 xb)) (c.b0 * xb + c.b1 * xa - c.a1 * r1.2 + s1)
        (gam u 2 * |c.b0 * xb| + gam u 4 * |c.b1 * xa| + gam u 3 * |c.a1 * r1.2| + gam u 3 * |s1|)
        (|s1| + |c.b1 * xa| + |c.a1 * r1.2| + |c.b0 * xb|)) := by
  intro r1 r2
  refine ⟨⟨rfl, ?_⟩, rfl, ?_⟩
  · exact ((M.near_out (near_exact s0) c.b0 xa).congr_val (by ring)).congr (by ring) rfl
  · have e1 : r1.1.1 = M.fsub (M.fadd s1 (M.fmul c.b1 xa)) (M.fmul c.a1 r1.2) := rfl
    have n1 := M.near_state (near_exact s1) c.b1 xa c.a1 r1.2
    rw [← e1] at n1
    have n2 := (M.near_out n1 c.b0 xb).congr_val
      (show s1 + c.b1 * xa - c.a1 * r1.2 + c.b0 * xb = c.b0 * xb + c.b1 * xa - c.a1 * r1.2 + s1 by ring)
    exact n2.congr (by unfold gam; ring) rfl

end FlModel

/-- a clamped approximate value is as close to the clamped exact value -/
theorem Near.rclip {v x e m : ℝ} (h : Near v x e m) (mn mx : ℝ) : |rclip mn mx v - rclip mn mx x| ≤ e :=
  (rclip_lipschitz mn mx v x).trans h.1

/-- an approximate value is the exact value plus a bounded error -/
theorem Near.inside {v x e m : ℝ} (h : Near v x e m) : ∃ err, |err| ≤ e ∧ v = x + err :=
  ⟨v - x, h.1, by ring⟩

namespace FlModelX

variable {u : ℝ} (M : FlModelX u)

theorem rep_neg_one : M.rep (-1) := M.rep_neg 1 M.rep_one

theorem fmul_zero_left {x : ℝ} (hx : M.rep x) : M.fmul 0 x = 0 := by
  rw [M.mul_exact 0 x M.rep_zero hx (by rw [zero_mul]; exact M.rep_zero), zero_mul]

theorem fmul_one_left {x : ℝ} (hx : M.rep x) : M.fmul 1 x = x := by
  rw [M.mul_exact 1 x M.rep_one hx (by rw [one_mul]; exact hx), one_mul]

theorem fmul_neg_one_left {x : ℝ} (hx : M.rep x) : M.fmul (-1) x = -x := by
  rw [M.mul_exact (-1) x M.rep_neg_one hx (by rw [neg_one_mul]; exact M.rep_neg x hx), neg_one_mul]

theorem fadd_zero_right {x : ℝ} (hx : M.rep x) : M.fadd x 0 = x := by
  rw [M.add_exact x 0 hx M.rep_zero (by rw [add_zero]; exact hx), add_zero]

theorem fadd_zero_left {x : ℝ} (hx : M.rep x) : M.fadd 0 x = x := by
  rw [M.add_exact 0 x M.rep_zero hx (by rw [zero_add]; exact hx), zero_add]

theorem fsub_zero_right {x : ℝ} (hx : M.rep x) : M.fsub x 0 = x := by
  rw [M.sub_exact x 0 hx M.rep_zero (by rw [sub_zero]; exact hx), sub_zero]

theorem fsub_zero_neg {x : ℝ} (hx : M.rep x) : M.fsub 0 (-x) = x := by
  rw [M.sub_exact 0 (-x) M.rep_zero (M.rep_neg x hx) (by rw [zero_sub, neg_neg]; exact hx), zero_sub, neg_neg]

/-- the summing junction when only the `b0` product is nonzero -/
theorem sum_b0_only {c : FBiquadCfg ℝ} (h1 : c.b1 = 0) (h2 : c.b2 = 0) (h3 : c.a1 = 0) (h4 : c.a2 = 0)
    {x0 x1 x2 y1 y2 : ℝ} (r1 : M.rep x1) (r2 : M.rep x2) (r3 : M.rep y1) (r4 : M.rep y2)
    (rp : M.rep (M.fmul c.b0 x0)) :
    fbiquadSum M.toFlModel.ops c x0 x1 x2 y1 y2 = M.fmul c.b0 x0 := by
  unfold fbiquadSum
  simp only [FlModel.ops, h1, h2, h3, h4]
  rw [M.fmul_zero_left r1, M.fmul_zero_left r2, M.fmul_zero_left r3, M.fmul_zero_left r4, M.fadd_zero_right rp,
    M.fadd_zero_right rp, M.fsub_zero_right rp, M.fsub_zero_right rp]

end FlModelX

end Idsp
