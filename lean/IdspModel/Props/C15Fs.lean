import IdspModel.Lemmas.FloatModelHbfCast
import IdspModel.Props.C15Fc
import IdspModel.Props.C15spec
/-!
# C15 (floating point clause, end to end) — the running f32 cascades against the PUBLISHED overall FIR

`Props/C15spec.lean` proves the published figures (exact symmetry, span, DC gain, pass-band ripple `≤ 2e-6 dB`,
stop-band `≤ −140 dB`) for the rational list `hbfCascadeFir d`, and ties the model to it through the impulse responses of
the rational cascades `hbfDecCascadeQ d` / `hbfIntCascadeQ d`.  `Props/C15Fc.lean` bounds the distance between the
running f32 cascades and the exact real cascades `fhbfDecCascade fhbfExactOps d` / `fhbfIntCascade fhbfExactOps d`.
This file closes the gap:

1. `fhbf_cascade_cast` — the exact real cascades on rational inputs are the casts of the rational cascades of `C15spec`
   (transport along `Rat.cast`, which commutes with the ring operations, `hbfDecSpec`, `hbfIntSpec`); corollary: the
   impulse responses of `C15spec` are the impulse responses of the exact real cascades.
2. `fhbf_exact_cascade_is_published_fir` — for ARBITRARY real inputs and any admissible block partition the exact real
   cascade IS the convolution with `hbfCascadeFir d`: the interpolating cascade returns
   `y[k] = Σ_n H[n]·x↑(k − n)` (`x↑` = the input zero-stuffed by `2^d`), the decimating cascade
   `y[i] = 2^-d·Σ_n H[n]·x(2^d·i + 2^d − 1 − n)` (`x(m) = 0` for `m < 0`).  This is proved directly over `ℝ` from the
   stage theorems of `Props/C15.lean` (generic over commutative rings) by the noble identities
   (`Lemmas/FloatModelHbfFir.lean`: `fhbfStride K l w n = Σ_j l[j]·w(n − K·j)`, `fhbfUp K` = zero-stuffing); no
   density argument is needed.
3. `fhbf_f32_cascade_meets_published_fir` — the end-to-end statement.
-/
namespace Idsp
open Finset

/-! ## 1. Transport along `Rat.cast` -/

/-- **`fhbf_cascade_cast`** — for every depth `d ≤ 4` and every list of rational blocks admissible for the rational
    cascade of `C15spec`, the exact real cascade run on the cast blocks returns the cast of the rational outputs. -/
theorem fhbf_cascade_cast (d : ℕ) (hd : d ≤ 4) (bs : List (List ℚ)) :
    ((∀ b ∈ bs, (hbfDecCascadeQ d).Adm b) →
      ((fhbfDecCascade fhbfExactOps d).run fhbfExactOps (bs.map (List.map (Rat.cast : ℚ → ℝ)))).2.flatten =
        ((hbfDecCascadeQ d).run hbfQOps bs).2.flatten.map (Rat.cast : ℚ → ℝ)) ∧
    ((∀ b ∈ bs, (hbfIntCascadeQ d).Adm b) →
      ((fhbfIntCascade fhbfExactOps d).run fhbfExactOps (bs.map (List.map (Rat.cast : ℚ → ℝ)))).2.flatten =
        ((hbfIntCascadeQ d).run hbfQOps bs).2.flatten.map (Rat.cast : ℚ → ℝ)) := by
  have hfl : (bs.map (List.map (Rat.cast : ℚ → ℝ))).flatten = bs.flatten.map (Rat.cast : ℚ → ℝ) := by
    rw [List.map_flatten]
  constructor
  · intro adm
    have admR : ∀ b ∈ bs.map (List.map (Rat.cast : ℚ → ℝ)), (fhbfDecCascade fhbfExactOps d).Adm b := by
      intro b hb
      obtain ⟨b', hb', rfl⟩ := List.mem_map.mp hb
      exact (fhbf_decCascade_adm_cast _ d b').mp (adm b' hb')
    rw [(HbfDecCascade.run_spec fhbfExactOps _ (fhbfDecCascade_wf _ d hd) _ admR).1,
      (HbfDecCascade.run_spec hbfQOps _ (hbfDecCascadeQ_wf d hd) bs adm).1,
      fhbfDecCascade_active _ rfl d hd, hbfDecCascadeQ_active d hd, hfl, ← fhbf_decChainSpec_map fhbf_cast_hom,
      List.map_map]
    congr 1
    apply List.map_congr_left
    intro j _
    exact fhbfDecAbs_cast j
  · intro adm
    have admR : ∀ b ∈ bs.map (List.map (Rat.cast : ℚ → ℝ)), (fhbfIntCascade fhbfExactOps d).Adm b := by
      intro b hb
      obtain ⟨b', hb', rfl⟩ := List.mem_map.mp hb
      exact (fhbf_intCascade_adm_cast _ d b').mp (adm b' hb')
    rw [(HbfIntCascade.run_spec fhbfExactOps _ (fhbfIntCascade_wf _ d hd) _ admR).1,
      (HbfIntCascade.run_spec hbfQOps _ (hbfIntCascadeQ_wf d hd) bs adm).1,
      fhbfIntCascade_active _ rfl d hd, hbfIntCascadeQ_active d hd, hfl, ← fhbf_intChainSpec_map fhbf_cast_hom,
      List.map_map]
    congr 1
    apply List.map_congr_left
    intro j _
    exact fhbfIntAbs_cast j

/-- corollary: the impulse response of the exact REAL interpolating cascade is the published overall FIR
    (`hbf_cascade_impulse_response_int` of `C15spec`, transported) -/
theorem fhbf_exact_int_cascade_impulse_response (d : ℕ) (h1 : 1 ≤ d) (h4 : d ≤ 4) :
    ((fhbfIntCascade fhbfExactOps d).run fhbfExactOps
        [((1 : ℚ) :: List.replicate 63 0).map (Rat.cast : ℚ → ℝ)]).2.flatten =
      (hbfCascadeFir d ++ List.replicate (64 * 2 ^ d - (hbfCascadeFir d).length) 0).map (Rat.cast : ℚ → ℝ) := by
  obtain ⟨_, adm, hq⟩ := hbf_cascade_impulse_response_int d h1 h4
  have := (fhbf_cascade_cast d h4 [1 :: List.replicate 63 0]).2 (by simpa using adm)
  rw [hq] at this
  simpa using this

/-! ## 2. The exact real cascade is the convolution with the published overall FIR -/

/-- **`fhbf_exact_cascade_is_published_fir`** — exact real arithmetic, depth `d ≤ 4`, any admissible block partition of
    any real input `X`: output `i` of the decimating cascade is `2^-d·Σ_n H[n]·X(2^d·i + 2^d − 1 − n)`, output `k` of the
    interpolating cascade is `Σ_n H[n]·X↑(k − n)`, `H = hbfCascadeFir d`. -/
theorem fhbf_exact_cascade_is_published_fir (d : ℕ) (hd : d ≤ 4) (bs : List (List ℝ)) :
    ((∀ b ∈ bs, (fhbfDecCascade fhbfExactOps d).Adm b) →
      ∀ i (hi : i < ((fhbfDecCascade fhbfExactOps d).run fhbfExactOps bs).2.flatten.length),
        ((fhbfDecCascade fhbfExactOps d).run fhbfExactOps bs).2.flatten[i] =
          (1 / 2) ^ d * fhbfStride 1 (hbfCascadeFir d) (zext bs.flatten) (2 ^ d * (i : ℤ) + 2 ^ d - 1)) ∧
    ((∀ b ∈ bs, (fhbfIntCascade fhbfExactOps d).Adm b) →
      ∀ k (hk : k < ((fhbfIntCascade fhbfExactOps d).run fhbfExactOps bs).2.flatten.length),
        ((fhbfIntCascade fhbfExactOps d).run fhbfExactOps bs).2.flatten[k] =
          fhbfStride 1 (hbfCascadeFir d) (fhbfUp (2 ^ d) (zext bs.flatten)) k) := by
  constructor
  · intro adm i hi
    have s := (HbfDecCascade.run_spec fhbfExactOps _ (fhbfDecCascade_wf _ d hd) bs adm).1
    rw [fhbfDecCascade_active _ rfl d hd] at s
    have ag := fhbf_decChain_agrees (List.range d).reverse bs.flatten _ (fhbfAgrees_zext _)
    rw [← s] at ag
    have := ag i (by exact_mod_cast hi)
    rw [zext_of_lt _ _ i rfl hi, fhbfDecIdeal_range d hd] at this
    exact this
  · intro adm k hk
    have s := (HbfIntCascade.run_spec fhbfExactOps _ (fhbfIntCascade_wf _ d hd) bs adm).1
    rw [fhbfIntCascade_active _ rfl d hd] at s
    have ag := fhbf_intChain_agrees (List.range d) bs.flatten _ (fhbfAgrees_zext _)
    rw [← s] at ag
    have := ag k (by exact_mod_cast hk)
    rw [zext_of_lt _ _ k rfl hk, fhbfIntIdeal_range d hd] at this
    exact this

/-- what `fhbfStride 1 H w n` is: the convolution sum `Σ_{m < len H} H[m]·w(n − m)` -/
theorem fhbf_stride_one_eq_sum (H : List ℚ) (w : ℤ → ℝ) (n : ℤ) :
    fhbfStride 1 H w n = ∑ m ∈ range H.length, ((H.getD m 0 : ℚ) : ℝ) * w (n - m) := by
  unfold fhbfStride
  refine Finset.sum_congr rfl fun m _ => ?_
  congr 2
  push_cast
  ring

/-! ## 3. End to end -/

/-- **`fhbf_f32_cascade_meets_published_fir`** — the published-spec clause holds for the overall FIR
    `H = hbfCascadeFir d` (`hbf_cascade_spec_full`: both rational cascades have impulse response `H`, `H` is exactly
    symmetric, spans `response_length()+1` samples, has unity DC gain to `1e-6`, ripple `≤ 3e-6 dB` up to 0.4 and
    attenuation `≥ 138 dB` beyond 0.6 of the low rate; sharper constants in `C15spec`), AND for every depth `1..4`, both
    directions, every binary32 rounding model `F`, every admissible block partition and every input with `|x| ≤ B`,
    every output of the RUNNING f32 model differs from the output of that published FIR — the convolution
    `2^-d·Σ_n H[n]·X(2^d·i + 2^d − 1 − n)` resp. `Σ_n H[n]·X↑(k − n)` — by at most
    `fhbfDecCascadeConst d / 2^24 · B` (`11, 30, 57, 94`) resp. `fhbfIntCascadeConst d / 2^24 · B` (`14, 49, 111, 217`). -/
theorem fhbf_f32_cascade_meets_published_fir :
    hbf_cascade_spec_full ∧
    ∀ (F : FlModel (1 / 2 ^ 24)) (d : ℕ), 1 ≤ d → d ≤ 4 → ∀ (bs : List (List ℝ)) (B : ℝ), 0 ≤ B →
      (∀ x ∈ bs.flatten, |x| ≤ B) →
      ((∀ b ∈ bs, (fhbfDecCascade F.fhbfOps d).Adm b) →
        ∀ i (hi : i < ((fhbfDecCascade F.fhbfOps d).run F.fhbfOps bs).2.flatten.length),
          |((fhbfDecCascade F.fhbfOps d).run F.fhbfOps bs).2.flatten[i] -
            (1 / 2) ^ d * fhbfStride 1 (hbfCascadeFir d) (zext bs.flatten) (2 ^ d * (i : ℤ) + 2 ^ d - 1)| ≤
            ((fhbfDecCascadeConst d : ℚ) : ℝ) / 2 ^ 24 * B) ∧
      ((∀ b ∈ bs, (fhbfIntCascade F.fhbfOps d).Adm b) →
        ∀ k (hk : k < ((fhbfIntCascade F.fhbfOps d).run F.fhbfOps bs).2.flatten.length),
          |((fhbfIntCascade F.fhbfOps d).run F.fhbfOps bs).2.flatten[k] -
            fhbfStride 1 (hbfCascadeFir d) (fhbfUp (2 ^ d) (zext bs.flatten)) k| ≤
            ((fhbfIntCascadeConst d : ℚ) : ℝ) / 2 ^ 24 * B) := by
  refine ⟨hbf_cascade_spec_full_holds, ?_⟩
  intro F d _ hd bs B hB0 hB
  constructor
  · intro adm i hi
    have admE : ∀ b ∈ bs, (fhbfDecCascade fhbfExactOps d).Adm b :=
      fun b hb => (fhbfDecCascade_adm_iff _ _ d b).mp (adm b hb)
    have hlen := (fhbf_dec_cascade_error F d hd bs adm B hB0 hB).1
    have hi' : i < ((fhbfDecCascade fhbfExactOps d).run fhbfExactOps bs).2.flatten.length := hlen ▸ hi
    rw [← (fhbf_exact_cascade_is_published_fir d hd bs).1 admE i hi']
    exact fhbf_dec_cascade_error_f32 F d hd bs adm B hB0 hB i hi hi'
  · intro adm k hk
    have admE : ∀ b ∈ bs, (fhbfIntCascade fhbfExactOps d).Adm b :=
      fun b hb => (fhbfIntCascade_adm_iff _ _ d b).mp (adm b hb)
    have hlen := (fhbf_int_cascade_error F d hd bs adm B hB0 hB).1
    have hk' : k < ((fhbfIntCascade fhbfExactOps d).run fhbfExactOps bs).2.flatten.length := hlen ▸ hk
    rw [← (fhbf_exact_cascade_is_published_fir d hd bs).2 admE k hk']
    exact fhbf_int_cascade_error_f32 F d hd bs adm B hB0 hB k hk hk'

/-! ## 4. Non-vacuity -/

/-- the hypotheses are satisfiable: rounding models exist, `block_size()`-conforming blocks are admissible -/
noncomputable example : FlModel (1 / 2 ^ 24) := FlModel.roundUp _ (by positivity)
example (F : FlModel (1 / 2 ^ 24)) (d : ℕ) (hd : d ≤ 4) (x : List ℝ) (hg : 2 ^ d ∣ x.length)
    (hx : x.length ≤ 64 * 2 ^ d) : (fhbfDecCascade F.fhbfOps d).Adm x := fhbfDecCascade_adm _ d hd x hg hx
example (F : FlModel (1 / 2 ^ 24)) (d : ℕ) (hd : d ≤ 4) (x : List ℝ) (hx : x.length ≤ 64) :
    (fhbfIntCascade F.fhbfOps d).Adm x := fhbfIntCascade_adm _ d hd x hx

/-- the end-to-end theorem applied to a concrete run: round-up model, depth 2, one block of four full-scale
    samples — all hypotheses hold and the first output is within `30·2^-24` of the published FIR's -/
example :
    let F := FlModel.roundUp (1 / 2 ^ 24) (by positivity)
    ∀ hi : 0 < ((fhbfDecCascade F.fhbfOps 2).run F.fhbfOps [[1, -1, 1, 1]]).2.flatten.length,
      |((fhbfDecCascade F.fhbfOps 2).run F.fhbfOps [[1, -1, 1, 1]]).2.flatten[0] -
        (1 / 2) ^ 2 * fhbfStride 1 (hbfCascadeFir 2) (zext [1, -1, 1, 1]) (2 ^ 2 * ((0 : ℕ) : ℤ) + 2 ^ 2 - 1)| ≤
        ((fhbfDecCascadeConst 2 : ℚ) : ℝ) / 2 ^ 24 * 1 := by
  intro F hi
  have h := (fhbf_f32_cascade_meets_published_fir.2 F 2 (by norm_num) (by norm_num) [[1, -1, 1, 1]] 1 (by norm_num)
    (by intro x hx; simp at hx; rcases hx with rfl | rfl | rfl | rfl <;> norm_num)).1
    (by intro b hb; simp at hb; subst hb; exact fhbfDecCascade_adm _ 2 (by norm_num) _ (by decide) (by decide)) 0 hi
  simpa using h

/-- consistency of the two routes on a concrete input: the unit impulse through the exact real interpolating cascade
    of depth 1 gives `hbfCascadeFir 1` both by transport from `C15spec` and by the convolution theorem (first sample:
    the outermost tap of `HBF_TAPS.0`) -/
example : (hbfCascadeFir 1).getD 0 0 = 13376681 / 2 ^ 44 := by decide +kernel

end Idsp
