import IdspModel.Lemmas.PidGl
import Mathlib.Algebra.Order.Field.Basic
import Mathlib.Tactic.Linarith
/-!
# Matching gain/limit signs make the normalisation `l0 + l1 + l2 ≥ 1` (in particular non-zero)
-/
namespace Idsp

variable {K : Type} [Field K] [LinearOrder K] [IsStrictOrderedRing K]

/-- "limit sign matches gain sign" for one action: a set limit is non-zero and `gain·limit ≥ 0`
    (a zero gain matches everything); an unset limit (`+∞`) always matches -/
def signOK (k : K) : Option K → Prop
  | some lim => lim ≠ 0 ∧ 0 ≤ k * lim
  | none => True

theorem limGain_nonneg {k c : K} {m : Option K} (hc : 0 ≤ c) (h : signOK k m) : 0 ≤ limGain (k * c) m := by
  cases m with
  | none => simp
  | some lim =>
    obtain ⟨h0, h1⟩ := h
    have : k * c / lim = (k * lim) * c / (lim * lim) := by field_simp
    rw [limGain_some, this]
    exact div_nonneg (mul_nonneg h1 hc) (mul_self_nonneg lim)

theorem limGain_div_nonneg {k c : K} {m : Option K} (hc : 0 ≤ c) (h : signOK k m) : 0 ≤ limGain (k / c) m := by
  rw [div_eq_mul_inv]
  exact limGain_nonneg (inv_nonneg.mpr hc) h

end Idsp
