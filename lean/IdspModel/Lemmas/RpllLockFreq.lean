import IdspModel.Lemmas.RpllSched
import Mathlib.Tactic.Ring
import Mathlib.Tactic.Linarith
import Mathlib.Tactic.Positivity
/-!
The RPLL frequency loop as an autonomous integer recursion (no wrap-around): geometric convergence of
`u = ff·P − 2^(32+dt2)` into the rounding dead band `|u| ≤ 2^(sf−1)`.
Abstract parameters: `S = 2^sf`, `h = S/2`, `R = 2^(32+dt2−sf)`, `T = R·S = 2^(32+dt2)`, `0 < P < S`.
-/
namespace Idsp

/-- the frequency-loop map on unbounded integers: `ff ↦ ff + R − ⌊(ff·P + h)/S⌋` -/
def ffStep (P S h R ff : Int) : Int := ff + R - (ff * P + h) / S

/-- `m`-fold iterate from `ff = 0` (the value after `RPLL::new`) -/
def ffIter (P S h R : Int) : Nat → Int
  | 0 => 0
  | m + 1 => ffStep P S h R (ffIter P S h R m)

/-- exact error recursion: with `u = ff·P − R·S`, `u'·S = u·(S − P) + P·(ρ − h)`, `ρ = (ff·P + h) mod S` -/
theorem ffStep_err (P S h R ff : Int) :
    (ffStep P S h R ff * P - R * S) * S = (ff * P - R * S) * (S - P) + P * ((ff * P + h) % S - h) := by
  unfold ffStep
  have := Int.emod_add_mul_ediv (ff * P + h) S
  generalize (ff * P + h) / S = q at *
  generalize (ff * P + h) % S = r at *
  have : h = r + S * q - ff * P := by linarith
  subst this
  ring

section
variable {P S h R : Int} (hP0 : 0 < P) (hPS : P < S) (hS : S = 2 * h)
include hP0 hPS hS

theorem ffStep_rem (ff : Int) : -h ≤ (ff * P + h) % S - h ∧ (ff * P + h) % S - h < h := by
  have h1 := Int.emod_nonneg (ff * P + h) (show S ≠ 0 by omega)
  have h2 := Int.emod_lt_of_pos (ff * P + h) (show 0 < S by omega)
  omega

/-- the window `−T ≤ u ≤ h` is invariant (so `0 ≤ ff` and `ff·P ≤ T + h`: no wrap-around in `u32`) -/
theorem ffStep_inv (hR : h ≤ R * S) (ff : Int) (h0 : -(R * S) ≤ ff * P - R * S) (h1 : ff * P - R * S ≤ h) :
    -(R * S) ≤ ffStep P S h R ff * P - R * S ∧ ffStep P S h R ff * P - R * S ≤ h := by
  have e := ffStep_err P S h R ff
  have ⟨r0, r1⟩ := ffStep_rem hP0 hPS hS ff
  generalize (ff * P + h) % S - h = ρ at *
  generalize ffStep P S h R ff * P - R * S = u' at *
  generalize ff * P - R * S = u at *
  have hS0 : 0 < S := by omega
  constructor
  · by_contra hc
    have : u' * S < -(R * S) * S := by nlinarith
    nlinarith
  · by_contra hc
    have : h * S < u' * S := by nlinarith
    nlinarith

/-- one step contracts the error by `(1 − P/S)` up to the dead-band half-width: `|u'|·S ≤ |u|·(S−P) + P·h` -/
theorem ffStep_abs (ff : Int) :
    |ffStep P S h R ff * P - R * S| * S ≤ |ff * P - R * S| * (S - P) + P * h := by
  have e := ffStep_err P S h R ff
  have ⟨r0, r1⟩ := ffStep_rem hP0 hPS hS ff
  generalize (ff * P + h) % S - h = ρ at *
  generalize ffStep P S h R ff * P - R * S = u' at *
  generalize ff * P - R * S = u at *
  have hS0 : 0 < S := by omega
  have hρ : |ρ| ≤ h := abs_le.mpr ⟨r0, by omega⟩
  calc |u'| * S = |u' * S| := by rw [abs_mul, abs_of_pos hS0]
    _ = |u * (S - P) + P * ρ| := by rw [e]
    _ ≤ |u * (S - P)| + |P * ρ| := abs_add_le _ _
    _ = |u| * (S - P) + P * |ρ| := by
        rw [abs_mul, abs_mul, abs_of_pos (show 0 < S - P by omega), abs_of_pos hP0]
    _ ≤ |u| * (S - P) + P * h := by nlinarith

theorem ffIter_inv (hR : h ≤ R * S) (m : Nat) :
    -(R * S) ≤ ffIter P S h R m * P - R * S ∧ ffIter P S h R m * P - R * S ≤ h := by
  induction m with
  | zero =>
    simp only [ffIter]
    constructor <;> nlinarith
  | succ m ih => exact ffStep_inv hP0 hPS hS hR _ ih.1 ih.2

/-- `S^m·|u_m| ≤ (S−P)^m·T + h·(S^m − (S−P)^m)`: geometric convergence into the dead band -/
theorem ffIter_geom (hR : 0 ≤ R) (m : Nat) :
    S ^ m * |ffIter P S h R m * P - R * S| ≤ (S - P) ^ m * (R * S) + h * (S ^ m - (S - P) ^ m) := by
  have hS0 : 0 < S := by omega
  induction m with
  | zero =>
    simp only [ffIter, pow_zero, Int.zero_mul, zero_sub, abs_neg, one_mul, sub_self, mul_zero, add_zero]
    exact le_of_eq (abs_of_nonneg (by positivity))
  | succ m ih =>
    have st := ffStep_abs (R := R) hP0 hPS hS (ffIter P S h R m)
    simp only [ffIter]
    generalize |ffStep P S h R (ffIter P S h R m) * P - R * S| = a' at *
    generalize |ffIter P S h R m * P - R * S| = a at *
    have hSm : 0 < S ^ m := by positivity
    have hSP : 0 < S - P := by omega
    calc S ^ (m + 1) * a' = S ^ m * (a' * S) := by ring
      _ ≤ S ^ m * (a * (S - P) + P * h) := by nlinarith
      _ = (S - P) * (S ^ m * a) + P * h * S ^ m := by ring
      _ ≤ (S - P) * ((S - P) ^ m * (R * S) + h * (S ^ m - (S - P) ^ m)) + P * h * S ^ m := by nlinarith
      _ = (S - P) ^ (m + 1) * (R * S) + h * (S ^ (m + 1) - (S - P) ^ (m + 1)) := by ring

/-- halving: `n·P ≥ S` steps contract by at least 1/2 (Bernoulli) -/
theorem ff_halving (n : Nat) (hn : S ≤ n * P) : 2 * (S - P) ^ n ≤ S ^ n := by
  have hS0 : 0 < S := by omega
  have hSP : 0 < S - P := by omega
  -- (S+P)^n ≥ S^n + n·S^(n−1)·P ≥ 2·S^n  and (S−P)^n·(S+P)^n ≤ S^(2n)
  have bern : ∀ n : Nat, S ^ n * S + n * P * S ^ n ≤ (S + P) ^ n * S := by
    intro n
    induction n with
    | zero => simp
    | succ n ih =>
      have h2 : 0 ≤ (n : Int) * P * P * S ^ n := by positivity
      have e1 : (S + P) ^ (n + 1) * S = (S + P) * ((S + P) ^ n * S) := by ring
      have e2 : (S + P) * (S ^ n * S + n * P * S ^ n)
          = S ^ (n + 1) * S + ((n : Int) + 1) * P * S ^ (n + 1) + (n : Int) * P * P * S ^ n := by ring
      have e3 := mul_le_mul_of_nonneg_left ih (show 0 ≤ S + P by omega)
      push_cast
      linarith
  have hb := bern n
  have h1 : 2 * S ^ n * S ≤ (S + P) ^ n * S := by
    have : 0 < S ^ n := by positivity
    nlinarith
  have h2 : 2 * S ^ n ≤ (S + P) ^ n := by nlinarith
  have h3 : (S - P) ^ n * (S + P) ^ n ≤ S ^ n * S ^ n := by
    rw [← mul_pow, ← mul_pow]
    apply pow_le_pow_left₀ (by nlinarith)
    nlinarith
  have h4 : 0 < (S - P) ^ n := by positivity
  have h5 : 0 < S ^ n := by positivity
  by_contra hc
  have : S ^ n < 2 * (S - P) ^ n := by omega
  nlinarith

/-- `k` halvings: `2^k·(S−P)^m ≤ S^m` for `m ≥ k·n`, `n·P ≥ S` -/
theorem ff_halvings (n k m : Nat) (hh : 2 * (S - P) ^ n ≤ S ^ n) (hm : k * n ≤ m) :
    2 ^ k * (S - P) ^ m ≤ S ^ m := by
  have hS0 : 0 < S := by omega
  have hSP : 0 < S - P := by omega
  have base : ∀ k : Nat, 2 ^ k * (S - P) ^ (k * n) ≤ S ^ (k * n) := by
    intro k
    induction k with
    | zero => simp
    | succ k ih =>
      have e : (k + 1) * n = k * n + n := by ring
      rw [e]
      have h1 : 0 ≤ (S - P) ^ n := by positivity
      have h2 : 0 ≤ S ^ (k * n) := by positivity
      calc 2 ^ (k + 1) * (S - P) ^ (k * n + n)
          = (2 ^ k * (S - P) ^ (k * n)) * (2 * (S - P) ^ n) := by ring
        _ ≤ S ^ (k * n) * S ^ n := mul_le_mul ih hh (by positivity) h2
        _ = S ^ (k * n + n) := by ring
  obtain ⟨j, rfl⟩ : ∃ j, m = k * n + j := ⟨m - k * n, by omega⟩
  rw [pow_add, pow_add]
  have hj : (S - P) ^ j ≤ S ^ j := pow_le_pow_left₀ (by omega) (by omega) j
  have : 0 < (S - P) ^ j := by positivity
  have : 0 < S ^ (k * n) := by positivity
  have := base k
  nlinarith

/-- **after `m ≥ k·n` edges (`n` edges halve the error, e.g. `n·P ≥ S`) the error is within the dead band up to
    `T/2^k`**: `2^k·(|u_m| − h) ≤ T` -/
theorem ffIter_bound (hR : 0 ≤ R) (n k m : Nat) (hn : 2 * (S - P) ^ n ≤ S ^ n) (hm : k * n ≤ m) :
    2 ^ k * (|ffIter P S h R m * P - R * S| - h) ≤ R * S := by
  have hS0 : 0 < S := by omega
  have g := ffIter_geom hP0 hPS hS hR m
  have hv := ff_halvings hP0 hPS hS n k m hn hm
  generalize |ffIter P S h R m * P - R * S| = a at *
  have hSm : 0 < S ^ m := by positivity
  have hSPm : 0 < (S - P) ^ m := by have : 0 < S - P := by omega
                                    positivity
  have hT : 0 ≤ R * S := by positivity
  have hh : 0 ≤ h := by omega
  -- S^m (a − h) ≤ (S−P)^m (T − h) ≤ (S−P)^m T
  have h1 : S ^ m * (a - h) ≤ (S - P) ^ m * (R * S) := by nlinarith
  by_contra hc
  have h2 : R * S < 2 ^ k * (a - h) := by omega
  have h3 : 0 < a - h := by
    by_contra h0
    have : 2 ^ k * (a - h) ≤ 0 := mul_nonpos_of_nonneg_of_nonpos (by positivity) (by omega)
    omega
  have h4 : S ^ m * (R * S) < S ^ m * (2 ^ k * (a - h)) := by nlinarith
  have h5 : S ^ m * (2 ^ k * (a - h)) = 2 ^ k * (S ^ m * (a - h)) := by ring
  have h6 : 2 ^ k * (S ^ m * (a - h)) ≤ 2 ^ k * ((S - P) ^ m * (R * S)) :=
    mul_le_mul_of_nonneg_left h1 (by positivity)
  have h7 : 2 ^ k * ((S - P) ^ m * (R * S)) = (2 ^ k * (S - P) ^ m) * (R * S) := by ring
  have h8 : (2 ^ k * (S - P) ^ m) * (R * S) ≤ S ^ m * (R * S) := mul_le_mul_of_nonneg_right hv hT
  linarith

end

end Idsp
