import IdspModel.Lemmas.Lp2Sector
import IdspModel.Lemmas.Lp2Level
/-!
# Second-order lowpass: explicit safe region for input levels within `±2^29`, EVERY documented Butterworth pair

`Vmax = 5·a³·2^64·2^60`, `R = 5·a·2^32·2^29` (i.e. `|get − x| ≤ 1.25·2^30 + …`): `lp2_safe2_of_level`,
`lp2_settled_inv2`.
-/
namespace Idsp
set_option linter.unusedVariables false

def lp2Vmax2 (a : Int) : Int := 5 * a ^ 3 * 4294967296 ^ 2 * 1152921504606846976
def lp2R2 (a : Int) : Int := 5 * a * 4294967296 * 536870912

/-- `Δ ≥ 5a²` and `Δ ≥ 4096` for every documented pair (numerically `Δ ≥ 7a²`, `Δ ≥ 262143`) -/
theorem lp2_disc_ge {k a b : Int} (h : Lp2Butter k a b) : 5 * a ^ 2 ≤ lp2Disc a b ∧ 4096 ≤ lp2Disc a b := by
  have h1 := h.bsq_lt; have ha := h.a_ge; have hal := h.a_le; have hb := h.hb0; have hbl := h.b_le
  have h4 := h.four_a_le; have hbg := h.b_ge
  by_cases hbig : 400000 ≤ b
  · -- Δ > 2b² − 4M − (a+b)², a ≤ (b+2)/4
    have hbb : 400000 * b ≤ b * b := mul_le_mul_of_nonneg_right hbig (by omega)
    have e1 : 4 * a * b ≤ (b + 2) * b := mul_le_mul_of_nonneg_right h4 (by omega)
    have e2 : (4 * a) ^ 2 ≤ (b + 2) ^ 2 := pow_le_pow_left₀ (by omega) h4 2
    unfold lp2Disc
    constructor <;> nlinarith
  · have hbs : b < 400000 := by omega
    have ha18 : a ≤ 18 := by
      have h2 := h.ha0; have h3 := h.hb2
      by_contra hc
      have : 19 ≤ a := by omega
      have : (b + 1) ^ 2 ≤ 400000 ^ 2 := pow_le_pow_left₀ (by omega) (by omega) 2
      nlinarith
    unfold lp2Disc
    rcases (show a = 1 ∨ 2 ≤ a by omega) with rfl | ha2
    · have hk : k ≤ 92681 := by
        have := h.ha1
        by_contra hc
        have : 92682 ≤ k := by omega
        nlinarith
      have hb' : b ≤ 131070 := by
        have := h.hb1; have := h.hk0
        by_contra hc
        have : 131071 ≤ b := by omega
        nlinarith
      constructor <;> nlinarith
    · have e1 : a * b ≤ 18 * 400000 := by nlinarith
      have e2 : a * a ≤ 18 * 18 := by nlinarith
      constructor <;> nlinarith

theorem lp2_four_a_le_Mb {k a b : Int} (h : Lp2Butter k a b) : 4 * a ≤ 4294967296 - b := by
  have := h.a_le; have := h.b_le; omega

/-- the centred error of a settled state is at most `a·2^64·2^29` (i.e. `|get − x| ≤ 2^28 + …`), whatever the damping -/
theorem lp2_settled_Eb_le {k a b : Int} (h : Lp2Butter k a b) (xo : Int) (st : Int × Int)
    (hs : Lp2Settled a b xo st) :
    -(a * 4294967296 * 536870912) ≤ lp2Eb a b xo st.1 ∧ lp2Eb a b xo st.1 ≤ a * 4294967296 * 536870912 := by
  have ha := h.a_ge; have hbl := h.b_le; have hb := h.hb0
  have hV := lp2_settled_V_le h xo st hs
  obtain ⟨-, hD⟩ := lp2_disc_ge h
  have hext := lp2Q_extent_E a b (lp2Eb a b xo st.1) (2 * a * st.2)
  unfold lp2V at hV
  -- Δ·Ē² ≤ 4(M−b)·V ≤ 4M·16a²M³
  have h1 : 4 * (4294967296 - b) * lp2Q a b (lp2Eb a b xo st.1) (2 * a * st.2)
      ≤ 4 * 4294967296 * (16 * a ^ 2 * 4294967296 ^ 3) := by
    have hQ0 : 0 ≤ lp2Q a b (lp2Eb a b xo st.1) (2 * a * st.2) :=
      lp2Q_nonneg (by omega) (by omega) _ _
    calc 4 * (4294967296 - b) * lp2Q a b (lp2Eb a b xo st.1) (2 * a * st.2)
        ≤ 4 * 4294967296 * lp2Q a b (lp2Eb a b xo st.1) (2 * a * st.2) :=
          mul_le_mul_of_nonneg_right (by omega) hQ0
      _ ≤ _ := mul_le_mul_of_nonneg_left hV (by norm_num)
  have h2 : 4096 * lp2Eb a b xo st.1 ^ 2 ≤ lp2Disc a b * lp2Eb a b xo st.1 ^ 2 :=
    mul_le_mul_of_nonneg_right hD (sq_nonneg _)
  have h3 : lp2Eb a b xo st.1 ^ 2 ≤ (a * 4294967296 * 536870912) ^ 2 := by
    have : 4096 * lp2Eb a b xo st.1 ^ 2 ≤ 4096 * (a * 4294967296 * 536870912) ^ 2 := by
      have e : 4096 * (a * 4294967296 * 536870912) ^ 2 = 4096 * 536870912 ^ 2 * 4294967296 ^ 2 * a ^ 2 := by ring
      have e' : 4 * 4294967296 * (16 * a ^ 2 * 4294967296 ^ 3) = 64 * 4294967296 ^ 4 * a ^ 2 := by ring
      rw [e]; rw [e'] at h1
      have : (64 : Int) * 4294967296 ^ 4 * a ^ 2 ≤ 4096 * 536870912 ^ 2 * 4294967296 ^ 2 * a ^ 2 :=
        mul_le_mul_of_nonneg_right (by norm_num) (sq_nonneg a)
      linarith
    exact le_of_mul_le_mul_left this (by norm_num)
  exact abs_le_of_sq_le_sq' h3 (by positivity)

/-- **the explicit safe region**: for EVERY documented Butterworth pair and every input within `±2^29` -/
theorem lp2_safe2_of_level {k a b x : Int} (h : Lp2Butter k a b)
    (hx0 : -536870912 ≤ x) (hx1 : x ≤ 536870912) : Lp2Safe2 a b x (lp2Vmax2 a) (lp2R2 a) := by
  have ha := h.a_ge; have hal := h.a_le; have hbl := h.b_le; have hb := h.hb0; have hbg := h.b_ge
  have hA := h.adm
  have h4M := lp2_four_a_le_Mb h
  obtain ⟨hD5, hD⟩ := lp2_disc_ge h
  have hba := lp2_b_le_a h
  have ha2 : 1 ≤ a ^ 2 := by nlinarith
  have ha3 : a ^ 2 ≤ a ^ 3 := by nlinarith
  have ha4 : a ^ 3 ≤ a ^ 4 := by nlinarith
  refine ⟨2 * a * 4611686018427387904, 1610612735, by unfold lp2R2; positivity, by positivity, by norm_num,
    by omega, by omega, ?_, ?_, ?_, ?_, le_refl _, ?_⟩
  · -- (M−b+a)·Vmax ≤ a(M−b)R²
    unfold lp2Vmax2 lp2R2
    -- avoid division: compare after multiplying by 4
    have key : 4 * ((4294967296 - b + a) * (5 * a ^ 3 * 4294967296 ^ 2 * 1152921504606846976))
        ≤ 4 * (a * (4294967296 - b) * (5 * a * 4294967296 * 536870912) ^ 2) := by
      have e1 : 4 * ((4294967296 - b + a) * (5 * a ^ 3 * 4294967296 ^ 2 * 1152921504606846976))
          = (a ^ 3 * 4294967296 ^ 2 * 1152921504606846976) * (20 * (4294967296 - b + a)) := by ring
      have e2 : 4 * (a * (4294967296 - b) * (5 * a * 4294967296 * 536870912) ^ 2)
          = (a ^ 3 * 4294967296 ^ 2 * 1152921504606846976) * (25 * (4294967296 - b)) := by ring
      rw [e1, e2]
      exact mul_le_mul_of_nonneg_left (by omega) (by positivity)
    omega
  · -- velocity extent: 4a·Vmax ≤ Δ·SB² from Δ ≥ 5a²
    unfold lp2Vmax2
    have e1 : 4 * a * (5 * a ^ 3 * 4294967296 ^ 2 * 1152921504606846976)
        = (5 * a ^ 2) * (2 * a * 4611686018427387904) ^ 2 := by ring
    rw [e1]
    exact mul_le_mul_of_nonneg_right hD5 (sq_nonneg _)
  · unfold lp2R2; nlinarith
  · unfold lp2R2; nlinarith
  · -- the equilibrium level set is inside
    have h4 := h.four_a_le
    have hbb : 0 < b * (b - 2 * a) := by apply mul_pos <;> omega
    have h16 : 16 * a ^ 2 * 4294967296 ^ 3 ≤ lp2Vmax2 a := by unfold lp2Vmax2; omega
    have h1 : (a + b) ^ 2 ≤ 4 * (b * (b - 2 * a)) := by
      have h5 : (4 * (a + b)) ^ 2 ≤ (5 * b + 2) ^ 2 := pow_le_pow_left₀ (by omega) (by omega) 2
      have : 2 * (b * (b - 2 * a)) ≥ b * (b - 2) := by nlinarith
      nlinarith
    unfold lp2U
    have e1 : 4 * (4294967296 - b) * (a * (a + b) * 4294967296) ^ 2
        = (4 * a ^ 2 * 4294967296 ^ 2 * (4294967296 - b)) * (a + b) ^ 2 := by ring
    have e2 : (4 * a ^ 2 * 4294967296 ^ 2 * (4294967296 - b)) * (a + b) ^ 2
        ≤ (4 * a ^ 2 * 4294967296 ^ 2 * (4294967296 - b)) * (4 * (b * (b - 2 * a))) :=
      mul_le_mul_of_nonneg_left h1 (by have : (0 : Int) ≤ 4294967296 - b := by omega
                                       positivity)
    have e3 : (4 * a ^ 2 * 4294967296 ^ 2 * (4294967296 - b)) * (4 * (b * (b - 2 * a)))
        ≤ (4 * a ^ 2 * 4294967296 ^ 2 * 4294967296) * (4 * (b * (b - 2 * a))) :=
      mul_le_mul_of_nonneg_right (mul_le_mul_of_nonneg_left (by omega) (by positivity)) (by positivity)
    have e4 : b * (b - 2 * a) * (16 * a ^ 2 * 4294967296 ^ 3) ≤ b * (b - 2 * a) * lp2Vmax2 a :=
      mul_le_mul_of_nonneg_left h16 (le_of_lt hbb)
    rw [e1]
    calc _ ≤ _ := e2
      _ ≤ _ := e3
      _ = b * (b - 2 * a) * (16 * a ^ 2 * 4294967296 ^ 3) := by ring
      _ ≤ _ := e4

/-- every state settled at a level within `±2^29` lies in the safe region of every other such level -/
theorem lp2_settled_inv2 {k a b x xo : Int} (h : Lp2Butter k a b)
    (hx0 : -536870912 ≤ x) (hx1 : x ≤ 536870912) (ho0 : -536870912 ≤ xo) (ho1 : xo ≤ 536870912)
    (st : Int × Int) (hs : Lp2Settled a b xo st) : Lp2Inv2 a b x (lp2Vmax2 a) (lp2R2 a) st := by
  have ha := h.a_ge
  have hA := h.adm
  have hVo := lp2_settled_V_le h xo st hs
  obtain ⟨hE0, hE1⟩ := lp2_settled_Eb_le h xo st hs
  have hshift : lp2Eb a b x st.1 = lp2Eb a b xo st.1 + 2 * a * ((x - xo) * 4294967296) := by
    unfold lp2Eb; ring
  refine ⟨?_, ?_, ?_⟩
  · have hid : 9 * lp2Q a b (2 * a * ((x - xo) * 4294967296)) 0 + 72 * lp2V a b xo st - 8 * lp2V a b x st
        = lp2Q a b (2 * a * ((x - xo) * 4294967296) - 8 * lp2Eb a b xo st.1) (0 - 8 * (2 * a * st.2)) := by
      unfold lp2V lp2Eb lp2Q; ring
    have hnn := lp2Q_nonneg (show 0 < a by omega) (le_of_lt hA.hD)
      (2 * a * ((x - xo) * 4294967296) - 8 * lp2Eb a b xo st.1) (0 - 8 * (2 * a * st.2))
    have hq : lp2Q a b (2 * a * ((x - xo) * 4294967296)) 0 = 4 * a ^ 3 * 4294967296 ^ 2 * (x - xo) ^ 2 := by
      unfold lp2Q; ring
    have hdx : (x - xo) ^ 2 ≤ 1073741824 ^ 2 := sq_le_sq' (by omega) (by omega)
    have hq' : 4 * a ^ 3 * 4294967296 ^ 2 * (x - xo) ^ 2 ≤ 4 * a ^ 3 * 4294967296 ^ 2 * 1073741824 ^ 2 :=
      mul_le_mul_of_nonneg_left hdx (by positivity)
    have ha2 : 1 ≤ a ^ 2 := by nlinarith
    have ha3 : a ^ 2 ≤ a ^ 3 := by nlinarith
    rw [hq] at hid
    unfold lp2Vmax2
    omega
  · rw [hshift]; unfold lp2R2
    have : -(2 * a * (1073741824 * 4294967296)) ≤ 2 * a * ((x - xo) * 4294967296) := by nlinarith
    linarith
  · rw [hshift]; unfold lp2R2
    have : 2 * a * ((x - xo) * 4294967296) ≤ 2 * a * (1073741824 * 4294967296) := by nlinarith
    linarith

end Idsp
