import IdspModel.Lemmas.FloatModelHbfTaps
/-!
  Stage-level facts needed to propagate rounding errors through the half-band cascades: the history-only
  specifications `hbfDecSpec` / `hbfIntSpec` under the rounding model against the exact convolution (no block
  structure, any input length), the `ℓ1` gain of the exact stage, rational gain constants of the published taps.
-/
namespace Idsp
open Finset

variable {u : ℝ}

namespace FlModel

variable (M : FlModel u)

/-- decimator specification from the zero history, any input list: output `i` against the exact convolution -/
theorem fhbf_decSpec_near (taps : List ℝ) (hm : 1 ≤ taps.length) (X : List ℝ) (i : Nat) (hi : i < X.length / 2) :
    |(hbfDecSpec M.fhbfOps taps (List.replicate (taps.length - 1) 0) (List.replicate (2 * taps.length - 1) 0) X)[i]'(by
        rw [decSpec_length _ _ _ _ _ hm (by simp) (by simp)]; exact hi) -
      1 / 2 * firAt taps (zext X) (2 * i + 1)| ≤ fhbfDecBound u taps (zext X) (2 * i + 1) := by
  have hol := odds_length X
  rw [decSpec_getElem _ _ _ _ _ hm (by simp) (by simp) i hi]
  have hwl : (List.take (2 * taps.length)
      (List.drop i (List.replicate (2 * taps.length - 1) (0 : ℝ) ++ odds X))).length = 2 * taps.length := by
    simp [hol]; omega
  have hnear := (M.fhbf_dec_near taps _ hwl
    ((List.replicate (taps.length - 1) (0 : ℝ) ++ evens X)[i]'(by simp [evens_length]; omega))).1
  -- rewrite window entries as samples of the zero-extended input
  have hev : (List.replicate (taps.length - 1) (0 : ℝ) ++ evens X)[i]'(by simp [evens_length]; omega) =
      zext X (2 * (i : ℤ) + 1 - (2 * taps.length - 1)) := by
    rw [even_stream_getElem _ _ _ hm]; congr 1; ring
  have hwin : ∀ l, l < taps.length →
      (List.take (2 * taps.length) (List.drop i (List.replicate (2 * taps.length - 1) (0 : ℝ) ++ odds X))).getD l 0 =
        zext X (2 * (i : ℤ) + 1 - (4 * taps.length - 2 - 2 * l)) ∧
      (List.take (2 * taps.length) (List.drop i (List.replicate (2 * taps.length - 1) (0 : ℝ) ++ odds X))).getD
        (2 * taps.length - 1 - l) 0 = zext X (2 * (i : ℤ) + 1 - 2 * l) := by
    intro l hl
    rw [getD_eq_of_lt _ _ _ (by omega), getD_eq_of_lt _ _ _ (by omega)]
    simp only [List.getElem_take, List.getElem_drop]
    rw [odd_stream_getElem _ _ _ hm, odd_stream_getElem _ _ _ hm]
    constructor
    · congr 1; push_cast; ring
    · congr 1
      have : ((2 * taps.length - 1 - l : Nat) : Int) = 2 * taps.length - 1 - l := by omega
      push_cast [this]; ring
  have hsum : ∀ f : ℝ → ℝ, ∑ l ∈ range taps.length, f
      (((List.take (2 * taps.length) (List.drop i (List.replicate (2 * taps.length - 1) (0 : ℝ) ++ odds X))).getD l 0 +
        (List.take (2 * taps.length) (List.drop i (List.replicate (2 * taps.length - 1) (0 : ℝ) ++ odds X))).getD
          (2 * taps.length - 1 - l) 0) * taps.getD l 0) =
      ∑ l ∈ range taps.length, f ((zext X (2 * (i : ℤ) + 1 - (4 * taps.length - 2 - 2 * l)) +
        zext X (2 * (i : ℤ) + 1 - 2 * l)) * taps.getD l 0) := by
    intro f
    refine Finset.sum_congr rfl fun l hl => ?_
    obtain ⟨a, b⟩ := hwin l (Finset.mem_range.mp hl)
    rw [a, b]
  have hexact : 1 / 2 * firAt taps (zext X) (2 * i + 1) =
      1 / 2 * (zext X (2 * (i : ℤ) + 1 - (2 * taps.length - 1)) + ∑ l ∈ range taps.length,
        (zext X (2 * (i : ℤ) + 1 - (4 * taps.length - 2 - 2 * l)) + zext X (2 * (i : ℤ) + 1 - 2 * l)) *
          taps.getD l 0) := by
    rw [firAt_eq taps hm]
    congr 1
    rw [add_comm (∑ l ∈ range taps.length, _ * _), add_assoc, ← Finset.sum_add_distrib]
    congr 1
    refine Finset.sum_congr rfl fun l _ => ?_
    ring
  have s1 := hsum (fun z => z)
  have s2 := fun k : ℕ → ℕ => Finset.sum_congr (s₁ := range taps.length) rfl
    (fun l hl => by
      obtain ⟨a, b⟩ := hwin l (Finset.mem_range.mp hl)
      show gam u (k l) * |((List.take (2 * taps.length)
        (List.drop i (List.replicate (2 * taps.length - 1) (0 : ℝ) ++ odds X))).getD l 0 +
        (List.take (2 * taps.length) (List.drop i (List.replicate (2 * taps.length - 1) (0 : ℝ) ++ odds X))).getD
          (2 * taps.length - 1 - l) 0) * taps.getD l 0| =
        gam u (k l) * |(zext X (2 * (i : ℤ) + 1 - (4 * taps.length - 2 - 2 * l)) +
          zext X (2 * (i : ℤ) + 1 - 2 * l)) * taps.getD l 0|
      rw [a, b])
  rw [s1, s2 (fun l => taps.length - l + 4), hev] at hnear
  rw [hexact, hev]
  exact hnear

/-- interpolator specification from the zero history, any input list: output `k` against the exact convolution of
    the zero-stuffed input -/
theorem fhbf_intSpec_near (taps : List ℝ) (hm : 1 ≤ taps.length) (X : List ℝ) (k : Nat) (hk : k < 2 * X.length) :
    |(hbfIntSpec M.fhbfOps taps (List.replicate (2 * taps.length - 1) 0) X)[k]'(by
        rw [intSpec_length _ _ _ _ hm (by simp)]; exact hk) -
      firAt taps (zstuff X) k| ≤ if k % 2 = 0 then fhbfIntBound u taps (zstuff X) k else 0 := by
  have hlen := intSpec_length M.fhbfOps taps (List.replicate (2 * taps.length - 1) 0) X hm (by simp)
  have hlenE := intSpec_length fhbfExactOps taps (List.replicate (2 * taps.length - 1) 0) X hm (by simp)
  obtain ⟨g1, g2⟩ := intSpec_getElem M.fhbfOps taps (List.replicate (2 * taps.length - 1) 0) X hm (by simp)
    (k / 2) (by omega)
  obtain ⟨x1, x2⟩ := intSpec_getElem fhbfExactOps taps (List.replicate (2 * taps.length - 1) 0) X hm (by simp)
    (k / 2) (by omega)
  have hconv := intSpec_conv (fun x : ℝ => 1 / 2 * x) taps X hm k hk
  rw [← hconv]
  rcases Nat.mod_two_eq_zero_or_one k with hj | hj
  · rw [if_pos hj]
    have e : k = 2 * (k / 2) := by omega
    have c1 : (hbfIntSpec M.fhbfOps taps (List.replicate (2 * taps.length - 1) 0) X)[k]'(by rw [hlen]; exact hk) =
        (hbfIntSpec M.fhbfOps taps (List.replicate (2 * taps.length - 1) 0) X)[2 * (k / 2)]'(by rw [hlen]; omega) := by
      congr 1
    have c2 : (hbfIntSpec (ringOps fun x : ℝ => 1 / 2 * x) taps (List.replicate (2 * taps.length - 1) 0) X)[k]'(by
          rw [intSpec_length _ _ _ _ hm (by simp)]; exact hk) =
        (hbfIntSpec fhbfExactOps taps (List.replicate (2 * taps.length - 1) 0) X)[2 * (k / 2)]'(by
          rw [hlenE]; omega) := by
      congr 1
    rw [c1, c2, g1, x1]
    have hwl : (List.take (2 * taps.length)
        (List.drop (k / 2) (List.replicate (2 * taps.length - 1) (0 : ℝ) ++ X))).length = 2 * taps.length := by
      simp; omega
    have hnear := (M.fhbf_firTap_near taps _ hwl).1
    rw [show firTap fhbfExactOps taps _ = _ from firTap_ring (fun x : ℝ => 1 / 2 * x) taps _ hwl]
    refine hnear.trans (le_of_eq ?_)
    unfold fhbfIntBound
    refine Finset.sum_congr rfl fun l hl => ?_
    have hl' := Finset.mem_range.mp hl
    rw [getD_eq_of_lt _ _ _ (by omega), getD_eq_of_lt _ _ _ (by omega)]
    simp only [List.getElem_take, List.getElem_drop]
    rw [int_stream_getElem, int_stream_getElem,
      zstuff_even X ((k : ℤ) - 2 * l) ((k / 2 : Nat) - l) (by omega),
      zstuff_even X ((k : ℤ) - (4 * taps.length - 2 - 2 * l)) ((k / 2 : Nat) - (2 * taps.length - 1) + l) (by omega)]
    have e1 : ((k / 2 + l : Nat) : Int) - (2 * taps.length - 1 : Nat) = (k / 2 : Nat) - (2 * taps.length - 1) + l := by
      omega
    have e2 : ((k / 2 + (2 * taps.length - 1 - l) : Nat) : Int) - (2 * taps.length - 1 : Nat) = (k / 2 : Nat) - l := by
      omega
    rw [e1, e2]
  · rw [if_neg (by omega)]
    have e : k = 2 * (k / 2) + 1 := by omega
    have c1 : (hbfIntSpec M.fhbfOps taps (List.replicate (2 * taps.length - 1) 0) X)[k]'(by rw [hlen]; exact hk) =
        (hbfIntSpec M.fhbfOps taps (List.replicate (2 * taps.length - 1) 0) X)[2 * (k / 2) + 1]'(by
          rw [hlen]; omega) := by
      congr 1
    have c2 : (hbfIntSpec (ringOps fun x : ℝ => 1 / 2 * x) taps (List.replicate (2 * taps.length - 1) 0) X)[k]'(by
          rw [intSpec_length _ _ _ _ hm (by simp)]; exact hk) =
        (hbfIntSpec fhbfExactOps taps (List.replicate (2 * taps.length - 1) 0) X)[2 * (k / 2) + 1]'(by
          rw [hlenE]; omega) := by
      congr 1
    rw [c1, c2, g2, x2, sub_self, abs_zero]

end FlModel

/-! ### `ℓ1` gain of the exact stage -/

theorem fhbf_firAt_zero (taps : List ℝ) (n : ℤ) : firAt taps (fun _ => 0) n = 0 := by
  simp [firAt]

/-- the exact FIR is `(1 + 2Σ|t|)`-Lipschitz in the sup norm -/
theorem fhbf_firAt_sub_le (taps : List ℝ) (hm : 1 ≤ taps.length) (w w' : ℤ → ℝ) (D : ℝ)
    (h : ∀ k, |w k - w' k| ≤ D) (n : ℤ) :
    |firAt taps w n - firAt taps w' n| ≤ (1 + 2 * fhbfTapNorm taps) * D := by
  rw [firAt_eq taps hm, firAt_eq taps hm]
  have key : ∀ f : ℕ → ℤ, |∑ l ∈ range taps.length, taps.getD l 0 * w (f l) -
      ∑ l ∈ range taps.length, taps.getD l 0 * w' (f l)| ≤ fhbfTapNorm taps * D := by
    intro f
    rw [← Finset.sum_sub_distrib]
    refine (Finset.abs_sum_le_sum_abs _ _).trans ?_
    unfold fhbfTapNorm
    rw [Finset.sum_mul]
    refine Finset.sum_le_sum fun l _ => ?_
    rw [← mul_sub, abs_mul]
    exact mul_le_mul_of_nonneg_left (h _) (abs_nonneg _)
  have k1 := key (fun l => n - 2 * l)
  have k2 := key (fun l => n - (4 * taps.length - 2 - 2 * l))
  have k3 := h (n - (2 * taps.length - 1))
  have e : ∀ a b c a' b' c' : ℝ, a + b + c - (a' + b' + c') = (a - a') + (b - b') + (c - c') := by
    intros; ring
  rw [e]
  refine (abs_add_le _ _).trans ?_
  have := abs_add_le (∑ l ∈ range taps.length, taps.getD l 0 * w (n - 2 * l) -
      ∑ l ∈ range taps.length, taps.getD l 0 * w' (n - 2 * l))
    (w (n - (2 * taps.length - 1)) - w' (n - (2 * taps.length - 1)))
  linarith

/-- for zero-stuffed sequences only one phase of the FIR is active: the gain is `max 1 (2Σ|t|)` -/
theorem fhbf_firAt_zstuff_sub_le (taps : List ℝ) (hm : 1 ≤ taps.length) (X X' : List ℝ) (D : ℝ)
    (h : ∀ k, |zext X k - zext X' k| ≤ D) (k : ℕ) :
    |firAt taps (zstuff X) k - firAt taps (zstuff X') k| ≤ max 1 (2 * fhbfTapNorm taps) * D := by
  have hD : 0 ≤ D := (abs_nonneg _).trans (h 0)
  have hst : ∀ n, |zstuff X n - zstuff X' n| ≤ D := by
    intro n
    unfold zstuff
    split
    · exact h _
    · simpa using hD
  rw [firAt_eq taps hm, firAt_eq taps hm]
  rcases Nat.mod_two_eq_zero_or_one k with hj | hj
  · -- even output: centre tap sits on a stuffed zero
    rw [zstuff_odd X ((k : ℤ) - (2 * taps.length - 1)) (by omega),
      zstuff_odd X' ((k : ℤ) - (2 * taps.length - 1)) (by omega)]
    have key : ∀ f : ℕ → ℤ, |∑ l ∈ range taps.length, taps.getD l 0 * zstuff X (f l) -
        ∑ l ∈ range taps.length, taps.getD l 0 * zstuff X' (f l)| ≤ fhbfTapNorm taps * D := by
      intro f
      rw [← Finset.sum_sub_distrib]
      refine (Finset.abs_sum_le_sum_abs _ _).trans ?_
      unfold fhbfTapNorm
      rw [Finset.sum_mul]
      refine Finset.sum_le_sum fun l _ => ?_
      rw [← mul_sub, abs_mul]
      exact mul_le_mul_of_nonneg_left (hst _) (abs_nonneg _)
    have k1 := key (fun l => (k : ℤ) - 2 * l)
    have k2 := key (fun l => (k : ℤ) - (4 * taps.length - 2 - 2 * l))
    have e : ∀ a c a' c' : ℝ, a + 0 + c - (a' + 0 + c') = (a - a') + (c - c') := by intros; ring
    rw [e]
    refine (abs_add_le _ _).trans ?_
    have : 2 * fhbfTapNorm taps * D ≤ max 1 (2 * fhbfTapNorm taps) * D :=
      mul_le_mul_of_nonneg_right (le_max_right _ _) hD
    linarith
  · -- odd output: only the centre tap
    have z : ∀ (Y : List ℝ) (f : ℕ → ℤ), (∀ l, f l % 2 = 1) →
        ∑ l ∈ range taps.length, taps.getD l 0 * zstuff Y (f l) = 0 := by
      intro Y f hf
      refine Finset.sum_eq_zero fun l _ => ?_
      rw [zstuff_odd Y _ (hf l), mul_zero]
    rw [z X (fun l => (k : ℤ) - 2 * l) (fun l => by omega),
      z X' (fun l => (k : ℤ) - 2 * l) (fun l => by omega),
      z X (fun l => (k : ℤ) - (4 * taps.length - 2 - 2 * l)) (fun l => by omega),
      z X' (fun l => (k : ℤ) - (4 * taps.length - 2 - 2 * l)) (fun l => by omega)]
    have e : ∀ b b' : ℝ, 0 + b + 0 - (0 + b' + 0) = b - b' := by intros; ring
    rw [e]
    refine (hst _).trans ?_
    have : 1 * D ≤ max 1 (2 * fhbfTapNorm taps) * D := mul_le_mul_of_nonneg_right (le_max_left _ _) hD
    linarith

/-- two lists of the same length that are pointwise `D`-close have `D`-close zero extensions -/
theorem fhbf_zext_sub_le (X X' : List ℝ) (D : ℝ) (hD : 0 ≤ D) (hl : X.length = X'.length)
    (h : ∀ i (h1 : i < X.length) (h2 : i < X'.length), |X[i] - X'[i]| ≤ D) (k : ℤ) :
    |zext X k - zext X' k| ≤ D := by
  unfold zext
  split
  · by_cases hk : k.toNat < X.length
    · rw [getD_eq_of_lt _ _ _ hk, getD_eq_of_lt _ _ _ (by omega)]
      exact h _ hk (by omega)
    · rw [List.getD_eq_getElem?_getD, List.getD_eq_getElem?_getD, List.getElem?_eq_none (by omega),
        List.getElem?_eq_none (by omega)]
      simpa using hD
  · simpa using hD

/-! ### rational constants of the published taps -/

def fhbfTapNormQ (taps : List ℚ) : ℚ := (taps.map fun t => |t|).sum

theorem fhbfTapNorm_eq_sum (taps : List ℝ) : fhbfTapNorm taps = (taps.map fun t => |t|).sum := by
  unfold fhbfTapNorm
  induction taps with
  | nil => simp
  | cons t ts ih =>
    rw [List.length_cons, Finset.sum_range_succ']
    simp only [List.getD_cons_succ, List.getD_cons_zero, List.map_cons, List.sum_cons]
    rw [ih, add_comm]

theorem fhbfTapNorm_cast (taps : List ℚ) :
    fhbfTapNorm (taps.map (Rat.cast : ℚ → ℝ)) = ((fhbfTapNormQ taps : ℚ) : ℝ) := by
  rw [fhbfTapNorm_eq_sum, fhbfTapNormQ]
  induction taps with
  | nil => simp
  | cons t ts ih =>
    simp only [List.map_cons, List.sum_cons] at ih ⊢
    rw [ih]
    push_cast
    rfl

/-- upper bounds of the exact stages' gains: decimator `½ + Σ|t| = ½·Σ|h|`, interpolator `max 1 (2Σ|t|)` -/
def fhbfDecGainQ : ℕ → ℚ
  | 0 => 173 / 100 | 1 => 29 / 20 | 2 => 13 / 10 | 3 => 5 / 4 | _ => 6 / 5
def fhbfIntGainQ : ℕ → ℚ
  | 0 => 49 / 20 | 1 => 189 / 100 | 2 => 8 / 5 | 3 => 3 / 2 | _ => 7 / 5

set_option maxRecDepth 4000 in
theorem fhbfGainQ_ok (j : ℕ) :
    1 / 2 + fhbfTapNormQ (hbfTapsQ j) ≤ fhbfDecGainQ j ∧ 2 * fhbfTapNormQ (hbfTapsQ j) ≤ fhbfIntGainQ j ∧
      1 ≤ fhbfIntGainQ j := by
  match j with
  | 0 => decide +kernel
  | 1 => decide +kernel
  | 2 => decide +kernel
  | 3 => decide +kernel
  | n + 4 =>
    show 1 / 2 + fhbfTapNormQ hbfTapsQ4 ≤ 6 / 5 ∧ 2 * fhbfTapNormQ hbfTapsQ4 ≤ 7 / 5 ∧ (1 : ℚ) ≤ 7 / 5
    decide +kernel

theorem fhbfDecGain_ok (j : ℕ) : 1 / 2 + fhbfTapNorm (fhbfTapsR j) ≤ ((fhbfDecGainQ j : ℚ) : ℝ) := by
  rw [fhbfTapsR, fhbfTapNorm_cast]
  have h : ((1 / 2 + fhbfTapNormQ (hbfTapsQ j) : ℚ) : ℝ) ≤ ((fhbfDecGainQ j : ℚ) : ℝ) :=
    Rat.cast_le.mpr (fhbfGainQ_ok j).1
  push_cast at h
  exact h

theorem fhbfIntGain_ok (j : ℕ) : max 1 (2 * fhbfTapNorm (fhbfTapsR j)) ≤ ((fhbfIntGainQ j : ℚ) : ℝ) := by
  rw [fhbfTapsR, fhbfTapNorm_cast]
  have h : ((2 * fhbfTapNormQ (hbfTapsQ j) : ℚ) : ℝ) ≤ ((fhbfIntGainQ j : ℚ) : ℝ) :=
    Rat.cast_le.mpr (fhbfGainQ_ok j).2.1
  have h1 : ((1 : ℚ) : ℝ) ≤ ((fhbfIntGainQ j : ℚ) : ℝ) := Rat.cast_le.mpr (fhbfGainQ_ok j).2.2
  push_cast at h h1
  exact max_le h1 h

end Idsp
