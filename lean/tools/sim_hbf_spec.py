#!/usr/bin/env python3
"""Untrusted Python mirror of the reflective bound checker in IdspModel/Lemmas/HbfSpecCheck.lean (exact integer
arithmetic, same cell/bisection logic).  Used to choose thresholds and grid constants and to predict the number of
bisection leaves before running the kernel; nothing in the Lean development depends on it.

usage: sim_hbf_spec.py [stop_num stop_den  pass_lo pass_hi pass_den]
       defaults: 1 10000000   999999770 1000000230 1000000000
"""
import sys, time, math
from fractions import Fraction as F
from decimal import Decimal, getcontext
sys.path.insert(0, __import__('os').path.dirname(__file__))
import importlib.util, os, re, struct

# --- taps: same extraction as gen_hbf_spec.py
spec = importlib.util.spec_from_file_location("gen", os.path.join(os.path.dirname(os.path.abspath(__file__)), "gen_hbf_spec.py"))
src = open(spec.origin).read().split("def qlit")[0]
ns = {'__file__': spec.origin}; exec(src, ns); TAPS = ns['TAPS']

B = 24
E = [max(t.denominator.bit_length() - 1 for t in row) for row in TAPS]
NUM = [[int(t * 2 ** E[j]) for t in row] for j, row in enumerate(TAPS)]

def padd(p, q):
    n = max(len(p), len(q)); return [(p[i] if i < len(p) else 0) + (q[i] if i < len(q) else 0) for i in range(n)]
def pscale(a, p): return [a * x for x in p]
def pmullin(n, p): return padd(pscale(n, p), [0] + p)
def stageQ(j, n):
    """integer polynomial Q(v) = 2^(E+B*deg) * A_j(theta), cos theta = (n+v)/2^B"""
    M = len(NUM[j]); deg = 2 * M - 1
    Sm, S = [1], [n, 1]
    Q = [2 ** (E[j] + B * deg)]
    for k in range(1, deg + 1):
        if k % 2 == 1:
            Q = padd(Q, pscale(2 * NUM[j][M - 1 - (k - 1) // 2] * 2 ** (B * (deg - k)), S))
        Sm, S = S, padd(pscale(2, pmullin(n, S)), pscale(-4 ** B, Sm))
    return Q
def stageBound(j, lo, hi):
    n = (lo + hi) // 2; rho = max(hi - n, n - lo)
    Q = stageQ(j, n); R = 0
    for a in reversed(Q[1:]): R = rho * (abs(a) + R)
    return Q[0] - R, Q[0] + R
def scale(j): return 2 ** (E[j] + 1 + B * (2 * len(NUM[j]) - 1))
def sqmap(lo, hi):
    if lo >= 0: a, b = lo * lo, hi * hi
    elif hi <= 0: a, b = hi * hi, lo * lo
    else: a, b = 0, max(lo * lo, hi * hi)
    return (2 * a - 4 ** B) // 2 ** B, -((-(2 * b - 4 ** B)) // 2 ** B)
def leaf_abs(d, lo, hi, tn, td):
    num = den = 1
    for j in range(d - 1, -1, -1):
        a, b = stageBound(j, lo, hi)
        num *= max(abs(a), abs(b)); den *= scale(j)
        lo, hi = sqmap(lo, hi)
    return num * td <= tn * den
def leaf_pos(d, lo, hi, tl, th, td):
    nl = nh = den = 1
    for j in range(d - 1, -1, -1):
        a, b = stageBound(j, lo, hi)
        if a < 0: return False
        nl *= a; nh *= b; den *= scale(j)
        lo, hi = sqmap(lo, hi)
    return tl * den <= nl * td and nh * td <= th * den
def bisect(leaf, lo, hi, out, depth=0):
    if leaf(lo, hi): out.append((lo, hi, depth)); return
    assert hi - lo >= 2, (lo, hi)
    mid = (lo + hi) // 2
    bisect(leaf, lo, mid, out, depth + 1); bisect(leaf, mid, hi, out, depth + 1)

def edges():
    """12-digit rational enclosures of cos(0.6 pi / 2^k) (upper) and cos(0.4 pi / 2^k) (lower), k = 0..3"""
    getcontext().prec = 60
    c = (Decimal(5).sqrt() - 1) / 4; Q = 10 ** 12
    D = lambda fr: Decimal(fr.numerator) / Decimal(fr.denominator)
    up = lambda x: F(int(x * Q) + 1, Q) if x >= 0 else F(-int(-x * Q), Q)
    dn = lambda x: F(int(x * Q), Q) if x >= 0 else F(-int(-x * Q) - 1, Q)
    U = [up(-c)]; L = [dn(c)]
    for k in range(3):
        U.append(up(((1 + D(U[-1])) / 2).sqrt())); L.append(dn(((1 + D(L[-1])) / 2).sqrt()))
    return U, L

if __name__ == '__main__':
    a = [int(x) for x in sys.argv[1:]] or [1, 10 ** 7, 999999770, 1000000230, 10 ** 9]
    U, L = edges()
    print("stop edges (upper bounds of cos(0.6 pi/2^k))", [float(u) for u in U], [math.ceil(u * 2 ** B) for u in U])
    print("pass edges (lower bounds of cos(0.4 pi/2^k))", [float(l) for l in L], [math.floor(l * 2 ** B) for l in L])
    for d in range(1, 5):
        out = []; t = time.time()
        bisect(lambda lo, hi: leaf_abs(d, lo, hi, a[0], a[1]), -2 ** B, math.ceil(U[d - 1] * 2 ** B), out)
        print(f"depth {d} stop band: {len(out)} leaves, max depth {max(o[2] for o in out)}, {time.time()-t:.2f}s")
        out = []; t = time.time()
        bisect(lambda lo, hi: leaf_pos(d, lo, hi, a[2], a[3], a[4]), math.floor(L[d - 1] * 2 ** B), 2 ** B, out)
        print(f"depth {d} pass band: {len(out)} leaves, max depth {max(o[2] for o in out)}, {time.time()-t:.2f}s")
