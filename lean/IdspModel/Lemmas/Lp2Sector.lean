import IdspModel.Lemmas.Lp2Butter
/-!
# Second-order lowpass: a sharper invariant region (sector argument)

The sublevel sets of the invariant form `Q` are tilted ellipses whose extent in the `E` direction is `√2 … ∞` times
the start error.  Here the ellipse is cut down: the position error can only move away from zero while the
velocity has the opposite sign, and in those two sectors the cross term of `Q` is non-negative, so that
`a·Ē² ≤ Q`.  The region `V ≤ Vmax ∧ |Ē| ≤ R` with `a(2^32−b)·R² ≥ (2^32−b+a)·Vmax` is forward invariant
(`lp2_sector_lower`, `lp2_inv2_step`) — independently of how close the characteristic roots are to a double root.
-/
namespace Idsp
set_option linter.unusedVariables false

theorem lp2Q_neg (a b E s : Int) : lp2Q a b (-E) (-s) = lp2Q a b E s := by unfold lp2Q; ring

/-- one-sided sector lemma, strong form: in one step the centred position error either stays above `-R` or does
    not decrease -/
theorem lp2_sector_lower' {a b E s E' s' R SB Vmax : Int} (ha : 0 < a) (hab : a < b) (hbM : b < 4294967296)
    (hR : 0 ≤ R) (hSBR : SB ≤ R) (hs : s ≤ SB)
    (hRV : (4294967296 - b + a) * Vmax ≤ a * (4294967296 - b) * R ^ 2)
    (hV : lp2Q a b E s ≤ Vmax) (hV' : lp2Q a b E' s' ≤ Vmax)
    (hstep : E' = E - (s + s')) : -R ≤ E' ∨ E ≤ E' := by
  have hc : (0 : Int) < 4294967296 - b := by omega
  by_cases h0 : 0 ≤ E'
  · left; omega
  have hE'neg : E' < 0 := by omega
  by_cases hσ : s + s' ≤ 0
  · right; omega
  left
  have hσ' : 0 < s + s' := by omega
  by_cases hs' : 0 ≤ s'
  · -- region II at the new state: a·E'² ≤ V'
    have hcross : 0 ≤ -((b - a) * E' * s') := by
      have : (b - a) * E' * s' ≤ 0 := by
        have h1 : (b - a) * E' ≤ 0 := by nlinarith
        exact mul_nonpos_of_nonpos_of_nonneg h1 hs'
      omega
    have h1 : a * E' ^ 2 ≤ Vmax := by
      have : a * E' ^ 2 ≤ lp2Q a b E' s' := by
        unfold lp2Q; nlinarith [mul_nonneg (le_of_lt hc) (sq_nonneg s')]
      linarith
    have hV0 : 0 ≤ Vmax := le_trans (by positivity) h1
    have h2 : a * (4294967296 - b) * E' ^ 2 ≤ a * (4294967296 - b) * R ^ 2 := by nlinarith
    have h3 : E' ^ 2 ≤ R ^ 2 := le_of_mul_le_mul_left h2 (by positivity)
    exact (abs_le_of_sq_le_sq' h3 hR).1
  · have hs'neg : s' < 0 := by omega
    have hspos : 0 < s := by omega
    by_cases hE0 : 0 ≤ E
    · omega
    · have hEneg : E < 0 := by omega
      -- region II at the old state
      have hcross : 0 ≤ -((b - a) * E * s) := by
        have : (b - a) * E * s ≤ 0 := by
          have h1 : (b - a) * E ≤ 0 := by nlinarith
          exact mul_nonpos_of_nonpos_of_nonneg h1 (le_of_lt hspos)
        omega
      have h1 : a * E ^ 2 + (4294967296 - b) * s ^ 2 ≤ Vmax := by
        have : a * E ^ 2 + (4294967296 - b) * s ^ 2 ≤ lp2Q a b E s := by unfold lp2Q; nlinarith
        linarith
      have hid : (a * E ^ 2 + (4294967296 - b) * s ^ 2) * (4294967296 - b + a)
          - a * (4294967296 - b) * (-E + s) ^ 2 = (a * (-E) - (4294967296 - b) * s) ^ 2 := by ring
      have h2 : a * (4294967296 - b) * (-E + s) ^ 2 ≤ a * (4294967296 - b) * R ^ 2 := by
        have : (a * E ^ 2 + (4294967296 - b) * s ^ 2) * (4294967296 - b + a)
            ≤ Vmax * (4294967296 - b + a) := mul_le_mul_of_nonneg_right h1 (by omega)
        nlinarith [sq_nonneg (a * (-E) - (4294967296 - b) * s)]
      have h3 : (-E + s) ^ 2 ≤ R ^ 2 := le_of_mul_le_mul_left h2 (by positivity)
      have := (abs_le_of_sq_le_sq' h3 hR).2
      omega

/-- one-sided sector lemma, strong form, upper side -/
theorem lp2_sector_upper' {a b E s E' s' R SB Vmax : Int} (ha : 0 < a) (hab : a < b) (hbM : b < 4294967296)
    (hR : 0 ≤ R) (hSBR : SB ≤ R) (hs : -SB ≤ s)
    (hRV : (4294967296 - b + a) * Vmax ≤ a * (4294967296 - b) * R ^ 2)
    (hV : lp2Q a b E s ≤ Vmax) (hV' : lp2Q a b E' s' ≤ Vmax)
    (hstep : E' = E - (s + s')) : E' ≤ R ∨ E' ≤ E := by
  have := lp2_sector_lower' (E := -E) (s := -s) (E' := -E') (s' := -s') ha hab hbM hR hSBR (by omega) hRV
    (by rw [lp2Q_neg]; exact hV) (by rw [lp2Q_neg]; exact hV') (by omega)
  omega

/-- one-sided sector lemma: the centred position error cannot fall below `-R` -/
theorem lp2_sector_lower {a b E s E' s' R SB Vmax : Int} (ha : 0 < a) (hab : a < b) (hbM : b < 4294967296)
    (hR : 0 ≤ R) (hSBR : SB ≤ R) (hs : s ≤ SB)
    (hRV : (4294967296 - b + a) * Vmax ≤ a * (4294967296 - b) * R ^ 2)
    (hV : lp2Q a b E s ≤ Vmax) (hV' : lp2Q a b E' s' ≤ Vmax)
    (hstep : E' = E - (s + s')) (hE : -R ≤ E) : -R ≤ E' := by
  rcases lp2_sector_lower' ha hab hbM hR hSBR hs hRV hV hV' hstep with h | h <;> omega

/-- two-sided sector lemma -/
theorem lp2_sector {a b E s E' s' R SB Vmax : Int} (ha : 0 < a) (hab : a < b) (hbM : b < 4294967296)
    (hR : 0 ≤ R) (hSBR : SB ≤ R) (hs0 : -SB ≤ s) (hs1 : s ≤ SB)
    (hRV : (4294967296 - b + a) * Vmax ≤ a * (4294967296 - b) * R ^ 2)
    (hV : lp2Q a b E s ≤ Vmax) (hV' : lp2Q a b E' s' ≤ Vmax)
    (hstep : E' = E - (s + s')) (hE0 : -R ≤ E) (hE1 : E ≤ R) : -R ≤ E' ∧ E' ≤ R := by
  constructor
  · exact lp2_sector_lower ha hab hbM hR hSBR hs1 hRV hV hV' hstep hE0
  · have := lp2_sector_lower (E := -E) (s := -s) (E' := -E') (s' := -s') ha hab hbM hR hSBR (by omega) hRV
      (by rw [lp2Q_neg]; exact hV) (by rw [lp2Q_neg]; exact hV') (by omega) (by omega)
    omega

/-- `Vmax`, `R` describe a safe region for input `x`: `V ≤ Vmax ∧ |Ē| ≤ R` lies in the overflow-free box and
    contains the equilibrium level set -/
def Lp2Safe2 (a b x Vmax R : Int) : Prop :=
  ∃ SB G : Int, 0 ≤ R ∧ 0 ≤ SB ∧ 0 ≤ G ∧ -2147483647 + G ≤ x ∧ x + G ≤ 2147483647 ∧
    (4294967296 - b + a) * Vmax ≤ a * (4294967296 - b) * R ^ 2 ∧ 4 * a * Vmax ≤ lp2Disc a b * SB ^ 2 ∧
    SB ≤ R ∧ R + (a + b) * 4294967296 ≤ 2 * a * G * 4294967296 ∧ SB ≤ 2 * a * 4611686018427387904 ∧
    4 * (4294967296 - b) * lp2U a b ^ 2 ≤ b * (b - 2 * a) * Vmax

def Lp2Inv2 (a b x Vmax R : Int) (st : Int × Int) : Prop :=
  lp2V a b x st ≤ Vmax ∧ -R ≤ lp2Eb a b x st.1 ∧ lp2Eb a b x st.1 ≤ R

theorem lp2_box_of_inv2 {a b x : Int} (st : Int × Int) (R SB G Vmax : Int) (ha : 0 < a)
    (hD : 0 < lp2Disc a b) (hb : 0 < b) (hSB0 : 0 ≤ SB) (hG : 0 ≤ G)
    (hx0 : -2147483647 + G ≤ x) (hx1 : x + G ≤ 2147483647)
    (hS : 4 * a * Vmax ≤ lp2Disc a b * SB ^ 2)
    (hEG : R + (a + b) * 4294967296 ≤ 2 * a * G * 4294967296) (hSG : SB ≤ 2 * a * 4611686018427387904)
    (hI : Lp2Inv2 a b x Vmax R st) :
    Lp2Box x st ∧ -SB ≤ 2 * a * st.2 ∧ 2 * a * st.2 ≤ SB := by
  obtain ⟨s0, s1⟩ := st
  obtain ⟨hV, hE3, hE4⟩ := hI
  unfold lp2V at hV
  simp only at hV hE3 hE4
  have e2 := lp2Q_extent_s a b (lp2Eb a b x s0) (2 * a * s1)
  have hS2 : (2 * a * s1) ^ 2 ≤ SB ^ 2 := by
    have : 4 * a * lp2Q a b (lp2Eb a b x s0) (2 * a * s1) ≤ 4 * a * Vmax :=
      mul_le_mul_of_nonneg_left hV (by omega)
    exact le_of_mul_le_mul_left (by linarith) hD
  obtain ⟨hS3, hS4⟩ := abs_le_of_sq_le_sq' hS2 hSB0
  unfold lp2Eb at hE3 hE4
  have h1 : 2 * a * (x * 4294967296 - s0) ≤ 2 * a * (G * 4294967296) := by nlinarith
  have h2 : 2 * a * (-(G * 4294967296)) ≤ 2 * a * (x * 4294967296 - s0) := by nlinarith
  have h3 : 2 * a * s1 ≤ 2 * a * 4611686018427387904 := by linarith
  have h4 : 2 * a * (-4611686018427387904) ≤ 2 * a * s1 := by linarith
  have ha2 : (0 : Int) < 2 * a := by omega
  have g1 := le_of_mul_le_mul_left h1 ha2
  have g2 := le_of_mul_le_mul_left h2 ha2
  have g3 := le_of_mul_le_mul_left h3 ha2
  have g4 := le_of_mul_le_mul_left h4 ha2
  refine ⟨?_, hS3, hS4⟩
  unfold Lp2Box
  simp only
  refine ⟨by omega, by omega, by omega, by omega, by omega, by omega⟩

/-- **one update inside the sharper safe region** -/
theorem lp2_inv2_step (m : Mode) {a b x Vmax R : Int} (st : Int × Int) (hA : Lp2Adm a b)
    (hS : Lp2Safe2 a b x Vmax R) (hI : Lp2Inv2 a b x Vmax R st) :
    lp2Update m st.1 st.2 x a (-b)
      = .ok ((lp2Next x a (-b) st).1, (lp2Next x a (-b) st).2, lp2Mid x a (-b) st / 4294967296) ∧
    Lp2Inv2 a b x Vmax R (lp2Next x a (-b) st) ∧
    (4 * (4294967296 - b) * lp2U a b ^ 2 < b * (b - 2 * a) * lp2V a b x st →
      lp2V a b x (lp2Next x a (-b) st) < lp2V a b x st) ∧
    (b * (b - 2 * a) * lp2V a b x st ≤ 4 * (4294967296 - b) * lp2U a b ^ 2 →
      b * (b - 2 * a) * lp2V a b x (lp2Next x a (-b) st) ≤ 4 * (4294967296 - b) * lp2U a b ^ 2) := by
  obtain ⟨ha0, ha1, hba, hb1, hD⟩ := hA
  obtain ⟨SB, G, hR0, hSB0, hG, hx0, hx1, hRV, hSs, hSBR, hEG, hSG, hLs⟩ := hS
  have ha : 0 < a := by omega
  have hb : 0 < b := by omega
  obtain ⟨u, hu, hrE, hrs⟩ := lp2_centered_rec x a b st ha hb
  have hdesc := lp2Q_descent_star ha (le_of_lt hD) hb hb1 hba _ _ _ _ u (lp2U a b) hrE hrs hu
  have hinv := lp2Q_invariant_star ha (le_of_lt hD) hb hb1 hba _ _ _ _ u (lp2U a b) hrE hrs hu
  have hbb : 0 < b * (b - 2 * a) := by apply mul_pos <;> omega
  have hV := hI.1
  have hV' : lp2V a b x (lp2Next x a (-b) st) ≤ Vmax := by
    unfold lp2V
    by_cases hc : 4 * (4294967296 - b) * lp2U a b ^ 2 < b * (b - 2 * a) * lp2V a b x st
    · have := hdesc hc
      unfold lp2V at hV
      linarith
    · have h1 := hinv (not_lt.mp hc)
      have h2 : b * (b - 2 * a) * lp2Q a b (lp2Eb a b x (lp2Next x a (-b) st).1) (2 * a * (lp2Next x a (-b) st).2)
          ≤ b * (b - 2 * a) * Vmax := by linarith
      exact le_of_mul_le_mul_left h2 hbb
  obtain ⟨hbox, hsb0, hsb1⟩ := lp2_box_of_inv2 st R SB G Vmax ha hD hb hSB0 hG hx0 hx1 hSs hEG hSG hI
  have hstepE : lp2Eb a b x (lp2Next x a (-b) st).1
      = lp2Eb a b x st.1 - (2 * a * st.2 + 2 * a * (lp2Next x a (-b) st).2) := by
    unfold lp2Eb lp2Next; ring
  have hsec := lp2_sector (a := a) (b := b) ha (by omega) (by omega) hR0 hSBR hsb0 hsb1 hRV
    (by unfold lp2V at hV; exact hV) (by unfold lp2V at hV'; exact hV') hstepE hI.2.1 hI.2.2
  have hI' : Lp2Inv2 a b x Vmax R (lp2Next x a (-b) st) := ⟨hV', hsec.1, hsec.2⟩
  obtain ⟨hbox', -, -⟩ := lp2_box_of_inv2 (lp2Next x a (-b) st) R SB G Vmax ha hD hb hSB0 hG hx0 hx1 hSs hEG hSG hI'
  refine ⟨?_, hI', hdesc, hinv⟩
  exact lp2_step_box m x a (-b) st (by omega) (by omega) (by omega) (by omega) hbox hbox'

theorem lp2_seq_inv2 {a b x Vmax R : Int} (hA : Lp2Adm a b) (hS : Lp2Safe2 a b x Vmax R) (n : Nat)
    (st : Int × Int) (hI : Lp2Inv2 a b x Vmax R st) : Lp2Inv2 a b x Vmax R (lp2Seq x a (-b) n st) := by
  induction n generalizing st with
  | zero => exact hI
  | succ n ih => exact ih _ (lp2_inv2_step .release st hA hS hI).2.1

theorem lp2_seq_run2 (m : Mode) {a b x Vmax R : Int} (hA : Lp2Adm a b) (hS : Lp2Safe2 a b x Vmax R) (n : Nat)
    (st : Int × Int) (hI : Lp2Inv2 a b x Vmax R st) :
    lp2Iter m x a (-b) n st
      = .ok ((lp2Seq x a (-b) n st).1, (lp2Seq x a (-b) n st).2, (lp2Seq x a (-b) n st).1 / 4294967296) := by
  induction n generalizing st with
  | zero =>
    obtain ⟨SB, G, hR0, hSB0, hG, hx0, hx1, hRV, hSs, hSBR, hEG, hSG, hLs⟩ := hS
    obtain ⟨hbx, -, -⟩ := lp2_box_of_inv2 st R SB G Vmax (by have := hA.ha0; omega) hA.hD
      (by have := hA.hba; have := hA.ha0; omega) hSB0 hG hx0 hx1 hSs hEG hSG hI
    obtain ⟨s0, s1⟩ := st
    simp only [lp2Iter, lp2Seq]
    rw [lp2_lpGet_eq hbx.1 hbx.2.1]
  | succ n ih =>
    obtain ⟨hstep, hI', -⟩ := lp2_inv2_step m st hA hS hI
    have := ih _ hI'
    obtain ⟨s0, s1⟩ := st
    simp only [lp2Iter, lp2Seq]
    simp only at hstep
    rw [hstep]
    simp only [bind_ok']
    exact this

theorem lp2_seq_eventually2 {a b x Vmax R : Int} (hA : Lp2Adm a b) (hS : Lp2Safe2 a b x Vmax R)
    (st : Int × Int) (hI : Lp2Inv2 a b x Vmax R st) :
    ∃ N : Nat, ∀ n, N ≤ n →
      b * (b - 2 * a) * lp2V a b x (lp2Seq x a (-b) n st) ≤ 4 * (4294967296 - b) * lp2U a b ^ 2 := by
  have hnn : ∀ st, 0 ≤ lp2V a b x st := fun st =>
    lp2Q_nonneg (by have := hA.ha0; omega) (le_of_lt hA.hD) _ _
  have reach : ∀ (μ : Nat) (st : Int × Int), Lp2Inv2 a b x Vmax R st → lp2V a b x st ≤ (μ : Int) →
      ∃ N : Nat, b * (b - 2 * a) * lp2V a b x (lp2Seq x a (-b) N st) ≤ 4 * (4294967296 - b) * lp2U a b ^ 2 := by
    intro μ
    induction μ using Nat.strongRecOn with
    | _ μ ih =>
      intro st hI hμ
      by_cases hc : b * (b - 2 * a) * lp2V a b x st ≤ 4 * (4294967296 - b) * lp2U a b ^ 2
      · exact ⟨0, hc⟩
      · obtain ⟨-, hI', hdesc, -⟩ := lp2_inv2_step .release st hA hS hI
        have hlt := hdesc (not_le.mp hc)
        have h0 := hnn (lp2Next x a (-b) st)
        have hμ0 : 0 < μ := by omega
        obtain ⟨N, hN⟩ := ih (μ - 1) (by omega) _ hI' (by omega)
        exact ⟨N + 1, by simpa [lp2Seq] using hN⟩
  obtain ⟨N, hN⟩ := reach (lp2V a b x st).toNat st hI (by have := hnn st; omega)
  refine ⟨N, fun n hn => ?_⟩
  obtain ⟨j, rfl⟩ : ∃ j, n = N + j := ⟨n - N, by omega⟩
  rw [lp2Seq_add]
  have hIN := lp2_seq_inv2 hA hS N st hI
  generalize lp2Seq x a (-b) N st = st' at hN hIN
  clear hn
  induction j generalizing st' with
  | zero => exact hN
  | succ j ih =>
    obtain ⟨-, hI', -, hinv⟩ := lp2_inv2_step .release st' hA hS hIN
    exact ih _ (hinv hN) hI'

end Idsp
