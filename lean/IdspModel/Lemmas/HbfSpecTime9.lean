import IdspModel.Lemmas.HbfSpecTime3
import IdspModel.Lemmas.HbfSpecTime4
import IdspModel.Lemmas.HbfSpecTime5
import IdspModel.Lemmas.HbfSpecTime6
import IdspModel.Lemmas.HbfSpecTime7
import IdspModel.Lemmas.HbfSpecTime8
/-!
Link between the specification-level impulse response `hbfCascadeFir d` and the MODEL of the Rust cascades
(`Model/Hbf.lean`), for the default cascades over `ℚ` (`hbfIntCascadeQ d`, `hbfDecCascadeQ d`,
`Lemmas/HbfSpecTime.lean`) and every depth `1 ≤ d ≤ 4`:

* `hbfSpec_int_impulse` — the interpolating cascade answers a unit impulse with exactly `hbfCascadeFir d`;
* `hbfSpec_dec_impulse` — the decimating cascade answers a unit impulse at input phase `p < 2^d` with the polyphase
  component `h[2^d·i + (2^d-1-p)] / 2^d` of `hbfCascadeFir d`.

Both are obtained by kernel computation on the literal buffer model (`Lemmas/HbfSpecTime3.lean` … `8`) and include
well-formedness of the start state and admissibility of the block, so that nothing is vacuous.
-/
namespace Idsp

theorem hbfIntImpulseOK_all (d : ℕ) (h1 : 1 ≤ d) (hd : d ≤ 4) : hbfIntImpulseOK d := by
  have : d = 1 ∨ d = 2 ∨ d = 3 ∨ d = 4 := by omega
  rcases this with rfl | rfl | rfl | rfl
  · exact hbfIntImpulseOK_1
  · exact hbfIntImpulseOK_2
  · exact hbfIntImpulseOK_3
  · exact hbfIntImpulseOK_4

theorem hbfDecImpulseOK_all (d : ℕ) (h1 : 1 ≤ d) (hd : d ≤ 4) (p : ℕ) (hp : p < 2 ^ d) : hbfDecImpulseOK d p := by
  have : d = 1 ∨ d = 2 ∨ d = 3 ∨ d = 4 := by omega
  rcases this with rfl | rfl | rfl | rfl
  · exact hbfDecImpulseOK_1 p hp
  · exact hbfDecImpulseOK_2 p hp
  · exact hbfDecImpulseOK_3 p hp
  · have hp' : p < 16 := hp
    have e : p = 4 * (p / 4) + p % 4 := by omega
    have hq : p % 4 < 4 := by omega
    have : p / 4 = 0 ∨ p / 4 = 1 ∨ p / 4 = 2 ∨ p / 4 = 3 := by omega
    rcases this with h | h | h | h <;> rw [e, h]
    · exact hbfDecImpulseOK_4_0 _ hq
    · exact hbfDecImpulseOK_4_1 _ hq
    · exact hbfDecImpulseOK_4_2 _ hq
    · exact hbfDecImpulseOK_4_3 _ hq

/-- the impulse block of the interpolator statement, spelled out -/
theorem hbfImpulse_zero_64 : hbfImpulse 0 64 = 1 :: List.replicate 63 0 := rfl

/-- **Interpolating cascade: impulse response = `hbfCascadeFir d`.**  For `1 ≤ d ≤ 4`, the model of
    `HbfIntCascade::default()` + `set_depth(d)` over `ℚ` is well-formed, the low-rate block `[1, 0, …, 0]` of
    `HBF_CASCADE_BLOCK = 64` items is admissible, and `process_block` on it (from the initial state) returns exactly
    `hbfCascadeFir d` followed by zeros (`64·2^d` items in total; `64·2^d ≥ length`, see `hbfSpec_int_impulse_length`). -/
theorem hbfSpec_int_impulse (d : ℕ) (h1 : 1 ≤ d) (hd : d ≤ 4) :
    (hbfIntCascadeQ d).WF ∧ (hbfIntCascadeQ d).Adm (1 :: List.replicate 63 0) ∧
    ((hbfIntCascadeQ d).run hbfQOps [1 :: List.replicate 63 0]).2.flatten =
      hbfCascadeFir d ++ List.replicate (64 * 2 ^ d - (hbfCascadeFir d).length) 0 := by
  refine ⟨hbfIntCascadeQ_wf d hd, hbfIntCascadeQ_adm d hd _ (by simp), ?_⟩
  have h := hbfIntImpulseOK_all d h1 hd
  rw [hbfIntImpulseOK, hbfImpulse_zero_64, ← hbfCascadeFir_eq_lit d h1 hd] at h
  exact h

/-- the zero padding in `hbfSpec_int_impulse` is genuine: the response fits into the `64·2^d` returned items -/
theorem hbfSpec_int_impulse_length (d : ℕ) (hd : d ≤ 4) : (hbfCascadeFir d).length ≤ 64 * 2 ^ d := by
  rw [(hbfSpec_fir_span d hd).1]
  have : d = 0 ∨ d = 1 ∨ d = 2 ∨ d = 3 ∨ d = 4 := by omega
  rcases this with rfl | rfl | rfl | rfl | rfl <;> decide

/-- **Decimating cascade: impulse response = polyphase components of `hbfCascadeFir d`, divided by `2^d`.**
    For `1 ≤ d ≤ 4` and every input phase `p < 2^d`: the model of `HbfDecCascade::default()` + `set_depth(d)` over `ℚ`
    is well-formed, the high-rate block of `64·2^d` items with a single `1` at position `p` is admissible, and
    `process_block` on it (from the initial state) returns 64 items, item `i` being
    `h[2^d·i + (2^d-1-p)] / 2^d` where `h = hbfCascadeFir d`, and `0` once that index is past the end of `h`
    (the index is never negative since `p ≤ 2^d-1`): output `i` is the FIR applied at input position
    `2^d·i + 2^d - 1`, the newest sample consumed for that output. -/
theorem hbfSpec_dec_impulse (d : ℕ) (h1 : 1 ≤ d) (hd : d ≤ 4) (p : ℕ) (hp : p < 2 ^ d) :
    (hbfDecCascadeQ d).WF ∧ (hbfDecCascadeQ d).Adm (hbfImpulse p (64 * 2 ^ d)) ∧
    (((hbfDecCascadeQ d).run hbfQOps [hbfImpulse p (64 * 2 ^ d)]).2.flatten).length = 64 ∧
    ∀ i, i < 64 →
      (((hbfDecCascadeQ d).run hbfQOps [hbfImpulse p (64 * 2 ^ d)]).2.flatten)[i]? =
        some (if h : 2 ^ d * i + (2 ^ d - 1 - p) < (hbfCascadeFir d).length
              then (hbfCascadeFir d)[2 ^ d * i + (2 ^ d - 1 - p)] / 2 ^ d else 0) := by
  have hpos : 0 < 2 ^ d := Nat.two_pow_pos d
  have hlen : (hbfImpulse p (64 * 2 ^ d)).length = 64 * 2 ^ d := hbfImpulse_length _ _ (by omega)
  refine ⟨hbfDecCascadeQ_wf d hd, hbfDecCascadeQ_adm d hd _ (by rw [hlen]; exact ⟨64, by ring⟩) (by omega), ?_, ?_⟩
  · have h := hbfDecImpulseOK_all d h1 hd p hp
    rw [hbfDecImpulseOK] at h
    rw [h]; simp
  · intro i hi
    have h := hbfDecImpulseOK_all d h1 hd p hp
    rw [hbfDecImpulseOK, ← hbfCascadeFir_eq_lit d h1 hd] at h
    rw [h, List.getElem?_map, List.getElem?_range hi, Option.map_some]
    congr 1
    split_ifs with hlt
    · rw [getD_eq_of_lt _ _ _ hlt]
    · rw [List.getD_eq_getElem?_getD, List.getElem?_eq_none (by omega)]; simp

/-- the impulse block of the decimator statement, spelled out: `p` zeros, a one, zeros up to `64·2^d` items -/
theorem hbfImpulse_eq (p n : ℕ) : hbfImpulse p n = List.replicate p 0 ++ [1] ++ List.replicate (n - 1 - p) 0 := by
  simp [hbfImpulse]

/-- the 64 returned items of `hbfSpec_dec_impulse` cover the whole response for every phase: the largest index
    read, `2^d·63 + 2^d - 1`, is past the end of `hbfCascadeFir d` -/
theorem hbfSpec_dec_impulse_covers (d : ℕ) (hd : d ≤ 4) : (hbfCascadeFir d).length ≤ 2 ^ d * 63 + (2 ^ d - 1) + 1 := by
  have := hbfSpec_int_impulse_length d hd
  have hpos : 0 < 2 ^ d := Nat.two_pow_pos d
  omega

/-! non-vacuity: the hypotheses are met by every depth `1 … 4` and every phase; e.g. the full-depth cascades -/
example : ((hbfIntCascadeQ 4).run hbfQOps [1 :: List.replicate 63 0]).2.flatten =
    hbfCascadeFir 4 ++ List.replicate (64 * 2 ^ 4 - (hbfCascadeFir 4).length) 0 :=
  (hbfSpec_int_impulse 4 (by omega) (by omega)).2.2

example : (hbfDecCascadeQ 4).Adm (hbfImpulse 15 (64 * 2 ^ 4)) := (hbfSpec_dec_impulse 4 (by omega) (by omega) 15 (by omega)).2.1

/-- depth 1, phase 1, first output: the outermost tap `HBF_TAPS.0[0]` (binary32 value `13376681·2^-44`), halved -/
example : (((hbfDecCascadeQ 1).run hbfQOps [hbfImpulse 1 (64 * 2 ^ 1)]).2.flatten)[0]? = some (13376681 / 2 ^ 45) := by
  decide +kernel

end Idsp
