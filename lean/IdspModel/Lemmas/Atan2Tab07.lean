import IdspModel.Lemmas.Atan2Tab
/-! `atani` table, chunk 7 of 8: quotient fields 57344 … 65536 (complete range, evaluated by the kernel). -/
namespace Idsp

theorem atanTab7 : atanRun 57344 8193 = true := by decide +kernel

end Idsp
