import IdspModel.Lemmas.FloatModelBiquad
import IdspModel.Lemmas.HbfConv
import Mathlib.Algebra.Order.BigOperators.Group.Finset
import Mathlib.Algebra.BigOperators.Ring.Finset
/-!
  Forward error analysis of the half-band model (`Model/Hbf.lean`) under the standard model of floating point
  arithmetic (`Lemmas/FloatModel.lean`), single-output level: the symmetric FIR `firTap` (pair sum, product with the
  tap, `Iterator::sum` = left fold from zero) and the decimator's `half(even + fir)`.
-/
namespace Idsp
open Finset

variable {u : ℝ}

/-- the operations of `Model/Hbf.lean` under the rounding model: `sum` is Rust's `Iterator::sum` for floats, a left
    fold of `+` starting from (minus) zero; `half` is `0.5 * x` -/
noncomputable def FlModel.fhbfOps (M : FlModel u) : Ops ℝ :=
  ⟨0, M.fadd, M.fmul, fun l => l.foldl M.fadd 0, fun x => M.fmul (1 / 2) x⟩

/-- exact real operations with `half = x/2` written as `1/2 * x` -/
noncomputable def fhbfExactOps : Ops ℝ := ringOps (fun x : ℝ => 1 / 2 * x)

/-- `firTap` on a window of `2M` items as `sum` of the list of the `M` products, for any operations -/
theorem fhbf_firTap_eq_range {α : Type} (o : Ops α) (d : α) (taps win : List α)
    (hw : win.length = 2 * taps.length) :
    firTap o taps win =
      o.sum ((List.range taps.length).map fun l =>
        o.mul (o.add (win.getD l d) (win.getD (2 * taps.length - 1 - l) d)) (taps.getD l d)) := by
  simp only [firTap]
  congr 1
  apply List.ext_getElem
  · simp [hw]; omega
  · intro l h1 h2
    simp only [List.length_map, List.length_range] at h2
    simp only [List.getElem_map, List.getElem_zip, List.getElem_take, List.getElem_reverse,
      List.getElem_drop, List.getElem_range, List.length_drop]
    rw [getD_eq_of_lt _ _ _ (by omega), getD_eq_of_lt _ _ _ (by omega), getD_eq_of_lt _ _ _ h2]
    congr 3
    omega

namespace FlModel

variable (M : FlModel u)

/-- a single rounded sum of two exact operands: relative to `|a + b|` -/
theorem fhbf_near_add_exact (a b : ℝ) : Near (M.fadd a b) (a + b) (u * |a + b|) |a + b| := by
  refine ⟨?_, le_rfl⟩
  obtain ⟨δ, hδ, h⟩ := M.add_err a b
  have e : (a + b) * (1 + δ) - (a + b) = δ * (a + b) := by ring
  rw [h, e, abs_mul]
  exact mul_le_mul_of_nonneg_right hδ (abs_nonneg _)

/-- product of an approximate value with an exact factor on the right -/
theorem fhbf_near_mul_right {a' A ea ma : ℝ} (h : Near a' A ea ma) (b : ℝ) :
    Near (M.fmul a' b) (A * b) ((1 + u) * (ea * |b|) + u * (ma * |b|)) (ma * |b|) := by
  obtain ⟨δ, hδ, e⟩ := M.mul_err a' b
  have hm : |A * b| ≤ ma * |b| := by rw [abs_mul]; exact mul_le_mul_of_nonneg_right h.2 (abs_nonneg _)
  refine ⟨?_, hm⟩
  rw [e]
  refine round_near hδ ?_ hm
  have : a' * b - A * b = (a' - A) * b := by ring
  rw [this, abs_mul]
  exact mul_le_mul_of_nonneg_right h.1 (abs_nonneg _)

/-- product of an exact factor on the left with an approximate value -/
theorem fhbf_near_mul_left (c : ℝ) {s S es ms : ℝ} (h : Near s S es ms) :
    Near (M.fmul c s) (c * S) ((1 + u) * (|c| * es) + u * (|c| * ms)) (|c| * ms) := by
  obtain ⟨δ, hδ, e⟩ := M.mul_err c s
  have hm : |c * S| ≤ |c| * ms := by rw [abs_mul]; exact mul_le_mul_of_nonneg_left h.2 (abs_nonneg _)
  refine ⟨?_, hm⟩
  rw [e]
  refine round_near hδ ?_ hm
  have : c * s - c * S = c * (s - S) := by ring
  rw [this, abs_mul]
  exact mul_le_mul_of_nonneg_left h.1 (abs_nonneg _)

/-- **left fold of rounded additions from zero**: term `l` of `n` passes through `n − l` additions -/
theorem fhbf_fold_near (v x e m : ℕ → ℝ) (h : ∀ l, Near (v l) (x l) (e l) (m l)) (n : ℕ) :
    Near (((List.range n).map v).foldl M.fadd 0) (∑ l ∈ range n, x l)
      (∑ l ∈ range n, ((1 + u) ^ (n - l) * e l + gam u (n - l) * m l)) (∑ l ∈ range n, m l) := by
  induction n with
  | zero => exact ⟨by simp, by simp⟩
  | succ n ih =>
    rw [List.range_succ, List.map_append, List.foldl_append]
    have hn := M.near_add ih (h n)
    refine (hn.congr ?_ (Finset.sum_range_succ _ _).symm).congr_val (Finset.sum_range_succ _ _).symm
    rw [Finset.sum_range_succ _ n]
    have e1 : ∑ l ∈ range n, ((1 + u) ^ (n + 1 - l) * e l + gam u (n + 1 - l) * m l) =
        ∑ l ∈ range n, ((1 + u) * ((1 + u) ^ (n - l) * e l + gam u (n - l) * m l) + u * m l) := by
      refine Finset.sum_congr rfl fun l hl => ?_
      have hl' := Finset.mem_range.mp hl
      have : n + 1 - l = (n - l) + 1 := by omega
      rw [this, gam_succ, pow_succ]
      ring
    have e2 : ∑ l ∈ range n, ((1 + u) * ((1 + u) ^ (n - l) * e l + gam u (n - l) * m l) + u * m l) =
        (1 + u) * ∑ l ∈ range n, ((1 + u) ^ (n - l) * e l + gam u (n - l) * m l) + u * ∑ l ∈ range n, m l := by
      rw [Finset.sum_add_distrib, ← Finset.mul_sum, ← Finset.mul_sum]
    rw [e1, e2]
    have : n + 1 - n = 1 := by omega
    rw [this, gam_one, pow_one]
    ring

/-- one product of the symmetric FIR: `(a + b)·t` through two roundings -/
theorem fhbf_term_near (a b t : ℝ) :
    Near (M.fmul (M.fadd a b) t) ((a + b) * t) (gam u 2 * |(a + b) * t|) |(a + b) * t| := by
  have h := M.fhbf_near_mul_right (M.fhbf_near_add_exact a b) t
  rw [← abs_mul] at h
  exact h.congr (by rw [abs_mul]; unfold gam; ring) rfl

/-- **one output of the symmetric FIR** (`SymFir::get` on a window of `2M` items), per-term bound: product `l`
    passes through `M − l + 2` roundings (pair sum, product, `M − l` accumulations) -/
theorem fhbf_firTap_near (taps win : List ℝ) (hw : win.length = 2 * taps.length) :
    Near (firTap M.fhbfOps taps win)
      (∑ l ∈ range taps.length, (win.getD l 0 + win.getD (2 * taps.length - 1 - l) 0) * taps.getD l 0)
      (∑ l ∈ range taps.length, gam u (taps.length - l + 2) *
        |(win.getD l 0 + win.getD (2 * taps.length - 1 - l) 0) * taps.getD l 0|)
      (∑ l ∈ range taps.length, |(win.getD l 0 + win.getD (2 * taps.length - 1 - l) 0) * taps.getD l 0|) := by
  rw [fhbf_firTap_eq_range M.fhbfOps 0 taps win hw]
  have h := M.fhbf_fold_near
    (fun l => M.fmul (M.fadd (win.getD l 0) (win.getD (2 * taps.length - 1 - l) 0)) (taps.getD l 0))
    (fun l => (win.getD l 0 + win.getD (2 * taps.length - 1 - l) 0) * taps.getD l 0)
    (fun l => gam u 2 * |(win.getD l 0 + win.getD (2 * taps.length - 1 - l) 0) * taps.getD l 0|)
    (fun l => |(win.getD l 0 + win.getD (2 * taps.length - 1 - l) 0) * taps.getD l 0|)
    (fun l => M.fhbf_term_near _ _ _) taps.length
  refine h.congr (Finset.sum_congr rfl fun l _ => ?_) rfl
  unfold gam
  ring

/-- **one decimator output** `half(e + fir)`: two more roundings on everything -/
theorem fhbf_dec_near (taps win : List ℝ) (hw : win.length = 2 * taps.length) (ev : ℝ) :
    Near (M.fhbfOps.half (M.fhbfOps.add ev (firTap M.fhbfOps taps win)))
      (1 / 2 * (ev + ∑ l ∈ range taps.length,
        (win.getD l 0 + win.getD (2 * taps.length - 1 - l) 0) * taps.getD l 0))
      (1 / 2 * (gam u 2 * |ev| + ∑ l ∈ range taps.length, gam u (taps.length - l + 4) *
        |(win.getD l 0 + win.getD (2 * taps.length - 1 - l) 0) * taps.getD l 0|))
      (1 / 2 * (|ev| + ∑ l ∈ range taps.length,
        |(win.getD l 0 + win.getD (2 * taps.length - 1 - l) 0) * taps.getD l 0|)) := by
  have h := M.fhbf_near_mul_left (1 / 2) (M.near_add (near_exact ev) (M.fhbf_firTap_near taps win hw))
  have h12 : |(1 / 2 : ℝ)| = 1 / 2 := abs_of_pos (by norm_num)
  rw [h12] at h
  refine h.congr ?_ rfl
  have e1 : ∑ l ∈ range taps.length, gam u (taps.length - l + 4) *
        |(win.getD l 0 + win.getD (2 * taps.length - 1 - l) 0) * taps.getD l 0| =
      (1 + u) ^ 2 * ∑ l ∈ range taps.length, gam u (taps.length - l + 2) *
        |(win.getD l 0 + win.getD (2 * taps.length - 1 - l) 0) * taps.getD l 0| +
      gam u 2 * ∑ l ∈ range taps.length,
        |(win.getD l 0 + win.getD (2 * taps.length - 1 - l) 0) * taps.getD l 0| := by
    rw [Finset.mul_sum, Finset.mul_sum, ← Finset.sum_add_distrib]
    refine Finset.sum_congr rfl fun l _ => ?_
    unfold gam
    ring
  rw [e1]
  unfold gam
  ring

end FlModel

/-- in the round-up model the left fold is `Σ_l (1+u)^(n−l)·v_l` exactly -/
theorem fhbf_fold_roundUp (u : ℝ) (hu : 0 ≤ u) (v : ℕ → ℝ) (n : ℕ) :
    ((List.range n).map v).foldl (FlModel.roundUp u hu).fadd 0 = ∑ l ∈ range n, (1 + u) ^ (n - l) * v l := by
  induction n with
  | zero => simp
  | succ n ih =>
    rw [List.range_succ, List.map_append, List.foldl_append, ih, Finset.sum_range_succ]
    have e1 : ∑ l ∈ range n, (1 + u) ^ (n + 1 - l) * v l = (1 + u) * ∑ l ∈ range n, (1 + u) ^ (n - l) * v l := by
      rw [Finset.mul_sum]
      refine Finset.sum_congr rfl fun l hl => ?_
      have hl' := Finset.mem_range.mp hl
      have : n + 1 - l = (n - l) + 1 := by omega
      rw [this, pow_succ]
      ring
    have : n + 1 - n = 1 := by omega
    rw [e1, this, pow_one]
    show (_ + v n) * (1 + u) = _
    ring

/-- **the per-term bound of `fhbf_firTap_near` is attained**: in the round-up model, when all products
    `(win[l] + win[2M−1−l])·taps[l]` are non-negative, the error equals the bound -/
theorem fhbf_firTap_roundUp (u : ℝ) (hu : 0 ≤ u) (taps win : List ℝ) (hw : win.length = 2 * taps.length)
    (hpos : ∀ l, l < taps.length → 0 ≤ (win.getD l 0 + win.getD (2 * taps.length - 1 - l) 0) * taps.getD l 0) :
    firTap (FlModel.roundUp u hu).fhbfOps taps win -
        ∑ l ∈ range taps.length, (win.getD l 0 + win.getD (2 * taps.length - 1 - l) 0) * taps.getD l 0 =
      ∑ l ∈ range taps.length, gam u (taps.length - l + 2) *
        |(win.getD l 0 + win.getD (2 * taps.length - 1 - l) 0) * taps.getD l 0| := by
  rw [fhbf_firTap_eq_range (FlModel.roundUp u hu).fhbfOps 0 taps win hw]
  show ((List.range taps.length).map _).foldl (FlModel.roundUp u hu).fadd 0 - _ = _
  rw [fhbf_fold_roundUp, ← Finset.sum_sub_distrib]
  refine Finset.sum_congr rfl fun l hl => ?_
  rw [abs_of_nonneg (hpos l (Finset.mem_range.mp hl))]
  show (1 + u) ^ (taps.length - l) *
      ((win.getD l 0 + win.getD (2 * taps.length - 1 - l) 0) * (1 + u) * taps.getD l 0 * (1 + u)) - _ = _
  unfold gam
  ring

/-- uniform weakening of a per-term bound: `Σ γ_{k_l}·a_l ≤ γ_K·Σ a_l` when all `k_l ≤ K` and `a_l ≥ 0` -/
theorem fhbf_sum_gam_le (hu : 0 ≤ u) (n K : ℕ) (k : ℕ → ℕ) (a : ℕ → ℝ) (hk : ∀ l, l < n → k l ≤ K)
    (ha : ∀ l, 0 ≤ a l) : ∑ l ∈ range n, gam u (k l) * a l ≤ gam u K * ∑ l ∈ range n, a l := by
  rw [Finset.mul_sum]
  exact Finset.sum_le_sum fun l hl =>
    mul_le_mul_of_nonneg_right (gam_mono hu (hk l (Finset.mem_range.mp hl))) (ha l)

/-- `γ_K ≤ (K+1)·u` as soon as `K·(K+1)·u ≤ 1` (for `u = 2^-24`: up to `K = 4095`) -/
theorem fhbf_gam_le_succ_mul (hu : 0 ≤ u) (K : ℕ) (h : (K : ℝ) * ((K : ℝ) + 1) * u ≤ 1) :
    gam u K ≤ ((K : ℝ) + 1) * u := by
  have hK : (0 : ℝ) ≤ K := Nat.cast_nonneg K
  have hku : (K : ℝ) * u < 1 := by nlinarith
  refine (gam_le_classical hu K hku).trans ?_
  rw [div_le_iff₀ (by linarith)]
  nlinarith

end Idsp
