import IdspModel.Lemmas.CicSettle
/-!
# Helper lemmas for `Props/C20c.lean`, CIC part

* converses of `integChk_ok_of_fits` / `combsChk_ok_of_fits` for the checked profile (a chain that returns has
  evaluated every plain operation in range);
* range facts for the wrapping chains `integWrap` / `combsWrap` from ANY state;
* the exact `.ok` condition of `Cic.settleInterpolate`.
-/
namespace Idsp

/-- checked integrator chain: `.ok` only if every running sum fits -/
theorem c20c_integFits_of_ok {w : Nat} {l : List Int} {x : Int} {r : List Int × Int}
    (h : integChk .checked w l x = .ok r) : ∀ v ∈ (integZ l x).1, inI w v = true := by
  induction l generalizing x r with
  | nil => intro v hv; simp [integZ] at hv
  | cons i is ih =>
    unfold integChk at h
    rcases arithI_checked_cases w "cic.rs:141 *i += x" (i + x) with ⟨hin, e⟩ | ⟨_, e⟩
    · rw [e] at h
      cases hr : integChk .checked w is (i + x) with
      | error p => simp [hr, bind, Except.bind] at h
      | ok r' =>
        intro v hv
        simp only [integZ, List.mem_cons] at hv
        rcases hv with rfl | hv
        · exact hin
        · exact ih hr v hv
    · rw [e] at h; cases h

/-- checked comb chain: `.ok` only if every difference fits -/
theorem c20c_combsFits_of_ok {w : Nat} {l : List Int} {x : Int} {r : List Int × Int}
    (h : combsChk .checked w l x = .ok r) : combsFits w l x := by
  induction l generalizing x r with
  | nil => trivial
  | cons c cs ih =>
    unfold combsChk at h
    rcases arithI_checked_cases w "cic.rs:131 x - *c" (x - c) with ⟨hin, e⟩ | ⟨_, e⟩
    · rw [e] at h
      cases hr : combsChk .checked w cs (x - c) with
      | error p => simp [hr, bind, Except.bind] at h
      | ok r' => exact ⟨hin, ih hr⟩
    · rw [e] at h; cases h

/-- the checked integrator chain returns exactly when every running sum of the exact chain fits -/
theorem c20c_integChk_ok_iff (w : Nat) (l : List Int) (x : Int) :
    (∃ r, integChk .checked w l x = .ok r) ↔ ∀ v ∈ (integZ l x).1, inI w v = true :=
  ⟨fun ⟨_, h⟩ => c20c_integFits_of_ok h, fun h => ⟨_, integChk_ok_of_fits l x h⟩⟩

/-- the checked comb chain returns exactly when every difference of the exact chain fits -/
theorem c20c_combsChk_ok_iff (w : Nat) (l : List Int) (x : Int) :
    (∃ r, combsChk .checked w l x = .ok r) ↔ combsFits w l x :=
  ⟨fun ⟨_, h⟩ => c20c_combsFits_of_ok h, fun h => ⟨_, combsChk_ok_of_fits l x h⟩⟩

/-! ## wrapping chains from any state -/

theorem c20c_integWrap_range {w : Nat} (hw : 0 < w) (l : List Int) (x : Int) (hx : inI w x = true) :
    (∀ v ∈ (integWrap w l x).1, inI w v = true) ∧ inI w (integWrap w l x).2 = true ∧
    (integWrap w l x).1.length = l.length := by
  induction l generalizing x with
  | nil => exact ⟨by intro v hv; simp [integWrap] at hv, hx, rfl⟩
  | cons i is ih =>
    obtain ⟨h1, h2, h3⟩ := ih (wrapI w (i + x)) (wrapI_in hw _)
    simp only [integWrap]
    refine ⟨?_, h2, by simp [h3]⟩
    intro v hv
    simp only [List.mem_cons] at hv
    rcases hv with rfl | hv
    · exact wrapI_in hw _
    · exact h1 v hv

theorem c20c_combsWrap_range {w : Nat} (hw : 0 < w) (l : List Int) (x : Int) (hx : inI w x = true) :
    (∀ v ∈ (combsWrap w l x).1, inI w v = true) ∧ inI w (combsWrap w l x).2 = true ∧
    (combsWrap w l x).1.length = l.length := by
  induction l generalizing x with
  | nil => exact ⟨by intro v hv; simp [combsWrap] at hv, hx, rfl⟩
  | cons c cs ih =>
    obtain ⟨h1, h2, h3⟩ := ih (wrapI w (x - c)) (wrapI_in hw _)
    simp only [combsWrap]
    refine ⟨?_, h2, by simp [h3]⟩
    intro v hv
    simp only [List.mem_cons] at hv
    rcases hv with rfl | hv
    · exact hx
    · exact h1 v hv

/-- every register of the filter holds a value of the `w`-bit sample type, `index` and `rate` are `u32`s -/
structure Cic.InRange (w : Nat) (s : Cic) : Prop where
  combs : ∀ v ∈ s.combs, inI w v = true
  integrators : ∀ v ∈ s.integrators, inI w v = true
  zoh : inI w s.zoh = true
  index : 0 ≤ s.index ∧ s.index < 2 ^ 32
  rate : 0 ≤ s.rate ∧ s.rate < 2 ^ 32

/-! ## `settle_interpolate` -/

/-- the exact condition under which the checked `settle_interpolate(x)` returns: `gain()` returns, and (for order
    `≥ 1`) `x·gain` fits -/
theorem c20c_settle_ok_iff (w : Nat) (s : Cic) (x : Int) :
    (∃ s', s.settleInterpolate .checked w x = .ok s') ↔
      inI w (wrapI w s.rate + 1) = true ∧ inI w ((wrapI w s.rate + 1) ^ s.combs.length) = true ∧
      (s.combs.length ≠ 0 → inI w (x * (wrapI w s.rate + 1) ^ s.combs.length) = true) := by
  constructor
  · rintro ⟨s', h⟩
    obtain ⟨g, hg, hin, hx, -⟩ := settleInterpolate_checked_ok h
    subst hg
    refine ⟨?_, hin, hx⟩
    -- the base: from `gain()` of the intermediate state
    unfold Cic.settleInterpolate at h
    cases hN : s.combs.length with
    | zero =>
      simp only [Cic.clear, Cic.new, hN, List.replicate] at h
      cases hg : Cic.gain .checked w
          { rate := s.rate, index := 0, zoh := x, combs := [], integrators := [] } with
      | error e => rw [hg] at h; cases h
      | ok g => exact (gain_checked_ok hg).2.1
    | succ k =>
      simp only [Cic.clear, Cic.new, hN, List.replicate] at h
      cases hg : Cic.gain .checked w
          { rate := s.rate, index := 0, zoh := 0, combs := x :: List.replicate k 0,
            integrators := 0 :: List.replicate k 0 } with
      | error e => rw [hg] at h; cases h
      | ok g => exact (gain_checked_ok hg).2.1
  · rintro ⟨h1, h2, h3⟩
    unfold Cic.settleInterpolate
    cases hN : s.combs.length with
    | zero =>
      simp only [Cic.clear, Cic.new, hN, List.replicate]
      have hg : Cic.gain .checked w
          { rate := s.rate, index := 0, zoh := x, combs := [], integrators := [] }
          = .ok ((wrapI w s.rate + 1) ^ 0) := gain_ok_of_in h1 (by rw [hN] at h2; exact h2)
      rw [hg]
      exact ⟨_, rfl⟩
    | succ k =>
      simp only [Cic.clear, Cic.new, hN, List.replicate]
      have hg : Cic.gain .checked w
          { rate := s.rate, index := 0, zoh := 0, combs := x :: List.replicate k 0,
            integrators := 0 :: List.replicate k 0 }
          = .ok ((wrapI w s.rate + 1) ^ (k + 1)) := by
        have := gain_ok_of_in (m := .checked) (w := w)
          (s := { rate := s.rate, index := 0, zoh := 0, combs := x :: List.replicate k 0,
                  integrators := 0 :: List.replicate k 0 }) h1
          (by simpa [hN] using h2)
        simpa using this
      rw [hg]
      have hx := h3 (by omega)
      rw [hN] at hx
      simp only [bind, Except.bind, arithI_ok_of_in hx]
      exact ⟨_, rfl⟩

end Idsp
