import IdspModel.Model.Cossin
import IdspModel.Lemmas.CossinCore
import IdspModel.Lemmas.CossinSym
/-!
# C01 — `cossin`: no overflow, output range, exact symmetries, zero sum over the circle

Property theorems only (helper lemmas live in `IdspModel/Lemmas/CossinCore.lean`, `CossinSym.lean`).
The numeric accuracy against real `cos`/`sin` is NOT covered here (explored natively).

Definitions used in the statements (from the Lemmas files):
* `cossinVal p` — overflow-free closed form of `cossin` (table look-up, interpolation, octant un-mapping,
  all in unbounded integers);
* `cossinMirror p = p - p % 2^30 + (2^30 - 1 - p % 2^30)` — the phase with its low 30 bits flipped
  (`p ^ 0x3fff_ffff`, see `cossinMirror_is_xor`).
-/
namespace Idsp

/-- the first-octant core, for every 22-bit field: with overflow checks on, none of the six checked operations
    (`phase -= 1<<14`, `phase * PI4`, `+ (1<<16)`, `sin * dphi`, `cos * dphi`, the final `-`/`+`) overflows, the two
    `<<` lose no bits, and the result `(a, b)` satisfies `1518478556 ≤ a ≤ 2147454703`, `-1898 ≤ b ≤ 1518488231`
    (all four bounds are attained, see the examples below). Release mode returns the same pair. -/
theorem cossinCore_total_range (field : Int) (h0 : 0 ≤ field) (h1 : field < 2 ^ 22) :
    ∃ a b, cossinCore .checked field = .ok (a, b) ∧ cossinCore .release field = .ok (a, b) ∧
      1518478556 ≤ a ∧ a ≤ 2147454703 ∧ -1898 ≤ b ∧ b ≤ 1518488231 :=
  ⟨_, _, cossinCore_eq .checked h0 h1, cossinCore_eq .release h0 h1, cossinCoreVal_bounds h0 h1⟩

/-- 1. for every `i32` phase, `cossin` returns normally with overflow checks on (no panic at any of the checked
    operations of the core nor at the two conditional negations), and release mode returns the same pair. -/
theorem cossin_total (p : Int) (hp : inI 32 p = true) :
    ∃ c s, cossin .checked p = .ok (c, s) ∧ cossin .release p = .ok (c, s) :=
  ⟨_, _, cossin_eq_val .checked hp, cossin_eq_val .release hp⟩

/-- in either build mode and for every `i32` phase, `cossin` equals the overflow-free closed form -/
theorem cossin_closed_form (m : Mode) (p : Int) (hp : inI 32 p = true) : cossin m p = .ok (cossinVal p) :=
  cossin_eq_val m hp

/-- the build mode is irrelevant for `cossin` on `i32` phases (nothing wraps in release mode) -/
theorem cossin_mode_irrelevant (m : Mode) (p : Int) (hp : inI 32 p = true) : cossin m p = cossin .checked p := by
  rw [cossin_eq_val m hp, cossin_eq_val .checked hp]

private theorem val_of_ok {p c s : Int} (hp : inI 32 p = true) (h : cossin .checked p = .ok (c, s)) :
    cossinVal p = (c, s) := by
  rw [cossin_eq_val .checked hp] at h
  exact Except.ok.inj h

/-- 2. for every `i32` phase both outputs have magnitude at most `2147454703 = 2^31 - 28945` (attained at phase 0),
    so both can be negated in `i32` and the squared norm fits a signed 64-bit word. -/
theorem cossin_range (p : Int) (hp : inI 32 p = true) (c s : Int) (h : cossin .checked p = .ok (c, s)) :
    (-2147454703 ≤ c ∧ c ≤ 2147454703) ∧ (-2147454703 ≤ s ∧ s ≤ 2147454703) ∧
    inI 32 (-c) = true ∧ inI 32 (-s) = true ∧ c * c + s * s < 2 ^ 63 := by
  have hv := val_of_ok hp h
  have hr := cossinVal_range p
  have hn := cossinVal_norm p
  rw [hv] at hr hn
  simp only at hr hn
  refine ⟨⟨hr.1, hr.2.1⟩, ⟨hr.2.2.1, hr.2.2.2⟩, ?_, ?_, hn⟩ <;> rw [inI_iff] <;> omega

/-- 3. the result depends only on the top three bits of the phase (the octant) and on the 22 bits below them. -/
theorem cossin_depends_only_on_field (m : Mode) (p p' : Int) (hp : inI 32 p = true) (hp' : inI 32 p' = true)
    (ho : p % 2 ^ 32 / 2 ^ 29 = p' % 2 ^ 32 / 2 ^ 29) (hf : p % 2 ^ 29 / 2 ^ 7 = p' % 2 ^ 29 / 2 ^ 7) :
    cossin m p = cossin m p' := by
  rw [cossin_eq_val m hp, cossin_eq_val m hp', cossinVal_congr (p := p') (q := p) ho hf]

/-- 3'. in particular the low 7 bits of the phase are ignored (also in the odd octants, where the phase is
    complemented before the field is extracted). -/
theorem cossin_ignores_low7 (m : Mode) (p p' : Int) (hp : inI 32 p = true) (hp' : inI 32 p' = true)
    (h : p / 128 = p' / 128) : cossin m p = cossin m p' := by
  rw [cossin_eq_val m hp, cossin_eq_val m hp', cossinVal_of_div h]

/-- 4a. a quarter turn rotates the result exactly: `cossin(p + 2^30) = (-sin, cos)` (phase addition wraps). -/
theorem cossin_quarter_turn (p : Int) (hp : inI 32 p = true) (c s : Int) (h : cossin .checked p = .ok (c, s)) :
    cossin .checked (wrapI 32 (p + 2 ^ 30)) = .ok (-s, c) := by
  rw [cossin_eq_val .checked (wrapI_in (by decide) _), cossinVal_quarter, val_of_ok hp h]

/-- 4b. a half turn negates the result exactly: `cossin(p + 2^31) = (-cos, -sin)`. -/
theorem cossin_half_turn (p : Int) (hp : inI 32 p = true) (c s : Int) (h : cossin .checked p = .ok (c, s)) :
    cossin .checked (wrapI 32 (p + 2 ^ 31)) = .ok (-c, -s) := by
  rw [cossin_eq_val .checked (wrapI_in (by decide) _), cossinVal_half, val_of_ok hp h]

/-- 4c. complementing the phase bits conjugates the result exactly: `cossin(!p) = (cos, -sin)`. -/
theorem cossin_conj (p : Int) (hp : inI 32 p = true) (c s : Int) (h : cossin .checked p = .ok (c, s)) :
    cossin .checked (-p - 1) = .ok (c, -s) := by
  have hq : inI 32 (-p - 1) = true := by have := inI_iff.mp hp; rw [inI_iff]; omega
  rw [cossin_eq_val .checked hq, cossinVal_conj, val_of_ok hp h]

/-- the arithmetic `cossinMirror` is the bitwise XOR of the phase's `u32` image with `0x3fff_ffff`, cast back to
    `i32` (so it flips the low 30 bits and keeps the quadrant), and it stays an `i32`. -/
theorem cossinMirror_is_xor (p : Int) (hp : inI 32 p = true) :
    cossinMirror p = wrapI 32 (((wrapU 32 p).toNat ^^^ (2 ^ 30 - 1) : Nat) : Int) ∧
    inI 32 (cossinMirror p) = true :=
  ⟨cossinMirror_eq_xor_i32 hp, cossinMirror_in hp⟩

/-- 4d. mirroring the phase inside its quadrant (`p ^ 0x3fff_ffff`) swaps cos and sin exactly in quadrants 0 and 2
    (phase bit 30 clear) and swaps them with both signs flipped in quadrants 1 and 3 (bit 30 set); in all
    quadrants the magnitudes of cos and sin are exchanged exactly. -/
theorem cossin_quadrant_mirror (p : Int) (hp : inI 32 p = true) (c s : Int) (h : cossin .checked p = .ok (c, s)) :
    cossin .checked (cossinMirror p) = .ok (if bitU32 p 30 then (-s, -c) else (s, c)) := by
  have ⟨hp0, hp1⟩ := inI_iff.mp hp
  rw [cossin_eq_val .checked (cossinMirror_in hp), cossinVal_mirror, val_of_ok hp h]
  have e30 : bitU32 p 30 = decide (cossinOct p / 2 % 2 = 1) := by
    simp only [bitU32, wrapU, shr, cossinOct]; apply decide_eq_decide.mpr; omega
  rw [e30]
  have := cossinOct_range p
  by_cases hb : cossinOct p / 2 % 2 = 1
  · have : ¬ (cossinOct p / 2 % 2 = 0) := by omega
    simp [hb]
  · have : cossinOct p / 2 % 2 = 0 := by omega
    simp [this]

/-- 4d'. in every quadrant the mirror exchanges the magnitudes of cos and sin exactly. -/
theorem cossin_quadrant_mirror_abs (p : Int) (hp : inI 32 p = true) (c s c' s' : Int)
    (h : cossin .checked p = .ok (c, s)) (h' : cossin .checked (cossinMirror p) = .ok (c', s')) :
    c'.natAbs = s.natAbs ∧ s'.natAbs = c.natAbs := by
  rw [cossin_quadrant_mirror p hp c s h] at h'
  have e := Except.ok.inj h'
  split at e <;> simp only [Prod.mk.injEq] at e <;> obtain ⟨rfl, rfl⟩ := e <;> simp

/-- the literal reading "the mirror swaps cos and sin" (without the sign flip in quadrants 1 and 3) ... -/
def cossin_quadrant_mirror_literal_full : Prop :=
  ∀ p, inI 32 p = true → ∀ c s, cossin .checked p = .ok (c, s) → cossin .checked (cossinMirror p) = .ok (s, c)

/-- ... is false: phase `2^30` (a quarter turn, quadrant 1) gives `(1898, 2147454703)`, its mirror `2^31 - 1`
    gives `(-2147454703, -1898)`, which is `(-sin, -cos)` as `cossin_quadrant_mirror` says (and as the geometry
    `θ ↦ 3π/2 - θ` of that quadrant demands), not `(sin, cos)`. -/
theorem cossin_quadrant_mirror_literal_false : ¬ cossin_quadrant_mirror_literal_full := by
  intro H
  have h := H (2 ^ 30) (by decide) 1898 2147454703 (by decide +kernel)
  revert h
  decide +kernel

/-- 5. no DC bias: for ANY function `g` that agrees with `cossin` (checked build) on every `i32` phase — by
    `cossin_total` such a function exists and is unique on the `i32` range, `cossinVal` is one — the sum of each
    output over all `2^32` phases (index `k` as `u32`, phase `k as i32`) is exactly zero. Proved by pairing `k`
    with `k + 2^31` (half turn), not by enumeration. -/
theorem cossin_sum_zero (g : Int → Int × Int)
    (hg : ∀ p, inI 32 p = true → cossin .checked p = .ok (g p)) :
    ((List.range (2 ^ 32)).map fun k : Nat => (g (wrapI 32 (k : Int))).1).sum = 0 ∧
    ((List.range (2 ^ 32)).map fun k : Nat => (g (wrapI 32 (k : Int))).2).sum = 0 := by
  have e : ∀ k : Nat, g (wrapI 32 (k : Int)) = cossinVal (wrapI 32 (k : Int)) := fun k => by
    have h1 := hg _ (wrapI_in (by decide) (k : Int))
    rw [cossin_eq_val .checked (wrapI_in (by decide) _)] at h1
    exact (Except.ok.inj h1).symm
  simp only [e]
  exact cossinVal_sum_zero

/-- the hypothesis of `cossin_sum_zero` is satisfiable: the closed form is such a `g` -/
example : ∀ p, inI 32 p = true → cossin .checked p = .ok (cossinVal p) := fun _ hp => cossin_eq_val .checked hp

/-! ### non-vacuity: concrete evaluations of the model (tests, not part of the property) -/

/-- phase 0: the largest magnitude `2147454703` is attained; sin(0) is `-1898`, not 0 -/
example : cossin .checked 0 = .ok (2147454703, -1898) := by decide +kernel
/-- quarter turn of phase 0 -/
example : cossin .checked (2 ^ 30) = .ok (1898, 2147454703) := by decide +kernel
/-- half turn of phase 0 -/
example : cossin .checked (-2 ^ 31) = .ok (-2147454703, 1898) := by decide +kernel
/-- either side of the first octant boundary (bit 29): the pair is swapped exactly (mirror of the quadrant) -/
example : cossin .checked (2 ^ 29 - 1) = .ok (1518478556, 1518488231) := by decide +kernel
example : cossin .checked (2 ^ 29) = .ok (1518488231, 1518478556) := by decide +kernel
/-- conjugate of phase 0 is phase -1 -/
example : cossin .checked (-1) = .ok (2147454703, 1898) := by decide +kernel
/-- the core bounds are attained: field 0 gives the largest cos and the smallest sin, the last field value the
    smallest cos and the largest sin -/
example : cossinCore .checked 0 = .ok (2147454703, -1898) := by decide +kernel
example : cossinCore .checked (2 ^ 22 - 1) = .ok (1518478556, 1518488231) := by decide +kernel
/-- the mirror is not the identity and the quadrant test matters: phase `2^30 + 5·2^20` (quadrant 1) -/
example : cossinMirror (2 ^ 30 + 5 * 2 ^ 20) = 2 ^ 31 - 1 - 5 * 2 ^ 20 := by decide
example : bitU32 (2 ^ 30 + 5 * 2 ^ 20) 30 = true := by decide

end Idsp
