import IdspModel.Model.Cic
import IdspModel.Lemmas.CicSeq
import IdspModel.Lemmas.CicDec
import IdspModel.Lemmas.CicGain
/-!
# C12 — the CIC decimator is the boxcar^N FIR filter modulo `2^bits`

Property theorems only.  Vocabulary (defined in `IdspModel/Lemmas/CicSeq.lean`, `CicDec.lean`):

* `Cic.decimateList w s xs` runs `Cic.decimate` (width `w`) over the list `xs` from state `s` and returns the final
  state and the list of the results (`Option Int`) of all calls.
* `streamOf xs : Nat → Int` is the list as a stream (`0` beyond the end), `ext x : Int → Int` extends a stream by
  `0` to negative indices.
* `cicKernel R N : List Int` is the `N`-fold self-convolution of the length-`R` boxcar `[1,…,1]` (`[1]` for `N = 0`),
  `fir h x t = ∑_k h[k]·x(t-k)` (`fir_eq_sum`), and `fir (cicKernel R N) = (boxcar-sum of length R)^N` (`fir_cicKernel`).
* the order is `n` (`combs.length = integrators.length = n`), the rate field is `rate` (`R = rate + 1`), the sample
  type is a signed `w`-bit integer; inputs are values of that type (`inI w x`).
-/
namespace Idsp

private theorem cast_rate (rate : Nat) : ((rate + 1 : Nat) : Int) - 1 = (rate : Int) := by push_cast; omega

/-- **Complete description of a decimator run** from the zero state, for every order `n`, every `rate`, every
    width `w ≥ 1` and every input list: the `t`-th call (0-based) returns `Some` exactly when `t` is a multiple of
    `R = rate+1`, and the value is the exact FIR output `∑_k h[k]·x[t-k]` (`h = boxcar_R^{*n}`, `x` extended by
    zero) reduced modulo `2^w` — whatever wrap-around happened inside the integrators. -/
theorem decimate_outputs (w n rate : Nat) (hw : 0 < w) (xs : List Int) (hx : ∀ x ∈ xs, inI w x = true) :
    (Cic.decimateList w (Cic.new n rate) xs).2
      = (List.range xs.length).map (fun t =>
          if t % (rate + 1) = 0 then some (wrapI w (fir (cicKernel (rate + 1) n) (ext (streamOf xs)) t)) else none) := by
  rw [decimateList_eq]
  apply List.map_congr_left
  intro t _
  rw [← cast_rate rate, decOut_eq hw (Nat.succ_pos rate) _ (streamOf_in hx) t, fir_cicKernel]

/-- (a) **emit times**: the `t`-th call returns `Some _` iff `t % (rate+1) = 0`, i.e. on the 1st, (R+1)th,
    (2R+1)th … input. -/
theorem decimate_emit_times (w n rate : Nat) (hw : 0 < w) (xs : List Int) (hx : ∀ x ∈ xs, inI w x = true)
    (t : Nat) (ht : t < xs.length) :
    ∃ o, (Cic.decimateList w (Cic.new n rate) xs).2[t]? = some o ∧ (o.isSome = true ↔ t % (rate + 1) = 0) := by
  rw [decimate_outputs w n rate hw xs hx]
  refine ⟨_, by rw [List.getElem?_map, List.getElem?_range ht]; rfl, ?_⟩
  by_cases h : t % (rate + 1) = 0 <;> simp [h]

/-- (a) **`tick()` predicts the emitting call**: after any input list `xs` (i.e. just before call number
    `xs.length`), `tick()` is true iff `xs.length` is a multiple of `rate+1`, which by `decimate_emit_times`
    is exactly when the next call returns `Some`. -/
theorem decimate_tick (w n rate : Nat) (hw : 0 < w) (xs : List Int) (hx : ∀ x ∈ xs, inI w x = true) :
    (Cic.decimateList w (Cic.new n rate) xs).1.tick = decide (xs.length % (rate + 1) = 0) := by
  rw [decimateList_eq, ← cast_rate rate]
  exact decState_tick hw (Nat.succ_pos rate) _ (streamOf_in hx) _

/-- (a) `tick()` and the next call agree, on **every** state (`index` is a `u32`, hence `≥ 0`): the next
    `decimate` call returns `Some` iff `tick()` is true now. -/
theorem decimate_tick_iff_some (w : Nat) (s : Cic) (hidx : 0 ≤ s.index) (x : Int) :
    (s.decimate w x).2.isSome = s.tick := by
  unfold Cic.decimate Cic.tick
  by_cases h : s.index ≥ 1
  · have : s.index ≠ 0 := by omega
    simp [h, this]
  · have : s.index = 0 := by omega
    simp [this]

/-- (b) **the `m`-th output is the FIR output modulo `2^w`**: the call with input index `t = m·R` returns
    `Some (wrapI w (∑_k h[k]·x[mR-k]))`, with `h` the `n`-fold self-convolution of the length-`R` boxcar. The sum
    is over the unbounded integers, so this is the exact FIR output reduced modulo `2^w` although all `n`
    integrators wrap. -/
theorem decimate_eq_fir (w n rate : Nat) (hw : 0 < w) (xs : List Int) (hx : ∀ x ∈ xs, inI w x = true)
    (m : Nat) (hm : m * (rate + 1) < xs.length) :
    (Cic.decimateList w (Cic.new n rate) xs).2[m * (rate + 1)]?
      = some (some (wrapI w (sumTo (cicKernel (rate + 1) n).length (fun k =>
          (cicKernel (rate + 1) n).getD k 0 * ext (streamOf xs) ((m * (rate + 1) : Nat) - k))))) := by
  rw [decimate_outputs w n rate hw xs hx, List.getElem?_map, List.getElem?_range hm]
  simp only [Option.map_some, Nat.mul_mod_left, if_true, fir_eq_sum]

/-- (b) corollary: **exact whenever the FIR output fits** the sample type (`input·gain` fits), regardless of the
    integrators' wrap-around. -/
theorem decimate_exact_when_fits (w n rate : Nat) (hw : 0 < w) (xs : List Int) (hx : ∀ x ∈ xs, inI w x = true)
    (m : Nat) (hm : m * (rate + 1) < xs.length)
    (hfit : inI w (fir (cicKernel (rate + 1) n) (ext (streamOf xs)) ((m * (rate + 1) : Nat) : Int)) = true) :
    (Cic.decimateList w (Cic.new n rate) xs).2[m * (rate + 1)]?
      = some (some (fir (cicKernel (rate + 1) n) (ext (streamOf xs)) ((m * (rate + 1) : Nat) : Int))) := by
  rw [decimate_outputs w n rate hw xs hx, List.getElem?_map, List.getElem?_range hm]
  simp only [Option.map_some, Nat.mul_mod_left, if_true, wrapI_of_in hw hfit]

/-- `get_decimate()` after `t+1` inputs is the most recently emitted value (emitted at input `⌊t/R⌋·R`). -/
theorem getDecimate_eq (w n rate : Nat) (hw : 0 < w) (xs : List Int) (hx : ∀ x ∈ xs, inI w x = true) (x : Int)
    (hxin : inI w x = true) :
    (Cic.decimateList w (Cic.new n rate) (xs ++ [x])).1.getDecimate
      = wrapI w (fir (cicKernel (rate + 1) n) (ext (streamOf (xs ++ [x])))
          ((xs.length / (rate + 1) * (rate + 1) : Nat) : Int)) := by
  have hx' : ∀ y ∈ xs ++ [x], inI w y = true := by
    intro y hy
    rcases List.mem_append.mp hy with h | h
    · exact hx y h
    · simp at h; subst h; exact hxin
  rw [decimateList_eq, ← cast_rate rate]
  simp only [List.length_append, List.length_cons, List.length_nil]
  rw [decState_zoh hw (Nat.succ_pos rate) _ (streamOf_in hx') xs.length, fir_cicKernel]

/-- (c) **`gain()` is `R^N`**: if the checked computation does not panic and `rate` is representable in the sample
    type (so that `rate as T` is the identity), the result is `(rate+1)^N`. -/
theorem gain_eq (w : Nat) (hw : 0 < w) (s : Cic) (g : Int) (hr : inI w s.rate = true)
    (h : s.gain .checked w = .ok g) : g = (s.rate + 1) ^ s.order := by
  have := (gain_checked_ok h).1
  rwa [wrapI_of_in hw hr] at this

/-- (c) general form, `rate` not necessarily representable: the `as` cast wraps. -/
theorem gain_eq_general (w : Nat) (s : Cic) (g : Int) (h : s.gain .checked w = .ok g) :
    g = (wrapI w s.rate + 1) ^ s.order ∧ inI w g = true :=
  ⟨(gain_checked_ok h).1, (gain_checked_ok h).2.2⟩

/-- (c) `gain()` succeeds (both profiles) with value `R^N` whenever `R` and `R^N` are representable. -/
theorem gain_ok (m : Mode) (w : Nat) (hw : 0 < w) (s : Cic) (hr : inI w s.rate = true)
    (h1 : inI w (s.rate + 1) = true) (h2 : inI w ((s.rate + 1) ^ s.order) = true) :
    s.gain m w = .ok ((s.rate + 1) ^ s.order) := by
  have := gain_ok_of_in (m := m) (w := w) (s := s) (by rwa [wrapI_of_in hw hr]) (by rwa [wrapI_of_in hw hr])
  rwa [wrapI_of_in hw hr] at this

/-- (c) **`gain_log2()` is an upper bound of `log2(gain)`**: for every `u32` rate, `gain_log2() = bits(rate)·N ≥ 0`
    and `(rate+1)^N ≤ 2^gain_log2()`. (The model does not reduce `bits·N` modulo `2^32`.) -/
theorem gainLog2_bound (s : Cic) (rate : Nat) (hs : s.rate = rate) (hr : rate < 2 ^ 32) :
    0 ≤ s.gainLog2 ∧ ((rate : Int) + 1) ^ s.order ≤ 2 ^ s.gainLog2.toNat := by
  rw [gainLog2_eq hs hr]
  refine ⟨by omega, ?_⟩
  rw [Int.toNat_natCast, Int.pow_mul]
  unfold Cic.order
  have := Nat.pow_le_pow_left (succ_le_two_pow_bitsOf rate) s.combs.length
  exact_mod_cast this

/-- (c) **exact for power-of-two `R`**: if `rate + 1 = 2^k` then `(rate+1)^N = 2^gain_log2()`. -/
theorem gainLog2_exact (s : Cic) (rate k : Nat) (hs : s.rate = rate) (hr : rate < 2 ^ 32) (hk : rate + 1 = 2 ^ k) :
    ((rate : Int) + 1) ^ s.order = 2 ^ s.gainLog2.toNat ∧ s.gainLog2 = k * s.order := by
  have e : rate = 2 ^ k - 1 := by omega
  rw [gainLog2_eq hs hr, e, bitsOf_two_pow_sub_one, ← e]
  unfold Cic.order
  refine ⟨?_, by push_cast; rfl⟩
  rw [Int.toNat_natCast, Int.pow_mul]
  have : ((rate + 1 : Nat) : Int) = (2 ^ k : Nat) := by rw [hk]
  push_cast at this
  rw [this]

/-- (d) **rate 0 is the identity**, for every order `n`, from the zero state: every call returns `Some x`. -/
theorem decimate_rate0_identity (w n : Nat) (hw : 0 < w) (xs : List Int) (hx : ∀ x ∈ xs, inI w x = true) :
    (Cic.decimateList w (Cic.new n 0) xs).2 = xs.map some := by
  have := decimate_outputs w n 0 hw xs hx
  simp only [Nat.cast_zero] at this
  rw [this]
  apply List.ext_getElem?
  intro t
  by_cases ht : t < xs.length
  · rw [List.getElem?_map, List.getElem?_range ht, List.getElem?_map, List.getElem?_eq_getElem ht]
    simp only [Option.map_some, Nat.zero_add, Nat.mod_one, if_true, fir_cicKernel, opPow_seqB_one, ext_nat]
    have : streamOf xs t = xs[t] := by
      unfold streamOf; rw [List.getD_eq_getElem?_getD, List.getElem?_eq_getElem ht]; rfl
    rw [this, wrapI_of_in hw (hx _ (List.getElem_mem ht))]
  · rw [List.getElem?_eq_none (by simp; omega), List.getElem?_eq_none (by simp; omega)]

/-! ## concrete instances (non-vacuity) -/

/-- the kernel for `R = 3`, `N = 2` is the triangle -/
example : cicKernel 3 2 = [1, 2, 3, 2, 1] := by decide

/-- `i8`, order 2, `R = 2` (gain 4): constant input 100 — the integrators wrap, the outputs are the exact FIR
    outputs 100, 400, 400 reduced modulo 256. -/
example : (Cic.decimateList 8 (Cic.new 2 1) [100, 100, 100, 100, 100]).2
    = [some 100, none, some (-112), none, some (-112)] := by decide

/-- `i8`, order 3, rate 0: the identity (the crate's `identity_dec` unit test). -/
example : (Cic.decimateList 8 (Cic.new 3 0) [100, -128, 127, 5]).2 = [some 100, some (-128), some 127, some 5] := by
  decide

example : (Cic.new 3 7).gain .checked 16 = .ok 512 ∧ (Cic.new 3 7).gainLog2 = 9 := by decide
example : (Cic.new 3 9).gain .checked 16 = .ok 1000 ∧ (Cic.new 3 9).gainLog2 = 12 := by decide
/-- `rate = 255` is not an `i8`: `rate as i8 = -1`, and `gain()` returns `0` -/
example : (Cic.new 3 255).gain .checked 8 = .ok 0 := by decide

end Idsp
