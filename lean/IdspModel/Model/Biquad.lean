import IdspModel.Model.Num
/-! Model of `Biquad<T>::update::<N>` (`src/iir/biquad.rs`) for the fixed-point `T`. -/
namespace Idsp

structure BiquadCfg where
  b0 : Int
  b1 : Int
  b2 : Int
  a1 : Int
  a2 : Int
  u : Int
  mn : Int
  mx : Int
deriving Repr, DecidableEq

def BiquadCfg.hold (w q : Nat) : BiquadCfg := ⟨0, 0, 0, negOneQ q, 0, 0, minI w, maxI w⟩
def BiquadCfg.proportional (w : Nat) (k : Int) : BiquadCfg := ⟨k, 0, 0, 0, 0, 0, minI w, maxI w⟩
def BiquadCfg.identity (w q : Nat) : BiquadCfg := BiquadCfg.proportional w (oneQ q)

/-- the exact (unbounded) feed-forward/feed-back sum -/
def BiquadCfg.sum (c : BiquadCfg) (x0 x1 x2 y1 y2 : Int) : Int :=
  c.b0 * x0 + c.b1 * x1 + c.b2 * x2 - c.a1 * y1 - c.a2 * y2

/-- the accumulator expression as the code evaluates it: left to right, every step a plain op on `ACCU` -/
def biquadAcc (m : Mode) (w : Nat) (c : BiquadCfg) (x0 x1 x2 y1 y2 : Int) : R Int := do
  let a := 2 * w
  let t0 ← arithI m a "biquad.rs:453 b0*x0" (c.b0 * x0)
  let t1 ← arithI m a "biquad.rs:454 b1*x1" (c.b1 * x1)
  let s1 ← arithI m a "biquad.rs:454 +" (t0 + t1)
  let t2 ← arithI m a "biquad.rs:455 b2*x2" (c.b2 * x2)
  let s2 ← arithI m a "biquad.rs:455 +" (s1 + t2)
  let t3 ← arithI m a "biquad.rs:456 a1*y1" (c.a1 * y1)
  let s3 ← arithI m a "biquad.rs:456 -" (s2 - t3)
  let t4 ← arithI m a "biquad.rs:457 a2*y2" (c.a2 * y2)
  arithI m a "biquad.rs:457 -" (s3 - t4)

/-- N = 4: state `[x1, x2, y1, y2]` -/
def biquadUpdate4 (m : Mode) (w q : Nat) (c : BiquadCfg) (xy : Int × Int × Int × Int) (x0 : Int) :
    R ((Int × Int × Int × Int) × Int) := do
  let (x1, x2, y1, y2) := xy
  let s ← biquadAcc m w c x0 x1 x2 y1 y2
  let (y0, _) ← macc m w q c.u s c.mn c.mx 0
  .ok ((x0, x1, y0, y1), y0)

/-- N = 5: state `[x1, x2, y1, y2, e1]` -/
def biquadUpdate5 (m : Mode) (w q : Nat) (c : BiquadCfg) (xy : Int × Int × Int × Int × Int) (x0 : Int) :
    R ((Int × Int × Int × Int × Int) × Int) := do
  let (x1, x2, y1, y2, e1) := xy
  let s ← biquadAcc m w c x0 x1 x2 y1 y2
  let (y0, e0) ← macc m w q c.u s c.mn c.mx e1
  .ok ((x0, x1, y0, y1, e0), y0)

/-- N = 2 (DF2T) on the fixed-point type: state `[s0, s1]` -/
def biquadUpdate2 (m : Mode) (w q : Nat) (c : BiquadCfg) (st : Int × Int) (x0 : Int) :
    R ((Int × Int) × Int) := do
  let (s0, s1) := st
  let p0 ← mulScaled m w q c.b0 x0
  let t ← arithI m w "biquad.rs:482 xy[0] + b0*x0" (s0 + p0)
  let y0 := clip t c.mn c.mx
  let p1 ← mulScaled m w q c.b1 x0
  let r1 ← arithI m w "biquad.rs:483 xy[1] + b1*x0" (s1 + p1)
  let p3 ← mulScaled m w q c.a1 y0
  let n0 ← arithI m w "biquad.rs:483 - a1*y0" (r1 - p3)
  let p2 ← mulScaled m w q c.b2 x0
  let r2 ← arithI m w "biquad.rs:484 u + b2*x0" (c.u + p2)
  let p4 ← mulScaled m w q c.a2 y0
  let n1 ← arithI m w "biquad.rs:484 - a2*y0" (r2 - p4)
  .ok ((n0, n1), y0)

end Idsp
