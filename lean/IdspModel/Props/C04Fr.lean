import IdspModel.Lemmas.FbqRun
import Mathlib.Data.Real.Basic
/-!
# C04 (floating point sample types), run level — limits for all three state forms, no wind-up for N = 2 / 4 / 5

Complements `Props/C04F.lean` (single-step statements over the abstract carrier of `Model/BiquadF.lean`:
uninterpreted `add sub mul max min`; `ClampLaws` = the three `maxNum`/`minNum` facts) up to the level of the integer
file `Props/C04.lean`.

* Runs: `fbqRun step st xs` folds a step function over an input list and collects the outputs
  (`Lemmas/FbqRun.lean`); `fbqRun5`, `fbqRun2` are the runs of `fbiquadUpdate5`, `fbiquadUpdate2`, and the existing
  `fbiquadRun4` is the same fold (`fbiquadRun4_eq_fbqRun`).
* Limits: every output of every run from every state, for every input list (NaN and ±∞ samples included), lies within
  non-NaN limits `mn ≤ mx` — all three forms.
* No wind-up: the integer theorems `state2_after_two` / `no_windup2` use nothing but the data flow of the update
  (the new second state word is a function of `(x0, y0)` only, the new first word of the old second word and
  `(x0, y0)`).  The float model has the same data flow and its operations are FUNCTIONS of their operands, so the
  statements hold verbatim over the abstract carrier, with NO law about `+ − × max min` at all — in particular
  rounding cannot make the state depend on the length of the saturation episode.  "Equal" is equality of carrier
  values, i.e. bit identity at `f32`/`f64` (`+0.0 ≠ −0.0`, NaNs with different payloads differ).
  For N = 5 the float `macc` returns the remainder word `0.0`, so — unlike the fixed-point N = 5 form, where
  `no_windup5_full` is FALSE — the float N = 5 form has the full no-wind-up property.
-/
namespace Idsp

variable {α : Type} {o : BOps α} {le : α → α → Prop} {ok : α → Prop}

/-! ## 1. Limits at run level -/

/-- **N = 5: every output of every run is within the limits** -/
theorem fbq_run5_in_limits (L : ClampLaws o le ok) (c : FBiquadCfg α) (hmn : ok c.mn) (hmx : ok c.mx)
    (h : le c.mn c.mx) (st : α × α × α × α × α) (xs : List α) :
    ∀ y ∈ (fbqRun5 o c st xs).2, le c.mn y ∧ le y c.mx :=
  fbqRun_all _ _ (fun st x => (fbiquad_in_limits L c hmn hmx h x).2.1 st) st xs

/-- **N = 2: every output of every run is within the limits** -/
theorem fbq_run2_in_limits (L : ClampLaws o le ok) (c : FBiquadCfg α) (hmn : ok c.mn) (hmx : ok c.mx)
    (h : le c.mn c.mx) (st : α × α) (xs : List α) :
    ∀ y ∈ (fbqRun2 o c st xs).2, le c.mn y ∧ le y c.mx :=
  fbqRun_all _ _ (fun st x => (fbiquad_in_limits L c hmn hmx h x).2.2 st) st xs

/-- all three forms in one statement (N = 4 through the existing `fbiquadRun4`) -/
theorem fbq_run_in_limits (L : ClampLaws o le ok) (c : FBiquadCfg α) (hmn : ok c.mn) (hmx : ok c.mx)
    (h : le c.mn c.mx) (xs : List α) :
    (∀ st, ∀ y ∈ (fbiquadRun4 o c st xs).2, le c.mn y ∧ le y c.mx) ∧
    (∀ st, ∀ y ∈ (fbqRun5 o c st xs).2, le c.mn y ∧ le y c.mx) ∧
    (∀ st, ∀ y ∈ (fbqRun2 o c st xs).2, le c.mn y ∧ le y c.mx) :=
  ⟨fun st => fbiquad_run_in_limits L c hmn hmx h st xs, fun st => fbq_run5_in_limits L c hmn hmx h st xs,
   fun st => fbq_run2_in_limits L c hmn hmx h st xs⟩

/-! ## 2. No wind-up at run level -/

/-- **N = 2: the state after two steps is a function of the two inputs and the two outputs only.**  Two computations
    from arbitrary states that see the same last two inputs and produce the same last two outputs end in the same
    state.  No law of the carrier is used. -/
theorem fbq_state2_after_two (o : BOps α) (c : FBiquadCfg α) (a0 a1 a2 b0 b1 b2 : α × α) (xa xb ya yb : α)
    (hA1 : fbiquadUpdate2 o c a0 xa = (a1, ya)) (hA2 : fbiquadUpdate2 o c a1 xb = (a2, yb))
    (hB1 : fbiquadUpdate2 o c b0 xa = (b1, ya)) (hB2 : fbiquadUpdate2 o c b1 xb = (b2, yb)) : a2 = b2 := by
  obtain ⟨a00, a01⟩ := a0
  obtain ⟨a10, a11⟩ := a1
  obtain ⟨b00, b01⟩ := b0
  obtain ⟨b10, b11⟩ := b1
  have sA1 := fbiquad2_state o c a00 a01 xa
  have sB1 := fbiquad2_state o c b00 b01 xa
  rw [hA1] at sA1
  rw [hB1] at sB1
  have e : a11 = b11 := by
    have h1 := congrArg Prod.snd sA1
    have h2 := congrArg Prod.snd sB1
    simp only at h1 h2
    rw [h1, h2]
  subst e
  have sA2 := fbiquad2_state o c a10 a11 xb
  have sB2 := fbiquad2_state o c b10 a11 xb
  rw [hA2] at sA2
  rw [hB2] at sB2
  simp only at sA2 sB2
  rw [sA2, sB2]

/-- **No wind-up, N = 2.**  Two episodes of constant input `x` of lengths `L1, L2 ≥ 2`, from ANY two states, whose last
    two outputs equal `lim` (in particular: the output sat on a limit) end in the SAME state, and respond identically
    (state and outputs) to every continuation.  The state after saturation does not depend on how long it lasted. -/
theorem fbq_no_windup2 (o : BOps α) (c : FBiquadCfg α) (stA stB sA sB : α × α) (L1 L2 : Nat) (h1 : 2 ≤ L1)
    (h2 : 2 ≤ L2) (x lim : α) (ysA ysB : List α)
    (hA : fbqRun2 o c stA (List.replicate L1 x) = (sA, ysA ++ [lim, lim]))
    (hB : fbqRun2 o c stB (List.replicate L2 x) = (sB, ysB ++ [lim, lim])) :
    sA = sB ∧ ∀ zs, fbqRun2 o c sA zs = fbqRun2 o c sB zs := by
  obtain ⟨a0, a1, hA1, hA2⟩ := fbqRun_last_two _ stA sA L1 h1 x lim lim ysA hA
  obtain ⟨b0, b1, hB1, hB2⟩ := fbqRun_last_two _ stB sB L2 h2 x lim lim ysB hB
  have := fbq_state2_after_two o c a0 a1 sA b0 b1 sB x x lim lim hA1 hA2 hB1 hB2
  subst this
  exact ⟨rfl, fun _ => rfl⟩

/-- **No wind-up, N = 4, run level**: after `L ≥ 2` samples of constant input `x` ending in two outputs `lim` the state
    is exactly `(x, x, lim, lim)`, whatever the initial state and `L` -/
theorem fbq_no_windup4 (o : BOps α) (c : FBiquadCfg α) (st sf : α × α × α × α) (L : Nat) (hL : 2 ≤ L) (x lim : α)
    (ys : List α) (h : fbiquadRun4 o c st (List.replicate L x) = (sf, ys ++ [lim, lim])) :
    sf = (x, x, lim, lim) := by
  rw [fbiquadRun4_eq_fbqRun] at h
  obtain ⟨s0, s1, ha, hb⟩ := fbqRun_last_two _ st sf L hL x lim lim ys h
  obtain ⟨x1, x2, y1, y2⟩ := s0
  have e1 := fbiquad4_state o c x1 x2 y1 y2 x
  rw [ha] at e1
  simp only at e1
  subst e1
  have e2 := fbiquad4_state o c x x1 lim y1 x
  rw [hb] at e2
  exact e2

/-- **No wind-up, N = 5 (float), run level, in full**: the state is exactly `(x, x, lim, lim, 0.0)`: the remainder word
    of the float `macc` is always `zero`, so nothing is remembered (contrast `no_windup5_full_false` for fixed point) -/
theorem fbq_no_windup5 (o : BOps α) (c : FBiquadCfg α) (st sf : α × α × α × α × α) (L : Nat) (hL : 2 ≤ L)
    (x lim : α) (ys : List α) (h : fbqRun5 o c st (List.replicate L x) = (sf, ys ++ [lim, lim])) :
    sf = (x, x, lim, lim, o.zero) := by
  obtain ⟨s0, s1, ha, hb⟩ := fbqRun_last_two _ st sf L hL x lim lim ys h
  obtain ⟨x1, x2, y1, y2, e1⟩ := s0
  have f1 : fbiquadUpdate5 o c (x1, x2, y1, y2, e1) x =
      ((x, x1, (fbiquadUpdate5 o c (x1, x2, y1, y2, e1) x).2, y1, o.zero),
        (fbiquadUpdate5 o c (x1, x2, y1, y2, e1) x).2) := rfl
  rw [ha] at f1
  have e := congrArg Prod.fst f1
  simp only at e
  subst e
  have f2 : fbiquadUpdate5 o c (x, x1, lim, y1, o.zero) x =
      ((x, x, (fbiquadUpdate5 o c (x, x1, lim, y1, o.zero) x).2, lim, o.zero),
        (fbiquadUpdate5 o c (x, x1, lim, y1, o.zero) x).2) := rfl
  rw [hb] at f2
  exact congrArg Prod.fst f2

/-- immediate recovery for N = 4 and N = 5: episodes of different lengths end in the same state -/
theorem fbq_no_windup45_recovery (o : BOps α) (c : FBiquadCfg α) (L1 L2 : Nat) (h1 : 2 ≤ L1) (h2 : 2 ≤ L2)
    (x lim : α) :
    (∀ (stA stB sA sB : α × α × α × α) (ysA ysB : List α),
      fbiquadRun4 o c stA (List.replicate L1 x) = (sA, ysA ++ [lim, lim]) →
      fbiquadRun4 o c stB (List.replicate L2 x) = (sB, ysB ++ [lim, lim]) → sA = sB) ∧
    (∀ (stA stB sA sB : α × α × α × α × α) (ysA ysB : List α),
      fbqRun5 o c stA (List.replicate L1 x) = (sA, ysA ++ [lim, lim]) →
      fbqRun5 o c stB (List.replicate L2 x) = (sB, ysB ++ [lim, lim]) → sA = sB) :=
  ⟨fun stA stB sA sB ysA ysB hA hB =>
      (fbq_no_windup4 o c stA sA L1 h1 x lim ysA hA).trans (fbq_no_windup4 o c stB sB L2 h2 x lim ysB hB).symm,
   fun stA stB sA sB ysA ysB hA hB =>
      (fbq_no_windup5 o c stA sA L1 h1 x lim ysA hA).trans (fbq_no_windup5 o c stB sB L2 h2 x lim ysB hB).symm⟩

/-! ## 3. Non-vacuity -/

/-- the real numbers with exact `+ − × max min` -/
noncomputable def fbqRealOps : BOps ℝ := ⟨0, (· + ·), (· - ·), (· * ·), max, min⟩

/-- the clamp laws hold for the reals (every value "not NaN") -/
theorem fbqReal_clampLaws : ClampLaws fbqRealOps (· ≤ ·) (fun _ => True) :=
  ⟨fun a b _ => ⟨le_max_right a b, trivial⟩, fun a b _ => ⟨min_le_right a b, trivial⟩,
   fun _ _ _ _ _ h1 h2 => le_min h1 h2⟩

/-- ℝ instance, real limits `[−1, 3/2]`: a DF2T filter with feedback (`b = (2, 1, 1/2)`, `a = (−1/2, 1/4)`, offset
    `1/8`) driven by the constant input `1` saturates at `3/2`; episodes of length 2 and 3 end in the same state
    `(2, 1/4)`, as `fbq_no_windup2` says, and all outputs are within the limits, as `fbq_run2_in_limits` says -/
example :
    fbqRun2 fbqRealOps ⟨2, 1, 1 / 2, -1 / 2, 1 / 4, 1 / 8, -1, 3 / 2⟩ (0, 0) (List.replicate 2 1) =
      ((2, 1 / 4), [] ++ [3 / 2, 3 / 2]) ∧
    fbqRun2 fbqRealOps ⟨2, 1, 1 / 2, -1 / 2, 1 / 4, 1 / 8, -1, 3 / 2⟩ (0, 0) (List.replicate 3 1) =
      ((2, 1 / 4), [3 / 2] ++ [3 / 2, 3 / 2]) := by
  simp only [fbqRun2, fbqRun, fbiquadUpdate2, fclip, fbqRealOps, List.replicate]
  norm_num

/-- `fbq_no_windup2` applied to these two runs: the hypotheses are satisfiable, the conclusion is the equality of the
    final states and of all continuations -/
example (sA sB : ℝ × ℝ)
    (hA : fbqRun2 fbqRealOps ⟨2, 1, 1 / 2, -1 / 2, 1 / 4, 1 / 8, -1, 3 / 2⟩ (0, 0) (List.replicate 2 1) =
      (sA, [] ++ [3 / 2, 3 / 2]))
    (hB : fbqRun2 fbqRealOps ⟨2, 1, 1 / 2, -1 / 2, 1 / 4, 1 / 8, -1, 3 / 2⟩ (0, 0) (List.replicate 3 1) =
      (sB, [3 / 2] ++ [3 / 2, 3 / 2])) :
    sA = sB ∧ ∀ zs, fbqRun2 fbqRealOps ⟨2, 1, 1 / 2, -1 / 2, 1 / 4, 1 / 8, -1, 3 / 2⟩ sA zs =
      fbqRun2 fbqRealOps ⟨2, 1, 1 / 2, -1 / 2, 1 / 4, 1 / 8, -1, 3 / 2⟩ sB zs :=
  fbq_no_windup2 _ _ _ _ sA sB 2 3 (by norm_num) (by norm_num) 1 (3 / 2) [] [3 / 2] hA hB

example : ∀ y ∈ (fbqRun2 fbqRealOps ⟨2, 1, 1 / 2, -1 / 2, 1 / 4, 1 / 8, -1, 3 / 2⟩ (0, 0) [1, -7, 100]).2,
    (-1 : ℝ) ≤ y ∧ y ≤ 3 / 2 :=
  fbq_run2_in_limits fbqReal_clampLaws ⟨2, 1, 1 / 2, -1 / 2, 1 / 4, 1 / 8, -1, 3 / 2⟩ trivial trivial
    (by norm_num) _ _

/-- NaN-carrying carrier (`Option ℚ`, `none` = NaN, `maxNum`/`minNum`): a run whose input contains a NaN; the NaN sample
    is clamped to a limit (`NaN.max(mn) = mn`), every output is a number within `[−1, 2]`, and the state afterwards
    contains NaN words — the limits theorem does not need the state to be finite -/
example : fbqRun2 fbqNanOps ⟨some 1, some 1, some 0, some 0, some 0, some 0, some (-1), some 2⟩ (some 0, some 0)
      [some 5, none, some 1] = ((none, some 0), [some 2, some (-1), some (-1)]) := by decide +kernel

example : ∀ y ∈ (fbqRun2 fbqNanOps ⟨some 1, some 1, some 0, some 0, some 0, some 0, some (-1), some 2⟩
      (some 0, some 0) [some 5, none, some 1]).2, fbqNanLe (some (-1)) y ∧ fbqNanLe y (some 2) :=
  fbq_run2_in_limits fbqNan_clampLaws ⟨some 1, some 1, some 0, some 0, some 0, some 0, some (-1), some 2⟩
    (by simp) (by simp) (by show ((-1 : ℚ) ≤ 2); norm_num) _ _

/-- the no-wind-up statement applied in the NaN carrier: two saturation episodes of lengths 2 and 4 -/
example : (fbqRun2 fbqNanOps ⟨some 2, some 1, some 0, some 0, some 0, some 0, some (-1), some 2⟩ (some 0, some 0)
      (List.replicate 2 (some 3))).1 =
    (fbqRun2 fbqNanOps ⟨some 2, some 1, some 0, some 0, some 0, some 0, some (-1), some 2⟩ (none, some 7)
      (List.replicate 4 (some 3))).1 := by decide +kernel

end Idsp
