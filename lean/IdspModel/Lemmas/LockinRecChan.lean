import IdspModel.Lemmas.LockinRecTone
import Mathlib.Algebra.BigOperators.Field
/-!
# Lock-in recovery: one `Lowpass<2>` channel driven by `DC + tone + bounded error`, over the reals

`LkRun α β S T x ρ`: the state (in LSB units, `S = s0/2^32`, `T = s1/2^32`) follows the update of `Lowpass<2>` from
the zero state with input `x n` and truncation disturbance `ρ n ∈ [0, α+β]` (the two floors).
`LkInput x D ε z w0`: the input is `D + Re(w0·z^n)` up to an error `ε`, with `z` on the unit circle, `|z−1| ≥ 0.6`.

Superposition: `S n = D + (β/(2α) + 1/2) + (tone response) − E n` where `E` obeys the disturbance-driven recursion of
`LockinRecLin`, with centred disturbance `|δ| ≤ α·(ε + 1/2 + β/(2α))`.  Consequences:
* `lk_chan_all` — for ALL `n`: `|S n − D|` and `|T n|` are bounded (used to exclude overflow/saturation),
* `lk_chan_late` — once `β·n ≥ 56` the start-up transient is below `2^-38·B`,
* `lk_chan_window` — the window sum of the raw mid-point outputs `(S n + S (n+1))/2`.
-/
namespace Idsp
open Complex

structure LkRun (α β : ℝ) (S T x ρ : ℕ → ℝ) : Prop where
  hS : ∀ n, S (n + 1) = (1 - 2 * α) * S n + (2 - 2 * β) * T n + 2 * α * x n + 2 * ρ n
  hT : ∀ n, T (n + 1) = -(2 * α) * S n + (1 - 2 * β) * T n + 2 * α * x n + 2 * ρ n
  hρ0 : ∀ n, 0 ≤ ρ n
  hρ1 : ∀ n, ρ n ≤ α + β
  hS0 : S 0 = 0
  hT0 : T 0 = 0

structure LkInput (x : ℕ → ℝ) (D ε : ℝ) (z w0 : ℂ) : Prop where
  hz : ‖z‖ = 1
  hz1 : 0.6 ≤ ‖z - 1‖
  hx : ∀ n, |x n - D - lkTc z w0 n| ≤ ε

/-- the static offset `β/(2α) + 1/2` caused by the (one-sided) truncation disturbance -/
noncomputable def lkOff (α β : ℝ) : ℝ := β / (2 * α) + 1 / 2

/-- the disturbance-driven part in error coordinates -/
noncomputable def lkE (α β D : ℝ) (z w0 : ℂ) (S : ℕ → ℝ) (n : ℕ) : ℝ :=
  -(S n - D - lkOff α β - lkTS α β z w0 n)
noncomputable def lkU (α β : ℝ) (z w0 : ℂ) (T : ℕ → ℝ) (n : ℕ) : ℝ := T n - lkTT α β z w0 n

theorem lk_abs_le_add_of_sq_le {x p q : ℝ} (hp : 0 ≤ p) (hq : 0 ≤ q) (h : x ^ 2 ≤ p ^ 2 + q ^ 2) : |x| ≤ p + q := by
  apply abs_le_of_sq_le_sq _ (by linarith)
  nlinarith [mul_nonneg hp hq]

section
variable {α β D ε B : ℝ} {S T x ρ : ℕ → ℝ} {z w0 : ℂ}

/-- squared bounds on the disturbance-driven part at every time -/
theorem lk_chan_sq (hg : LkGain α β) (hr : LkRun α β S T x ρ) (hi : LkInput x D ε z w0)
    (hB0 : |D| + lkOff α β + 12 * α * ‖w0‖ ≤ B) (hB1 : ‖w0‖ ≤ B) (n : ℕ) :
    lkE α β D z w0 S n ^ 2 ≤ 2.34 * (lkLam α β ^ n * B ^ 2) + (2.04 * (ε + lkOff α β)) ^ 2 ∧
    lkU α β z w0 T n ^ 2 ≤ 2.35 * α * (lkLam α β ^ n * B ^ 2) + 4.2 * α * (ε + lkOff α β) ^ 2 := by
  have h1 := hg.hα; have h3 := hg.hβ0; have h2 := hg.hα1; have h4 := hg.hβ1
  have hχ := lkChi_ne hg z hi.hz1
  have hε : 0 ≤ ε := le_trans (abs_nonneg _) (hi.hx 0)
  have hoff : lkOff α β = (α + β) / (2 * α) := by unfold lkOff; field_simp; ring
  have hoff0 : 0 ≤ lkOff α β := by unfold lkOff; positivity
  have hw0 : 0 ≤ ‖w0‖ := norm_nonneg _
  have hBpos : 0 ≤ B := le_trans hw0 hB1
  -- the centred disturbance
  set δ : ℕ → ℝ := fun n => α * (x n - D - lkTc z w0 n) + ρ n - (α + β) / 2 with hδdef
  have hΔ : ∀ n, |δ n| ≤ α * (ε + lkOff α β) := by
    intro n
    have hx := abs_le.mp (hi.hx n)
    have r0 := hr.hρ0 n; have r1 := hr.hρ1 n
    have e : α * (ε + lkOff α β) = α * ε + (α + β) / 2 := by rw [hoff]; field_simp
    rw [e, abs_le]
    simp only [hδdef]
    constructor
    · nlinarith [mul_le_mul_of_nonneg_left hx.1 h1.le]
    · nlinarith [mul_le_mul_of_nonneg_left hx.2 h1.le]
  have hErec : ∀ n, lkE α β D z w0 S (n + 1)
      = (1 - 2 * α) * lkE α β D z w0 S n - (2 - 2 * β) * lkU α β z w0 T n - 2 * δ n := by
    intro n
    have t := (lkT_rec α β z w0 hχ n).1
    have s := hr.hS n
    have o : 2 * α * lkOff α β = α + β := by rw [hoff]; field_simp
    simp only [lkE, lkU, hδdef]
    rw [t, s]
    linear_combination (1 : ℝ) * o
  have hUrec : ∀ n, lkU α β z w0 T (n + 1)
      = 2 * α * lkE α β D z w0 S n + (1 - 2 * β) * lkU α β z w0 T n + 2 * δ n := by
    intro n
    have t := (lkT_rec α β z w0 hχ n).2
    have s := hr.hT n
    have o : 2 * α * lkOff α β = α + β := by rw [hoff]; field_simp
    simp only [lkE, lkU, hδdef]
    rw [t, s]
    linear_combination (-1 : ℝ) * o
  have hb := hg.seq_bound (lkE α β D z w0 S) (lkU α β z w0 T) δ hErec hUrec hΔ n
  -- the initial value of the form
  have hE0 : |lkE α β D z w0 S 0| ≤ B := by
    simp only [lkE, hr.hS0]
    have := lkTS_abs_le hg z w0 hi.hz hi.hz1 0
    have hD := abs_nonneg D
    rw [abs_le] at this ⊢
    have hD' := neg_abs_le D; have hD'' := le_abs_self D
    constructor <;> linarith
  have hU0 : |lkU α β z w0 T 0| ≤ 12 * α * B := by
    simp only [lkU, hr.hT0, zero_sub, abs_neg]
    have := lkTT_abs_le hg z w0 hi.hz hi.hz1 0
    have : 12 * α * ‖w0‖ ≤ 12 * α * B := by apply mul_le_mul_of_nonneg_left hB1; positivity
    linarith
  have hQ0 : lkQ α β (lkE α β D z w0 S 0) (lkU α β z w0 T 0) ≤ 1.143 * α * B ^ 2 := by
    set e0 := lkE α β D z w0 S 0
    set u0 := lkU α β z w0 T 0
    have a1 : e0 ^ 2 ≤ B ^ 2 := by
      rw [← sq_abs e0]; exact pow_le_pow_left₀ (abs_nonneg _) hE0 2
    have a2 : u0 ^ 2 ≤ (12 * α * B) ^ 2 := by
      rw [← sq_abs u0]; exact pow_le_pow_left₀ (abs_nonneg _) hU0 2
    have a3 : -(e0 * u0) ≤ B * (12 * α * B) := by
      have : |e0 * u0| ≤ B * (12 * α * B) := by
        rw [abs_mul]; exact mul_le_mul hE0 hU0 (abs_nonneg _) hBpos
      have := neg_abs_le (e0 * u0); linarith
    unfold lkQ
    have hba : 0 ≤ β - α := by have := hg.two_alpha_lt; linarith
    have c1 : α * e0 ^ 2 ≤ α * B ^ 2 := mul_le_mul_of_nonneg_left a1 h1.le
    have c2 : -((β - α) * e0 * u0) ≤ (β - α) * (B * (12 * α * B)) := by
      have := mul_le_mul_of_nonneg_left a3 hba; nlinarith
    have c3 : (1 - β) * u0 ^ 2 ≤ (12 * α * B) ^ 2 := by
      have : (1 - β) * u0 ^ 2 ≤ 1 * u0 ^ 2 := mul_le_mul_of_nonneg_right (by linarith) (sq_nonneg _)
      linarith
    -- total ≤ αB²(1 + 12β + 144α)
    have hB2 : 0 ≤ B ^ 2 := sq_nonneg B
    have c4 : (β - α) * (B * (12 * α * B)) ≤ (1 / 90) * (12 * α * B ^ 2) := by
      have : (β - α) ≤ 1 / 90 := by linarith
      have e : (β - α) * (B * (12 * α * B)) = (β - α) * (12 * α * B ^ 2) := by ring
      rw [e]; apply mul_le_mul_of_nonneg_right this; positivity
    have c5 : (12 * α * B) ^ 2 ≤ 144 * (1 / 16000) * (α * B ^ 2) := by
      have e : (12 * α * B) ^ 2 = 144 * α * (α * B ^ 2) := by ring
      rw [e]; apply mul_le_mul_of_nonneg_right _ (by positivity); linarith
    nlinarith
  have hlam : 0 ≤ lkLam α β ^ n := pow_nonneg hg.lam_nonneg n
  have hQ0' : lkLam α β ^ n * lkQ α β (lkE α β D z w0 S 0) (lkU α β z w0 T 0)
      ≤ lkLam α β ^ n * (1.143 * α * B ^ 2) := mul_le_mul_of_nonneg_left hQ0 hlam
  obtain ⟨b1, b2⟩ := hb
  constructor
  · have e1 : 2.04 / α * (lkLam α β ^ n * lkQ α β (lkE α β D z w0 S 0) (lkU α β z w0 T 0))
        ≤ 2.04 / α * (lkLam α β ^ n * (1.143 * α * B ^ 2)) :=
      mul_le_mul_of_nonneg_left hQ0' (by positivity)
    have e2 : 2.04 / α * (lkLam α β ^ n * (1.143 * α * B ^ 2)) = 2.04 * 1.143 * (lkLam α β ^ n * B ^ 2) := by
      field_simp
    have e3 : 2.04 * α * (ε + lkOff α β) / α = 2.04 * (ε + lkOff α β) := by field_simp
    have e4 : (2.04 * (α * (ε + lkOff α β)) / α) = 2.04 * (ε + lkOff α β) := by field_simp
    rw [e4] at b1
    have : 0 ≤ lkLam α β ^ n * B ^ 2 := by positivity
    nlinarith
  · have e1 : 2.05 * (lkLam α β ^ n * lkQ α β (lkE α β D z w0 S 0) (lkU α β z w0 T 0))
        ≤ 2.05 * (lkLam α β ^ n * (1.143 * α * B ^ 2)) :=
      mul_le_mul_of_nonneg_left hQ0' (by positivity)
    have e4 : 4.2 * (α * (ε + lkOff α β)) ^ 2 / α = 4.2 * α * (ε + lkOff α β) ^ 2 := by field_simp
    rw [e4] at b2
    have : 0 ≤ α * (lkLam α β ^ n * B ^ 2) := by positivity
    nlinarith

/-- bounds valid at EVERY time (used to exclude overflow and saturation) -/
theorem lk_chan_all (hg : LkGain α β) (hr : LkRun α β S T x ρ) (hi : LkInput x D ε z w0)
    (hB0 : |D| + lkOff α β + 12 * α * ‖w0‖ ≤ B) (hB1 : ‖w0‖ ≤ B) (n : ℕ) :
    |S n - D| ≤ 2.54 * B + 2.04 * (ε + lkOff α β) ∧
    |T n| ≤ 0.03 * B + 0.02 * (ε + lkOff α β) := by
  have h1 := hg.hα; have h2 := hg.hα1
  obtain ⟨b1, b2⟩ := lk_chan_sq hg hr hi hB0 hB1 n
  have hε : 0 ≤ ε := le_trans (abs_nonneg _) (hi.hx 0)
  have hoff0 : 0 ≤ lkOff α β := by unfold lkOff; have := hg.hβ0; positivity
  have hw0 : 0 ≤ ‖w0‖ := norm_nonneg _
  have hBpos : 0 ≤ B := le_trans hw0 hB1
  have hl1 : lkLam α β ^ n ≤ 1 := pow_le_one₀ hg.lam_nonneg (by have := hg.lam_le; have := hg.hβ0; linarith)
  have hlB : lkLam α β ^ n * B ^ 2 ≤ B ^ 2 := by
    have := mul_le_mul_of_nonneg_right hl1 (sq_nonneg B); linarith
  have hlB0 : 0 ≤ lkLam α β ^ n * B ^ 2 := mul_nonneg (pow_nonneg hg.lam_nonneg n) (sq_nonneg B)
  have hE : |lkE α β D z w0 S n| ≤ 1.53 * B + 2.04 * (ε + lkOff α β) := by
    apply lk_abs_le_add_of_sq_le (by positivity) (by positivity)
    nlinarith
  have hU : |lkU α β z w0 T n| ≤ 0.0125 * B + 0.02 * (ε + lkOff α β) := by
    apply lk_abs_le_add_of_sq_le (by positivity) (by positivity)
    have a : 2.35 * α * (lkLam α β ^ n * B ^ 2) ≤ 2.35 * (1 / 16000) * B ^ 2 := by
      have : α * (lkLam α β ^ n * B ^ 2) ≤ (1 / 16000) * B ^ 2 :=
        mul_le_mul h2 hlB hlB0 (by norm_num)
      nlinarith
    have b : 4.2 * α * (ε + lkOff α β) ^ 2 ≤ 4.2 * (1 / 16000) * (ε + lkOff α β) ^ 2 := by
      have : α * (ε + lkOff α β) ^ 2 ≤ (1 / 16000) * (ε + lkOff α β) ^ 2 :=
        mul_le_mul_of_nonneg_right h2 (sq_nonneg _)
      nlinarith
    nlinarith [sq_nonneg B, sq_nonneg (ε + lkOff α β)]
  have tS := lkTS_abs_le hg z w0 hi.hz hi.hz1 n
  have tT := lkTT_abs_le hg z w0 hi.hz hi.hz1 n
  have hD := abs_nonneg D
  have t12 : 12 * α * ‖w0‖ ≤ 0.00075 * B := by
    have : α * ‖w0‖ ≤ (1 / 16000) * B := mul_le_mul h2 hB1 hw0 (by norm_num)
    nlinarith
  constructor
  · have e : S n - D = lkOff α β + lkTS α β z w0 n - lkE α β D z w0 S n := by unfold lkE; ring
    rw [e]
    rw [abs_le] at hE tS ⊢
    constructor <;> linarith
  · have e : T n = lkU α β z w0 T n + lkTT α β z w0 n := by unfold lkU; ring
    rw [e]
    rw [abs_le] at hU tT ⊢
    constructor <;> linarith

/-- after the settling time (`β·n ≥ 56`) the start-up transient is negligible -/
theorem lk_chan_late (hg : LkGain α β) (hr : LkRun α β S T x ρ) (hi : LkInput x D ε z w0)
    (hB0 : |D| + lkOff α β + 12 * α * ‖w0‖ ≤ B) (hB1 : ‖w0‖ ≤ B) (n : ℕ) (hn : 56 ≤ β * n) :
    |lkE α β D z w0 S n| ≤ B / 2 ^ 38 + 2.04 * (ε + lkOff α β) := by
  obtain ⟨b1, -⟩ := lk_chan_sq hg hr hi hB0 hB1 n
  have hε : 0 ≤ ε := le_trans (abs_nonneg _) (hi.hx 0)
  have hoff0 : 0 ≤ lkOff α β := by unfold lkOff; have := hg.hβ0; have := hg.hα; positivity
  have hBpos : 0 ≤ B := le_trans (norm_nonneg _) hB1
  have hl := hg.lam_pow_le n hn
  have hlB : lkLam α β ^ n * B ^ 2 ≤ 1 / 2 ^ 78 * B ^ 2 := mul_le_mul_of_nonneg_right hl (sq_nonneg B)
  apply lk_abs_le_add_of_sq_le (by positivity) (by positivity)
  have : 2.34 * (1 / 2 ^ 78 * B ^ 2) ≤ (B / 2 ^ 38) ^ 2 := by
    rw [div_pow]
    have : (0:ℝ) ≤ B ^ 2 := sq_nonneg B
    have e : (B ^ 2 / (2 ^ 38) ^ 2 : ℝ) = B ^ 2 * (1 / 2 ^ 76) := by norm_num; ring
    rw [e]; nlinarith
  nlinarith

/-- **window sum of the raw mid-point outputs** `(S n + S (n+1))/2`, any window of length `L` that starts after the
    settling time: it is `L·(D + β/(2α) + 1/2)` up to `40·α·|w0|` (the whole tone!) and `L` times the settled error. -/
theorem lk_chan_window (hg : LkGain α β) (hr : LkRun α β S T x ρ) (hi : LkInput x D ε z w0)
    (hB0 : |D| + lkOff α β + 12 * α * ‖w0‖ ≤ B) (hB1 : ‖w0‖ ≤ B) (n0 L : ℕ) (hn : 56 ≤ β * n0) :
    |∑ i ∈ Finset.range L, ((S (n0 + i) + S (n0 + i + 1)) / 2 - D - lkOff α β)|
      ≤ 40 * α * ‖w0‖ + L * (B / 2 ^ 38 + 2.04 * (ε + lkOff α β)) := by
  have hβ := hg.hβ0
  have hsplit : ∀ i, (S (n0 + i) + S (n0 + i + 1)) / 2 - D - lkOff α β
      = (lkTS α β z w0 (n0 + i) + lkTS α β z w0 (n0 + 1 + i)) / 2
        - (lkE α β D z w0 S (n0 + i) + lkE α β D z w0 S (n0 + i + 1)) / 2 := by
    intro i
    unfold lkE
    rw [show n0 + 1 + i = n0 + i + 1 by ring]
    ring
  rw [Finset.sum_congr rfl (fun i _ => hsplit i), Finset.sum_sub_distrib]
  have hlate : ∀ i, |(lkE α β D z w0 S (n0 + i) + lkE α β D z w0 S (n0 + i + 1)) / 2|
      ≤ B / 2 ^ 38 + 2.04 * (ε + lkOff α β) := by
    intro i
    have g1 : 56 ≤ β * ((n0 + i : ℕ) : ℝ) := by
      push_cast; nlinarith [(Nat.cast_nonneg i : (0:ℝ) ≤ i)]
    have g2 : 56 ≤ β * ((n0 + i + 1 : ℕ) : ℝ) := by
      push_cast; nlinarith [(Nat.cast_nonneg i : (0:ℝ) ≤ i)]
    have a := lk_chan_late hg hr hi hB0 hB1 (n0 + i) g1
    have b := lk_chan_late hg hr hi hB0 hB1 (n0 + i + 1) g2
    rw [abs_le] at a b ⊢
    constructor <;> linarith
  have hs2 : |∑ i ∈ Finset.range L, (lkE α β D z w0 S (n0 + i) + lkE α β D z w0 S (n0 + i + 1)) / 2|
      ≤ L * (B / 2 ^ 38 + 2.04 * (ε + lkOff α β)) := by
    calc _ ≤ ∑ i ∈ Finset.range L, |(lkE α β D z w0 S (n0 + i) + lkE α β D z w0 S (n0 + i + 1)) / 2| :=
          Finset.abs_sum_le_sum_abs _ _
      _ ≤ ∑ _i ∈ Finset.range L, (B / 2 ^ 38 + 2.04 * (ε + lkOff α β)) :=
          Finset.sum_le_sum (fun i _ => hlate i)
      _ = L * (B / 2 ^ 38 + 2.04 * (ε + lkOff α β)) := by
          rw [Finset.sum_const, Finset.card_range, nsmul_eq_mul]
  have hs1 : |∑ i ∈ Finset.range L, (lkTS α β z w0 (n0 + i) + lkTS α β z w0 (n0 + 1 + i)) / 2|
      ≤ 40 * α * ‖w0‖ := by
    have e : ∑ i ∈ Finset.range L, (lkTS α β z w0 (n0 + i) + lkTS α β z w0 (n0 + 1 + i)) / 2
        = (∑ i ∈ Finset.range L, lkTS α β z w0 (n0 + i) + ∑ i ∈ Finset.range L, lkTS α β z w0 (n0 + 1 + i)) / 2 := by
      rw [← Finset.sum_add_distrib, Finset.sum_div]
    rw [e]
    have a := lkTS_sum_le hg z w0 hi.hz hi.hz1 n0 L
    have b := lkTS_sum_le hg z w0 hi.hz hi.hz1 (n0 + 1) L
    rw [abs_le] at a b ⊢
    constructor <;> linarith
  calc _ ≤ |∑ i ∈ Finset.range L, (lkTS α β z w0 (n0 + i) + lkTS α β z w0 (n0 + 1 + i)) / 2|
        + |∑ i ∈ Finset.range L, (lkE α β D z w0 S (n0 + i) + lkE α β D z w0 S (n0 + i + 1)) / 2| :=
        abs_sub _ _
    _ ≤ _ := by linarith

end
end Idsp
