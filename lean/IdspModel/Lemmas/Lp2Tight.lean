import IdspModel.Lemmas.Lp2Level2
/-!
# Second-order lowpass: the tight settled region and the `4·2^32/k + 4` bound for EVERY documented pair

Inside the equilibrium level set `V ≤ V*` the sector argument bounds the centred error by
`R* = √(V*·(1/a + 1/(2^32−b)))`, which is `≈ 2^32/k` LSB — independently of the discriminant, so that the heavily
rounded configurations `k0 = 1` near a double root are covered as well.  The region
`Lp2Tight = Lp2Settled ∧ |Ē| ≤ R` is forward invariant (`lp2_tight_next`) and is entered from every settled state
after finitely many steps (`lp2_tight_eventually`); with `R = ⌊3·a·2^64/k⌋ + 1` it gives the bound (`lp2_tight_out`).
-/
namespace Idsp
set_option linter.unusedVariables false

/-- the (floor of the) equilibrium level -/
def lp2Vs (a b : Int) : Int := 4 * (4294967296 - b) * lp2U a b ^ 2 / (b * (b - 2 * a))

theorem lp2_settled_iff {a b x : Int} {st : Int × Int} (hbb : 0 < b * (b - 2 * a)) :
    Lp2Settled a b x st ↔ lp2V a b x st ≤ lp2Vs a b := by
  unfold Lp2Settled lp2Vs
  rw [Int.le_ediv_iff_mul_le hbb, mul_comm]

/-- `R` is large enough for the sector argument at the equilibrium level -/
structure Lp2RGood (a b R : Int) : Prop where
  hR0 : 0 ≤ R
  hRV : (4294967296 - b + a) * lp2Vs a b ≤ a * (4294967296 - b) * R ^ 2

def Lp2Tight (a b x R : Int) (st : Int × Int) : Prop :=
  Lp2Settled a b x st ∧ -R ≤ lp2Eb a b x st.1 ∧ lp2Eb a b x st.1 ≤ R

theorem lp2_Vs_le {a b R : Int} (ha : 0 < a) (hbM : b < 4294967296) (hG : Lp2RGood a b R) :
    lp2Vs a b ≤ a * R ^ 2 := by
  have h := hG.hRV
  have hc : (0 : Int) < 4294967296 - b + a := by omega
  have : (4294967296 - b + a) * lp2Vs a b ≤ (4294967296 - b + a) * (a * R ^ 2) := by
    have h0 : 0 ≤ a * R ^ 2 := by positivity
    nlinarith
  exact le_of_mul_le_mul_left this hc

/-- one plain step from a settled state: stays settled, and the centred error obeys the sector alternatives -/
theorem lp2_tight_step {a b x R : Int} (st : Int × Int) (hA : Lp2Adm a b) (hD5 : 5 * a ^ 2 ≤ lp2Disc a b)
    (hG : Lp2RGood a b R) (hs : Lp2Settled a b x st) :
    Lp2Settled a b x (lp2Next x a (-b) st) ∧
    (-R ≤ lp2Eb a b x (lp2Next x a (-b) st).1 ∨ lp2Eb a b x st.1 ≤ lp2Eb a b x (lp2Next x a (-b) st).1) ∧
    (lp2Eb a b x (lp2Next x a (-b) st).1 ≤ R ∨ lp2Eb a b x (lp2Next x a (-b) st).1 ≤ lp2Eb a b x st.1) ∧
    lp2Eb a b x (lp2Next x a (-b) st).1 = lp2Eb a b x st.1 - (2 * a * st.2 + 2 * a * (lp2Next x a (-b) st).2) := by
  obtain ⟨ha0, ha1, hba, hb1, hD⟩ := hA
  have ha : 0 < a := by omega
  have hb : 0 < b := by omega
  have hbb : 0 < b * (b - 2 * a) := by apply mul_pos <;> omega
  obtain ⟨u, hu, hrE, hrs⟩ := lp2_centered_rec x a b st ha hb
  have hinv := lp2Q_invariant_star ha (le_of_lt hD) hb hb1 hba _ _ _ _ u (lp2U a b) hrE hrs hu
  have hs' : Lp2Settled a b x (lp2Next x a (-b) st) := hinv hs
  have hV := (lp2_settled_iff hbb).mp hs
  have hV' := (lp2_settled_iff hbb).mp hs'
  have hVsR := lp2_Vs_le ha (by omega) hG
  have hR0 := hG.hR0
  -- velocity extent ≤ R
  have hsext : (2 * a * st.2) ^ 2 ≤ R ^ 2 := by
    have e2 := lp2Q_extent_s a b (lp2Eb a b x st.1) (2 * a * st.2)
    unfold lp2V at hV
    have h1 : lp2Disc a b * (2 * a * st.2) ^ 2 ≤ 4 * a * (a * R ^ 2) := by
      have : 4 * a * lp2Q a b (lp2Eb a b x st.1) (2 * a * st.2) ≤ 4 * a * (a * R ^ 2) :=
        mul_le_mul_of_nonneg_left (le_trans hV hVsR) (by omega)
      linarith
    have h2 : 4 * a * (a * R ^ 2) ≤ lp2Disc a b * R ^ 2 := by nlinarith [sq_nonneg R]
    exact le_of_mul_le_mul_left (le_trans h1 h2) hD
  obtain ⟨hs0, hs1⟩ := abs_le_of_sq_le_sq' hsext hR0
  have hstepE : lp2Eb a b x (lp2Next x a (-b) st).1
      = lp2Eb a b x st.1 - (2 * a * st.2 + 2 * a * (lp2Next x a (-b) st).2) := by
    unfold lp2Eb lp2Next; ring
  refine ⟨hs', ?_, ?_, hstepE⟩
  · exact lp2_sector_lower' (a := a) (b := b) ha (by omega) (by omega) hR0 (le_refl R) hs1 hG.hRV
      (by unfold lp2V at hV; exact hV) (by unfold lp2V at hV'; exact hV') hstepE
  · exact lp2_sector_upper' (a := a) (b := b) ha (by omega) (by omega) hR0 (le_refl R) hs0 hG.hRV
      (by unfold lp2V at hV; exact hV) (by unfold lp2V at hV'; exact hV') hstepE

/-- the tight region is forward invariant under the plain map -/
theorem lp2_tight_next {a b x R : Int} (st : Int × Int) (hA : Lp2Adm a b) (hD5 : 5 * a ^ 2 ≤ lp2Disc a b)
    (hG : Lp2RGood a b R) (ht : Lp2Tight a b x R st) : Lp2Tight a b x R (lp2Next x a (-b) st) := by
  obtain ⟨hs, h0, h1⟩ := ht
  obtain ⟨hs', hl, hu, -⟩ := lp2_tight_step st hA hD5 hG hs
  exact ⟨hs', by omega, by omega⟩

theorem lp2_tight_seq {a b x R : Int} (hA : Lp2Adm a b) (hD5 : 5 * a ^ 2 ≤ lp2Disc a b)
    (hG : Lp2RGood a b R) (n : Nat) (st : Int × Int) (ht : Lp2Tight a b x R st) :
    Lp2Tight a b x R (lp2Seq x a (-b) n st) := by
  induction n generalizing st with
  | zero => exact ht
  | succ n ih => exact ih _ (lp2_tight_next st hA hD5 hG ht)

/-- in a settled state with the error outside `[-R, R]` and the velocity pointing away from zero the form would
    exceed the equilibrium level -/
theorem lp2_tight_contra {a b x R : Int} (st : Int × Int) (ha : 0 < a) (hab : a < b) (hbM : b < 4294967296)
    (hbb : 0 < b * (b - 2 * a)) (hG : Lp2RGood a b R) (hs : Lp2Settled a b x st)
    (hsgn : lp2Eb a b x st.1 * (2 * a * st.2) ≤ 0) (hout : R ^ 2 < lp2Eb a b x st.1 ^ 2) : False := by
  have hV := (lp2_settled_iff hbb).mp hs
  have hVsR := lp2_Vs_le ha hbM hG
  unfold lp2V lp2Q at hV
  have h1 : 0 ≤ -((b - a) * (lp2Eb a b x st.1 * (2 * a * st.2))) := by
    have : (b - a) * (lp2Eb a b x st.1 * (2 * a * st.2)) ≤ 0 :=
      mul_nonpos_of_nonneg_of_nonpos (by omega) hsgn
    omega
  have h2 : 0 ≤ (4294967296 - b) * (2 * a * st.2) ^ 2 := mul_nonneg (by omega) (sq_nonneg _)
  have h3 : a * R ^ 2 < a * lp2Eb a b x st.1 ^ 2 := mul_lt_mul_of_pos_left hout ha
  nlinarith

/-- from every settled state the tight region is entered after finitely many plain steps -/
theorem lp2_tight_eventually {a b x R : Int} (hA : Lp2Adm a b) (hD5 : 5 * a ^ 2 ≤ lp2Disc a b)
    (hG : Lp2RGood a b R) (st : Int × Int) (hs : Lp2Settled a b x st) :
    ∃ N : Nat, Lp2Tight a b x R (lp2Seq x a (-b) N st) := by
  have ha : 0 < a := by have := hA.ha0; omega
  have hab : a < b := by have := hA.hba; omega
  have hbM : b < 4294967296 := by have := hA.hb1; omega
  have hbb : 0 < b * (b - 2 * a) := by
    have := hA.hba; apply mul_pos <;> omega
  have hR0 := hG.hR0
  have key : ∀ (μ : Nat) (st : Int × Int), Lp2Settled a b x st → |lp2Eb a b x st.1| - R ≤ (μ : Int) →
      ∃ N : Nat, Lp2Tight a b x R (lp2Seq x a (-b) N st) := by
    intro μ
    induction μ using Nat.strongRecOn with
    | _ μ ih =>
      intro st hs hμ
      by_cases hin : -R ≤ lp2Eb a b x st.1 ∧ lp2Eb a b x st.1 ≤ R
      · exact ⟨0, hs, hin.1, hin.2⟩
      obtain ⟨hs1, hl1, hu1, he1⟩ := lp2_tight_step st hA hD5 hG hs
      obtain ⟨hs2, hl2, hu2, he2⟩ := lp2_tight_step (lp2Next x a (-b) st) hA hD5 hG hs1
      generalize hE0 : lp2Eb a b x st.1 = E0 at *
      generalize hE1 : lp2Eb a b x (lp2Next x a (-b) st).1 = E1 at *
      generalize hE2 : lp2Eb a b x (lp2Next x a (-b) (lp2Next x a (-b) st)).1 = E2 at *
      by_cases hin1 : -R ≤ E1 ∧ E1 ≤ R
      · exact ⟨1, by simp only [lp2Seq]; exact ⟨hs1, by omega, by omega⟩⟩
      by_cases hin2 : -R ≤ E2 ∧ E2 ≤ R
      · exact ⟨2, by simp only [lp2Seq]; exact ⟨hs2, by omega, by omega⟩⟩
      -- the error stays outside on the same side and does not move away from zero
      have hmono : |E2| ≤ |E1| ∧ |E1| ≤ |E0| ∧ R < |E2| ∧ (0 < E0 ∧ 0 < E1 ∧ 0 < E2 ∨ E0 < 0 ∧ E1 < 0 ∧ E2 < 0) := by
        rcases abs_cases E0 with ⟨e0, _⟩ | ⟨e0, _⟩ <;> rcases abs_cases E1 with ⟨e1, _⟩ | ⟨e1, _⟩ <;>
          rcases abs_cases E2 with ⟨e2, _⟩ | ⟨e2, _⟩ <;> rw [e0, e1, e2] <;> omega
      obtain ⟨hm2, hm1, hout2, hsame⟩ := hmono
      by_cases hstrict : |E2| < |E0|
      · have hμ0 : 0 < μ := by omega
        obtain ⟨N, hN⟩ := ih (μ - 1) (by omega) _ hs2 (by rw [hE2]; omega)
        exact ⟨N + 2, by simpa [lp2Seq] using hN⟩
      · -- stalled: E0 = E1 = E2, so the velocity alternates in sign; contradiction with the level
        exfalso
        have hEq1 : E1 = E0 := by
          rcases hsame with ⟨p0, p1, p2⟩ | ⟨p0, p1, p2⟩
          · rw [abs_of_pos p0, abs_of_pos p1] at hm1; rw [abs_of_pos p2, abs_of_pos p1] at hm2
            rw [abs_of_pos p2, abs_of_pos p0] at hstrict; omega
          · rw [abs_of_neg p0, abs_of_neg p1] at hm1; rw [abs_of_neg p2, abs_of_neg p1] at hm2
            rw [abs_of_neg p2, abs_of_neg p0] at hstrict; omega
        have hσ : 2 * a * st.2 + 2 * a * (lp2Next x a (-b) st).2 = 0 := by omega
        have hout0 : R ^ 2 < E0 ^ 2 := by
          have : R < |E0| := by omega
          have h2 : R ^ 2 < |E0| ^ 2 := by nlinarith
          rwa [sq_abs] at h2
        -- one of the two velocities has the sign opposite to E0 (or is zero)
        by_cases hsg : E0 * (2 * a * st.2) ≤ 0
        · exact lp2_tight_contra st ha hab hbM hbb hG hs (by rw [hE0]; exact hsg) (by rw [hE0]; exact hout0)
        · have hsg' : E1 * (2 * a * (lp2Next x a (-b) st).2) ≤ 0 := by
            have : 2 * a * (lp2Next x a (-b) st).2 = -(2 * a * st.2) := by omega
            rw [this, hEq1]; nlinarith
          exact lp2_tight_contra (lp2Next x a (-b) st) ha hab hbM hbb hG hs1 (by rw [hE1]; exact hsg')
            (by rw [hE1, hEq1]; exact hout0)
  exact key (|lp2Eb a b x st.1| - R).toNat st hs (by omega)

/-! ### the comparison with `4·2^32/k + 4` -/

/-- `[O]`: `b·k ≤ 3·a·2^32` -/
theorem lp2_cmp_O {k a b : Int} (h : Lp2Butter k a b) : b * k ≤ 3 * (a * 4294967296) := by
  have h1 := h.ha1; have ha := h.a_ge; have hb := h.b_upper; have hk := h.hk0; have hb0 := h.hb0
  have : k ^ 2 ≤ 2 * (a * 4294967296) := by nlinarith
  nlinarith

/-- `[F]`: `4k²(a+b)²(2^32−b+a) ≤ 9·a·2^64·b(b−2a)`, i.e. the sector radius is at most `1.5·2^32/k` LSB -/
theorem lp2_cmp_F {k a b : Int} (h : Lp2Butter k a b) :
    4 * k ^ 2 * ((a + b) ^ 2 * (4294967296 - b + a)) ≤ 9 * a * 4294967296 ^ 2 * (b * (b - 2 * a)) := by
  have h1 := h.ha1; have ha := h.a_ge; have hk := h.hk0; have hb0 := h.hb0; have hbl := h.b_le
  have hbg := h.b_ge; have h4 := h.four_a_le
  have hX0 : 0 ≤ (a + b) ^ 2 * (4294967296 - b + a) := by
    have : (0 : Int) ≤ 4294967296 - b + a := by omega
    positivity
  by_cases hs : b ≤ 16777216
  · have h5 := h.small_a hs
    -- 4k² ≤ 8aM and 8(a+b)²(M−b+a) ≤ 9·M·b(b−2a)
    have hk2 : 4 * k ^ 2 ≤ 8 * (a * 4294967296) := by nlinarith
    have e1 : (500 * (a + b)) ^ 2 ≤ (501 * b) ^ 2 := pow_le_pow_left₀ (by omega) (by omega) 2
    have e2 : 250 * (b * (b - 2 * a)) ≥ 249 * b ^ 2 := by nlinarith
    have e3 : (a + b) ^ 2 * (4294967296 - b + a) ≤ (a + b) ^ 2 * 4294967296 :=
      mul_le_mul_of_nonneg_left (by omega) (sq_nonneg _)
    have e4 : 8 * ((a + b) ^ 2 * (4294967296 - b + a)) ≤ 9 * 4294967296 * (b * (b - 2 * a)) := by nlinarith
    calc 4 * k ^ 2 * ((a + b) ^ 2 * (4294967296 - b + a))
        ≤ 8 * (a * 4294967296) * ((a + b) ^ 2 * (4294967296 - b + a)) := mul_le_mul_of_nonneg_right hk2 hX0
      _ = (a * 4294967296) * (8 * ((a + b) ^ 2 * (4294967296 - b + a))) := by ring
      _ ≤ (a * 4294967296) * (9 * 4294967296 * (b * (b - 2 * a))) :=
          mul_le_mul_of_nonneg_left e4 (by positivity)
      _ = _ := by ring
  · have hl : 16777216 ≤ b := by omega
    have hal := h.large_a hl
    have haM := h.ha0; have hb2 := h.hb2
    -- 2048·4k² ≤ 8193·aM
    have hk2 : 2048 * (4 * k ^ 2) ≤ 8193 * (a * 4294967296) := by nlinarith
    have haMb : 2 * (a * 4294967296) ≤ (b + 1) ^ 2 := by nlinarith
    have e4 : 8193 * ((a + b) ^ 2 * (4294967296 - b + a)) ≤ 2048 * (9 * 4294967296 * (b * (b - 2 * a))) := by
      have hbb : 16777216 * b ≤ b * b := mul_le_mul_of_nonneg_right hl (by omega)
      have hq : 0 ≤ a * (b + 2 - 4 * a) := mul_nonneg (by omega) (by omega)
      have t1 : 0 ≤ ((b + 1) ^ 2 - 2 * (a * 4294967296)) * (53250 * b + 8193 * a) :=
        mul_nonneg (by linarith) (by nlinarith)
      have t2 : 0 ≤ (4294967296 - 2 * b) * (10239 * b ^ 2) := mul_nonneg (by omega) (by positivity)
      have t3 : 0 ≤ a * (b + 2 - 4 * a) * b := mul_nonneg hq (by omega)
      have t4 : 0 ≤ a * (b + 2 - 4 * a) * (b + 2) := mul_nonneg hq (by omega)
      have t5 : 0 ≤ a * (b + 2 - 4 * a) * a := mul_nonneg hq (by omega)
      have hb3 : 16777216 * (b * b) ≤ b * (b * b) := mul_le_mul_of_nonneg_right hl (by positivity)
      have hab : 0 ≤ a * b := by positivity
      have hab2 : 16777216 * (a * b) ≤ a * b * b := by nlinarith
      nlinarith
    have : 2048 * (4 * k ^ 2 * ((a + b) ^ 2 * (4294967296 - b + a)))
        ≤ 2048 * (9 * a * 4294967296 ^ 2 * (b * (b - 2 * a))) := by
      calc 2048 * (4 * k ^ 2 * ((a + b) ^ 2 * (4294967296 - b + a)))
          = (2048 * (4 * k ^ 2)) * ((a + b) ^ 2 * (4294967296 - b + a)) := by ring
        _ ≤ (8193 * (a * 4294967296)) * ((a + b) ^ 2 * (4294967296 - b + a)) :=
            mul_le_mul_of_nonneg_right hk2 hX0
        _ = (a * 4294967296) * (8193 * ((a + b) ^ 2 * (4294967296 - b + a))) := by ring
        _ ≤ (a * 4294967296) * (2048 * (9 * 4294967296 * (b * (b - 2 * a)))) :=
            mul_le_mul_of_nonneg_left e4 (by positivity)
        _ = _ := by ring
    linarith

/-- the radius used for the final bound: `⌊3·a·2^64/k⌋ + 1`, i.e. `1.5·2^32/k` LSB -/
def lp2Rk (k a : Int) : Int := 3 * a * 4294967296 ^ 2 / k + 1

theorem lp2_Rk_good {k a b : Int} (h : Lp2Butter k a b) : Lp2RGood a b (lp2Rk k a) := by
  have ha := h.a_ge; have hk := h.hk0; have hbl := h.b_le; have hbg := h.b_ge; have hba := h.two_a_lt
  have hk0 : 0 < k := by omega
  have hbb : 0 < b * (b - 2 * a) := by apply mul_pos <;> omega
  have hF := lp2_cmp_F h
  have hq : 3 * a * 4294967296 ^ 2 < lp2Rk k a * k := by
    unfold lp2Rk; exact Int.lt_ediv_add_one_mul_self _ hk0
  have hRpos : 0 < lp2Rk k a := by
    by_contra hc
    have : lp2Rk k a * k ≤ 0 := mul_nonpos_of_nonpos_of_nonneg (by omega) (by omega)
    have : (0 : Int) < 3 * a * 4294967296 ^ 2 := by positivity
    omega
  refine ⟨le_of_lt hRpos, ?_⟩
  -- (M−b+a)·Vs·b(b−2a) ≤ (M−b+a)·Ls and Ls·k² ≤ … ≤ a(M−b)R²·b(b−2a)·k²
  have hVs : lp2Vs a b * (b * (b - 2 * a)) ≤ 4 * (4294967296 - b) * lp2U a b ^ 2 := by
    unfold lp2Vs; exact Int.ediv_mul_le _ (by omega)
  have hsq : (3 * a * 4294967296 ^ 2) ^ 2 ≤ (lp2Rk k a * k) ^ 2 :=
    pow_le_pow_left₀ (by positivity) (le_of_lt hq) 2
  have hMb : (0 : Int) < 4294967296 - b := by omega
  have hc : (0 : Int) ≤ 4294967296 - b + a := by omega
  -- work with everything multiplied by k²·b(b−2a)
  have goal' : (k ^ 2 * (b * (b - 2 * a))) * ((4294967296 - b + a) * lp2Vs a b)
      ≤ (k ^ 2 * (b * (b - 2 * a))) * (a * (4294967296 - b) * lp2Rk k a ^ 2) := by
    have s1 : (k ^ 2 * (b * (b - 2 * a))) * ((4294967296 - b + a) * lp2Vs a b)
        ≤ k ^ 2 * (4294967296 - b + a) * (4 * (4294967296 - b) * lp2U a b ^ 2) := by
      have := mul_le_mul_of_nonneg_left hVs (show 0 ≤ k ^ 2 * (4294967296 - b + a) by positivity)
      nlinarith
    have s2 : k ^ 2 * (4294967296 - b + a) * (4 * (4294967296 - b) * lp2U a b ^ 2)
        = (a ^ 2 * 4294967296 ^ 2 * (4294967296 - b)) * (4 * k ^ 2 * ((a + b) ^ 2 * (4294967296 - b + a))) := by
      unfold lp2U; ring
    have s3 : (a ^ 2 * 4294967296 ^ 2 * (4294967296 - b)) * (4 * k ^ 2 * ((a + b) ^ 2 * (4294967296 - b + a)))
        ≤ (a ^ 2 * 4294967296 ^ 2 * (4294967296 - b)) * (9 * a * 4294967296 ^ 2 * (b * (b - 2 * a))) :=
      mul_le_mul_of_nonneg_left hF (by positivity)
    have s4 : (a ^ 2 * 4294967296 ^ 2 * (4294967296 - b)) * (9 * a * 4294967296 ^ 2 * (b * (b - 2 * a)))
        = (a * (4294967296 - b) * (b * (b - 2 * a))) * (3 * a * 4294967296 ^ 2) ^ 2 := by ring
    have s5 : (a * (4294967296 - b) * (b * (b - 2 * a))) * (3 * a * 4294967296 ^ 2) ^ 2
        ≤ (a * (4294967296 - b) * (b * (b - 2 * a))) * (lp2Rk k a * k) ^ 2 :=
      mul_le_mul_of_nonneg_left hsq (by positivity)
    calc _ ≤ _ := s1
      _ = _ := s2
      _ ≤ _ := s3
      _ = _ := s4
      _ ≤ _ := s5
      _ = _ := by ring
  exact le_of_mul_le_mul_left goal' (by positivity)

/-- **in the tight region `|get() − x| ≤ 4·2^32/k + 4`**, for EVERY documented pair -/
theorem lp2_tight_out {k a b x : Int} (h : Lp2Butter k a b) (s : Int)
    (h0 : -(lp2Rk k a) ≤ lp2Eb a b x s) (h1 : lp2Eb a b x s ≤ lp2Rk k a) :
    k * (|s / 4294967296 - x| - 4) ≤ 4 * 4294967296 := by
  have ha := h.a_ge; have hk := h.hk0; have hbg := h.b_ge
  have hk0 : 0 < k := by omega
  have hO := lp2_cmp_O h
  have hRk : lp2Rk k a * k ≤ 3 * a * 4294967296 ^ 2 + k := by
    unfold lp2Rk
    have := Int.ediv_mul_le (3 * a * 4294967296 ^ 2) (show k ≠ 0 by omega)
    nlinarith
  have habs : |lp2Eb a b x s| * k ≤ 3 * a * 4294967296 ^ 2 + k := by
    have : |lp2Eb a b x s| ≤ lp2Rk k a := abs_le.mpr ⟨h0, h1⟩
    exact le_trans (mul_le_mul_of_nonneg_right this (by omega)) hRk
  have hout := lp2_out_abs (a := a) (b := b) (x := x) (s := s) (c := k)
    (R := 3 * a * 4294967296 ^ 2 + k) (by omega) (by omega) hk0 habs
  rw [abs_sub_comm]
  -- 2aM·k·Y ≤ 3aM² + k + (a+b)M·k ≤ 2aM·(4M + 4k)
  have hpos : (0 : Int) < 2 * a * 4294967296 := by positivity
  have h4 : (2 * a * 4294967296) * (k * (|x - s / 4294967296| - 4)) ≤ (2 * a * 4294967296) * (4 * 4294967296) := by
    have hbk : b * 4294967296 * k ≤ 3 * (a * 4294967296) * 4294967296 := by nlinarith
    have hak : 0 ≤ a * k := by positivity
    nlinarith
  exact le_of_mul_le_mul_left h4 hpos

end Idsp
