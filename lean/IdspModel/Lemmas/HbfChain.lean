import IdspModel.Lemmas.HbfRun
/-! Chains (cascades) of half-band stages: the cascade loops of the model are chains in application order,
    block-by-block processing of a chain equals stage-by-stage processing of block lists, and the chain
    specification is the composition of the stage specifications. -/
namespace Idsp
variable {α : Type}

section Generic
variable {σ : Type} (proc : σ → List α → σ × List α)

/-- a chain of block processors in application order (the first element sees the input) -/
def chainG : List σ → List α → List σ × List α
  | [], y => ([], y)
  | s :: rest, y =>
    let r := proc s y
    let r2 := chainG rest r.2
    (r.1 :: r2.1, r2.2)

theorem chainG_length (c : List σ) (y : List α) : (chainG proc c y).1.length = c.length := by
  induction c generalizing y with
  | nil => rfl
  | cons s rest ih => simp [chainG, ih]

theorem runG_chain_nil (bs : List (List α)) : runG (chainG proc) [] bs = ([], bs) := by
  induction bs with
  | nil => rfl
  | cons b bs ih => simp [runG, chainG, ih]

/-- feeding blocks one by one through the whole chain = feeding all blocks through the first stage, then all
    its output blocks through the rest of the chain -/
theorem runG_chain_cons (s : σ) (rest : List σ) (bs : List (List α)) :
    runG (chainG proc) (s :: rest) bs =
      ((runG proc s bs).1 :: (runG (chainG proc) rest (runG proc s bs).2).1,
       (runG (chainG proc) rest (runG proc s bs).2).2) := by
  induction bs generalizing s rest with
  | nil => rfl
  | cons b bs ih => simp [runG, chainG, ih]

theorem runG_length (c : List σ) (bs : List (List α)) : (runG (chainG proc) c bs).1.length = c.length := by
  induction bs generalizing c with
  | nil => rfl
  | cons b bs ih => simp [runG, ih, chainG_length]

end Generic

/-! ### decimator chains -/

/-- (taps, last `M-1` even-phase inputs, last `2M-1` odd-phase inputs) -/
def HbfDec.absT (d : HbfDec α) : List α × List α × List α := (d.odd.taps, d.abs.1, d.abs.2)

/-- every intermediate block of a decimator chain is admissible; `ms` = `blockMax` of the stages in application
    order, `n` = length of the block presented to the first one -/
def decAdmL : List Nat → Nat → Prop
  | [], _ => True
  | m :: ms, n => n % 2 = 0 ∧ n ≤ m ∧ decAdmL ms (n / 2)

def decChainSpec (o : Ops α) : List (List α × List α × List α) → List α → List α
  | [], x => x
  | (t, he, ho) :: rest, x => decChainSpec o rest (hbfDecSpec o t he ho x)

def decChainNext (o : Ops α) : List (List α × List α × List α) → List α → List (List α × List α × List α)
  | [], _ => []
  | (t, he, ho) :: rest, x =>
    (t, (decNext t.length he ho x).1, (decNext t.length he ho x).2) :: decChainNext o rest (hbfDecSpec o t he ho x)

theorem decChain_run_spec (o : Ops α) (c : List (HbfDec α)) (wf : ∀ s ∈ c, s.WF) (bs : List (List α))
    (adm : ∀ b ∈ bs, decAdmL (c.map HbfDec.blockMax) b.length) :
    (runG (chainG (HbfDec.process o)) c bs).2.flatten = decChainSpec o (c.map HbfDec.absT) bs.flatten ∧
    (runG (chainG (HbfDec.process o)) c bs).1.map HbfDec.absT = decChainNext o (c.map HbfDec.absT) bs.flatten ∧
    (∀ s ∈ (runG (chainG (HbfDec.process o)) c bs).1, s.WF) ∧
    (runG (chainG (HbfDec.process o)) c bs).1.map HbfDec.blockMax = c.map HbfDec.blockMax ∧
    (runG (chainG (HbfDec.process o)) c bs).2.map List.length = bs.map (fun b => b.length / 2 ^ c.length) := by
  induction c generalizing bs with
  | nil => simp [runG_chain_nil, decChainSpec, decChainNext]
  | cons s rest ih =>
    have wfs : s.WF := wf s (by simp)
    have adms : ∀ b ∈ bs, s.Adm b := by
      intro b hb
      have := adm b hb
      simp only [List.map_cons, decAdmL] at this
      exact ⟨this.1, this.2.1⟩
    obtain ⟨r1, r2, r3, r4, r5, r6⟩ := HbfDec.run_spec o s wfs bs adms
    simp only [HbfDec.run] at r1 r2 r3 r4 r5 r6
    have adm' : ∀ y ∈ (runG (HbfDec.process o) s bs).2, decAdmL (rest.map HbfDec.blockMax) y.length := by
      intro y hy
      have : y.length ∈ (runG (HbfDec.process o) s bs).2.map List.length := List.mem_map.mpr ⟨y, hy, rfl⟩
      rw [r6] at this
      obtain ⟨b, hb, e⟩ := List.mem_map.mp this
      have := adm b hb
      simp only [List.map_cons, decAdmL] at this
      rw [← e]; exact this.2.2
    obtain ⟨i1, i2, i3, i4, i5⟩ := ih (fun s' hs' => wf s' (by simp [hs'])) _ adm'
    rw [runG_chain_cons]
    refine ⟨?_, ?_, ?_, ?_, ?_⟩
    · simp only [i1, r1, List.map_cons, HbfDec.absT, decChainSpec]
    · simp only [List.map_cons, i2, r1, decChainNext, HbfDec.absT, r2, r4]
    · intro s' hs'
      rcases List.mem_cons.mp hs' with h | h
      · rw [h]; exact r3
      · exact i3 s' h
    · simp only [List.map_cons, i4, r5]
    · rw [i5]
      have : List.map (fun b => b.length / 2 ^ rest.length) (runG (HbfDec.process o) s bs).2
          = List.map (fun n => n / 2 ^ rest.length) (List.map List.length (runG (HbfDec.process o) s bs).2) := by
        simp
      rw [this, r6, List.map_map]
      apply List.map_congr_left
      intro b _
      simp only [Function.comp, List.length_cons, Nat.pow_succ]
      rw [Nat.div_div_eq_div_mul, Nat.mul_comm]


/-! ### interpolator chains -/

/-- (taps, last `2M-1` inputs) -/
def HbfInt.absT (d : HbfInt α) : List α × List α := (d.fir.taps, d.abs)

/-- every intermediate block of an interpolator chain is admissible; `ms` = `blockMax` of the stages in application
    order, `n` = length of the input block of the first one -/
def intAdmL : List Nat → Nat → Prop
  | [], _ => True
  | m :: ms, n => 2 * n ≤ m ∧ intAdmL ms (2 * n)

def intChainSpec (o : Ops α) : List (List α × List α) → List α → List α
  | [], x => x
  | (t, h) :: rest, x => intChainSpec o rest (hbfIntSpec o t h x)

def intChainNext (o : Ops α) : List (List α × List α) → List α → List (List α × List α)
  | [], _ => []
  | (t, h) :: rest, x => (t, intNext t.length h x) :: intChainNext o rest (hbfIntSpec o t h x)

theorem intChain_run_spec (o : Ops α) (c : List (HbfInt α)) (wf : ∀ s ∈ c, s.WF) (bs : List (List α))
    (adm : ∀ b ∈ bs, intAdmL (c.map HbfInt.blockMax) b.length) :
    (runG (chainG (HbfInt.process o)) c bs).2.flatten = intChainSpec o (c.map HbfInt.absT) bs.flatten ∧
    (runG (chainG (HbfInt.process o)) c bs).1.map HbfInt.absT = intChainNext o (c.map HbfInt.absT) bs.flatten ∧
    (∀ s ∈ (runG (chainG (HbfInt.process o)) c bs).1, s.WF) ∧
    (runG (chainG (HbfInt.process o)) c bs).1.map HbfInt.blockMax = c.map HbfInt.blockMax ∧
    (runG (chainG (HbfInt.process o)) c bs).2.map List.length = bs.map (fun b => b.length * 2 ^ c.length) := by
  induction c generalizing bs with
  | nil => simp [runG_chain_nil, intChainSpec, intChainNext]
  | cons s rest ih =>
    have wfs : s.WF := wf s (by simp)
    have adms : ∀ b ∈ bs, s.Adm b := by
      intro b hb
      have := adm b hb
      simp only [List.map_cons, intAdmL] at this
      exact this.1
    obtain ⟨r1, r2, r3, r4, r5, r6⟩ := HbfInt.run_spec o s wfs bs adms
    simp only [HbfInt.run] at r1 r2 r3 r4 r5 r6
    have adm' : ∀ y ∈ (runG (HbfInt.process o) s bs).2, intAdmL (rest.map HbfInt.blockMax) y.length := by
      intro y hy
      have : y.length ∈ (runG (HbfInt.process o) s bs).2.map List.length := List.mem_map.mpr ⟨y, hy, rfl⟩
      rw [r6] at this
      obtain ⟨b, hb, e⟩ := List.mem_map.mp this
      have := adm b hb
      simp only [List.map_cons, intAdmL] at this
      rw [← e]; exact this.2
    obtain ⟨i1, i2, i3, i4, i5⟩ := ih (fun s' hs' => wf s' (by simp [hs'])) _ adm'
    rw [runG_chain_cons]
    refine ⟨?_, ?_, ?_, ?_, ?_⟩
    · simp only [i1, r1, List.map_cons, HbfInt.absT, intChainSpec]
    · simp only [List.map_cons, i2, r1, intChainNext, HbfInt.absT, r2, r4]
    · intro s' hs'
      rcases List.mem_cons.mp hs' with h | h
      · rw [h]; exact r3
      · exact i3 s' h
    · simp only [List.map_cons, i4, r5]
    · rw [i5]
      have : List.map (fun b => b.length * 2 ^ rest.length) (runG (HbfInt.process o) s bs).2
          = List.map (fun n => n * 2 ^ rest.length) (List.map List.length (runG (HbfInt.process o) s bs).2) := by
        simp
      rw [this, r6, List.map_map]
      apply List.map_congr_left
      intro b _
      simp only [Function.comp, List.length_cons, Nat.pow_succ]
      rw [Nat.mul_comm 2, Nat.mul_assoc, Nat.mul_comm 2]

end Idsp
