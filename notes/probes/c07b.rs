use idsp::*;
fn run(dt2: u32, sf: u32, sp: u32, p: i64, off: i64, t0: i64, extra: u64, verbose: bool) -> (f64, f64) {
    let n = (1u64 << (sf - dt2 + 5)) + (1u64 << (sp - dt2 + 5));
    let mut r = RPLL::new(dt2);
    let mut next = t0 + off; let mut time = t0; let (mut wf, mut wp) = (0f64, 0f64);
    for i in 0..(n + extra) {
        let ts = if time >= next { let t = next; next += p; Some(t as i32) } else { None };
        let (y, f) = r.update(ts, sf, sp);
        let ftrue = (1u128 << (32 + dt2)) as f64 / p as f64;
        let ef = ((f as f64) - ftrue).abs() / ftrue;
        let ph = ((time - (next - p)) as f64 / p as f64).rem_euclid(1.0);
        let yt = y as u32 as f64 / 4294967296.0;
        let mut ep = (yt - ph).abs(); if ep > 0.5 { ep = 1.0 - ep; }
        if verbose && (i >= n + extra - 40) { println!("{} ts {:?} f {} ({:e}) y {:.5} ph {:.5} ep {:e}", i, ts, f, ef, yt, ph, ep); }
        if i >= n + extra - 3000 { wf = wf.max(ef); wp = wp.max(ep); }
        time += 1 << dt2;
    }
    (wf, wp)
}
fn main() {
 println!("{:?}", run(8, 23, 22, 990, 351, 0, 3000, true));
}
#[allow(dead_code)]
fn trace2() {}
