import IdspModel.Model.Cic
import IdspModel.Lemmas.CicSeq
/-!
# Refinement of the CIC decimator model to the sequence algebra (C12)
-/
namespace Idsp

/-- `[f k, f (k+1), …, f (k+n-1)]` -/
def seqList (f : Nat → Int) : Nat → Nat → List Int
  | _, 0 => []
  | k, n + 1 => f k :: seqList f (k + 1) n

theorem seqList_length (f : Nat → Int) (k n : Nat) : (seqList f k n).length = n := by
  induction n generalizing k with
  | zero => rfl
  | succ n ih => simp [seqList, ih]

theorem seqList_congr {f g : Nat → Int} {k n : Nat} (h : ∀ j, k ≤ j → j < k + n → f j = g j) :
    seqList f k n = seqList g k n := by
  induction n generalizing k with
  | zero => rfl
  | succ n ih =>
    simp only [seqList]
    rw [h k (by omega) (by omega), ih (fun j h1 h2 => h j (by omega) (by omega))]

theorem seqList_const {f : Nat → Int} {c : Int} (k n : Nat) (h : ∀ j, f j = c) :
    seqList f k n = List.replicate n c := by
  induction n generalizing k with
  | zero => rfl
  | succ n ih => simp [seqList, List.replicate_succ, h, ih]

theorem seqList_getLast? (f : Nat → Int) (k n : Nat) :
    (seqList f k (n + 1)).getLast? = some (f (k + n)) := by
  induction n generalizing k with
  | zero => simp [seqList]
  | succ n ih =>
    rw [seqList, List.getLast?_cons, ih (k + 1)]
    simp; congr 1; omega

/-! ## the two wrapping chains -/

/-- integrator chain: if the stored values are the wrapped `f 1 … f n` and the input is the wrapped `g 0`,
    the new stored values are the wrapped `g 1 … g n` where `g (j+1) = f (j+1) + g j`. -/
theorem integWrap_seqList (w : Nat) (f g : Nat → Int) (h : ∀ j, g (j + 1) = f (j + 1) + g j) (n k : Nat) :
    integWrap w (seqList (fun j => wrapI w (f j)) (k + 1) n) (wrapI w (g k))
      = (seqList (fun j => wrapI w (g j)) (k + 1) n, wrapI w (g (k + n))) := by
  induction n generalizing k with
  | zero => rfl
  | succ n ih =>
    have e : wrapI w (wrapI w (f (k + 1)) + wrapI w (g k)) = wrapI w (g (k + 1)) := by
      rw [wrapI_add_wrapI_left, wrapI_add_wrapI_right, h]
    simp only [seqList, integWrap, e, ih (k + 1)]
    have : k + 1 + n = k + (n + 1) := by omega
    rw [this]

/-- comb chain: stored values wrapped `f k … `, input wrapped `g k`, `g (j+1) = g j - f j`. -/
theorem combsWrap_seqList (w : Nat) (f g : Nat → Int) (h : ∀ j, g (j + 1) = g j - f j) (n k : Nat) :
    combsWrap w (seqList (fun j => wrapI w (f j)) k n) (wrapI w (g k))
      = (seqList (fun j => wrapI w (g j)) k n, wrapI w (g (k + n))) := by
  induction n generalizing k with
  | zero => rfl
  | succ n ih =>
    have e : wrapI w (wrapI w (g k) - wrapI w (f k)) = wrapI w (g (k + 1)) := by
      rw [wrapI_sub_wrapI_left, wrapI_sub_wrapI_right, h]
    simp only [seqList, combsWrap, e, ih (k + 1)]
    have : k + 1 + n = k + (n + 1) := by omega
    rw [this]

/-! ## running the decimator over a stream -/

/-- state after feeding `x 0 … x (t-1)` -/
def Cic.decState (w : Nat) (s0 : Cic) (x : Nat → Int) : Nat → Cic
  | 0 => s0
  | t + 1 => (Cic.decimate w (Cic.decState w s0 x t) (x t)).1

/-- result of the `t`-th call (0-based) -/
def Cic.decOut (w : Nat) (s0 : Cic) (x : Nat → Int) (t : Nat) : Option Int :=
  (Cic.decimate w (Cic.decState w s0 x t) (x t)).2

/-- output of the comb section number `j` at low-rate index `m` for the high-rate input `X` (exact, over ℤ) -/
def decComb (N R : Nat) (X : Int → Int) (j : Nat) (m : Int) : Int :=
  opPow (seqD 1) j (seqDown R (opPow seqS N X)) m

/-- invariant of the decimator after `m·R + r` inputs, `1 ≤ r ≤ R` (`m = -1, r = R` initially) -/
structure DecInv (w N R : Nat) (X : Int → Int) (s : Cic) (m r : Int) : Prop where
  rate : s.rate = (R : Int) - 1
  index : s.index = R - r
  ints : s.integrators = seqList (fun j => wrapI w (opPow seqS j X (m * R + r - 1))) 1 N
  combs : s.combs = seqList (fun j => wrapI w (decComb N R X j m)) 0 N
  zoh : s.zoh = wrapI w (decComb N R X N m)

theorem wrapI_zero {w : Nat} (hw : 0 < w) : wrapI w 0 = 0 :=
  wrapI_of_in hw (by rw [inI_iff]; have := two_pow_pos (w - 1); omega)

theorem causal_decComb {N R : Nat} (hR : 0 < R) {X : Int → Int} (hX : Causal X) (j : Nat) :
    Causal (decComb N R X j) :=
  causal_opPow_D 1 j (causal_seqDown hR (causal_opPow_S N hX))

theorem decInv_init {w N R : Nat} (hw : 0 < w) (hR : 0 < R) {X : Int → Int} (hX : Causal X) :
    DecInv w N R X (Cic.new N ((R : Int) - 1)) (-1) R where
  rate := rfl
  index := by simp [Cic.new]
  ints := by
    show List.replicate N 0 = _
    symm; apply seqList_const
    intro j
    rw [causal_opPow_S j hX _ (by omega), wrapI_zero hw]
  combs := by
    show List.replicate N 0 = _
    symm; apply seqList_const
    intro j
    rw [causal_decComb hR hX j _ (by omega), wrapI_zero hw]
  zoh := by
    show (0 : Int) = _
    rw [causal_decComb hR hX N _ (by omega), wrapI_zero hw]

theorem decInv_integ {w N R : Nat} (hw : 0 < w) {X : Int → Int} (hX : Causal X) {s : Cic} {m r : Int}
    (h : DecInv w N R X s m r) (xt : Int) (hxt : xt = X (m * R + r)) (hin : inI w xt = true) :
    integWrap w s.integrators xt
      = (seqList (fun j => wrapI w (opPow seqS j X (m * R + r))) 1 N, wrapI w (opPow seqS N X (m * R + r))) := by
  have key := integWrap_seqList w (fun j => opPow seqS j X (m * R + r - 1)) (fun j => opPow seqS j X (m * R + r))
    (by
      intro j
      show seqS (opPow seqS j X) _ = seqS (opPow seqS j X) _ + _
      exact seqS_rec_causal (causal_opPow_S j hX) _) N 0
  simp only [Nat.zero_add] at key
  rw [h.ints, ← key]
  congr 1
  show xt = wrapI w (X (m * R + r))
  rw [← hxt, wrapI_of_in hw hin]

/-- a call that does not emit (`r < R`) -/
theorem decInv_step_none {w N R : Nat} (hw : 0 < w) {X : Int → Int} (hX : Causal X) {s : Cic} {m r : Int}
    (h : DecInv w N R X s m r) (hrR : r < R) (xt : Int) (hxt : xt = X (m * R + r))
    (hin : inI w xt = true) :
    DecInv w N R X (s.decimate w xt).1 m (r + 1) ∧ (s.decimate w xt).2 = none := by
  have hI := decInv_integ hw hX h xt hxt hin
  have hidx : s.index ≥ 1 := by rw [h.index]; omega
  simp only [Cic.decimate, hI, hidx, if_true]
  refine ⟨⟨h.rate, ?_, ?_, h.combs, h.zoh⟩, trivial⟩
  · show s.index - 1 = _
    rw [h.index]; omega
  · show seqList _ 1 N = _
    have : m * (R : Int) + (r + 1) - 1 = m * R + r := by omega
    rw [this]

/-- a call that emits (`r = R`) -/
theorem decInv_step_some {w N R : Nat} (hw : 0 < w) {X : Int → Int} (hX : Causal X) {s : Cic} {m : Int}
    (h : DecInv w N R X s m R) (xt : Int) (hxt : xt = X (m * R + R))
    (hin : inI w xt = true) :
    DecInv w N R X (s.decimate w xt).1 (m + 1) 1 ∧
      (s.decimate w xt).2 = some (wrapI w (decComb N R X N (m + 1))) := by
  have hI := decInv_integ hw hX h xt hxt hin
  have hidx : ¬ s.index ≥ 1 := by rw [h.index]; omega
  have e : m * (R : Int) + R = (m + 1) * R := by ring
  have hC := combsWrap_seqList w (fun j => decComb N R X j m) (fun j => decComb N R X j (m + 1))
    (by
      intro j
      show seqD 1 (opPow (seqD 1) j _) (m + 1) = _
      unfold seqD
      have : m + 1 - ((1 : Nat) : Int) = m := by push_cast; omega
      rw [this]; rfl) N 0
  simp only [Nat.zero_add] at hC
  have hu : opPow seqS N X (m * R + R) = decComb N R X 0 (m + 1) := by
    show _ = seqDown R (opPow seqS N X) (m + 1)
    unfold seqDown; rw [e]
  simp only [Cic.decimate, hI, hidx, if_false, h.combs, hu, hC]
  refine ⟨⟨h.rate, ?_, ?_, rfl, rfl⟩, trivial⟩
  · exact h.rate
  · show seqList _ 1 N = _
    have : (m + 1) * (R : Int) + 1 - 1 = m * R + R := by rw [← e]; omega
    rw [this]

/-- the decimator identity at the emit instants: comb section `N` at low-rate index `m` is the `N`-fold
    boxcar of the input at time `m·R` -/
theorem decComb_eq_box {N R : Nat} {X : Int → Int} (hX : Causal X) (m : Int) :
    decComb N R X N m = opPow (seqB R) N X (m * R) := by
  unfold decComb
  rw [opPow_D_one_down, opPow_D_S R N hX]; rfl

/-- existence of the invariant at every time -/
theorem decInv_exists {w N R : Nat} (hw : 0 < w) (hR : 0 < R) (x : Nat → Int)
    (hx : ∀ t, inI w (x t) = true) (t : Nat) :
    ∃ m r : Int, (t : Int) = m * R + r ∧ 1 ≤ r ∧ r ≤ R ∧
      DecInv w N R (ext x) (Cic.decState w (Cic.new N ((R : Int) - 1)) x t) m r := by
  induction t with
  | zero =>
    exact ⟨-1, R, by push_cast; ring, by omega, by omega, decInv_init hw hR (causal_ext x)⟩
  | succ t ih =>
    obtain ⟨m, r, ht, h1, h2, inv⟩ := ih
    have hxt : x t = ext x (m * R + r) := by rw [← ht, ext_nat]
    by_cases hr : r = R
    · subst hr
      have := decInv_step_some hw (causal_ext x) inv (x t) hxt (hx t)
      exact ⟨m + 1, 1, by push_cast; rw [ht]; ring, by omega, by omega, this.1⟩
    · have := decInv_step_none hw (causal_ext x) inv (by omega) (x t) hxt (hx t)
      exact ⟨m, r + 1, by push_cast; rw [ht]; ring, by omega, by omega, this.1⟩

theorem nat_mod_eq_zero_of_int {t R : Nat} {q : Int} (h : (t : Int) = q * R) : t % R = 0 := by
  have : (t : Int) % (R : Int) = 0 := by rw [h]; exact Int.mul_emod_left _ _
  exact_mod_cast this

theorem nat_mod_ne_zero_of_int {t R : Nat} {m r : Int} (h : (t : Int) = m * R + r) (h1 : 1 ≤ r) (h2 : r < R) :
    t % R ≠ 0 := by
  have : (t : Int) % (R : Int) = r := by
    rw [h, Int.add_comm, Int.add_mul_emod_self_right, Int.emod_eq_of_lt (by omega) h2]
  intro h0
  have : ((t % R : Nat) : Int) = r := by rw [← this]; simp
  rw [h0] at this; simp at this; omega

/-- **state of the tick flag**: before the `t`-th call, `tick` is true iff `t` is a multiple of `R` -/
theorem decState_tick {w N R : Nat} (hw : 0 < w) (hR : 0 < R) (x : Nat → Int)
    (hx : ∀ t, inI w (x t) = true) (t : Nat) :
    (Cic.decState w (Cic.new N ((R : Int) - 1)) x t).tick = decide (t % R = 0) := by
  obtain ⟨m, r, ht, h1, h2, inv⟩ := decInv_exists (N := N) hw hR x hx t
  unfold Cic.tick
  rw [inv.index]
  by_cases hr : r = R
  · subst hr
    have : t % R = 0 := nat_mod_eq_zero_of_int (q := m + 1) (by rw [ht]; ring)
    simp [this]
  · have : t % R ≠ 0 := nat_mod_ne_zero_of_int ht h1 (by omega)
    simp [this]; omega

/-- **output of the `t`-th call** from the zero state -/
theorem decOut_eq {w N R : Nat} (hw : 0 < w) (hR : 0 < R) (x : Nat → Int)
    (hx : ∀ t, inI w (x t) = true) (t : Nat) :
    Cic.decOut w (Cic.new N ((R : Int) - 1)) x t
      = if t % R = 0 then some (wrapI w (opPow (seqB R) N (ext x) t)) else none := by
  obtain ⟨m, r, ht, h1, h2, inv⟩ := decInv_exists (N := N) hw hR x hx t
  have hxt : x t = ext x (m * R + r) := by rw [← ht, ext_nat]
  unfold Cic.decOut
  by_cases hr : r = R
  · subst hr
    have hm : t % R = 0 := nat_mod_eq_zero_of_int (q := m + 1) (by rw [ht]; ring)
    rw [(decInv_step_some hw (causal_ext x) inv (x t) hxt (hx t)).2, if_pos hm,
      decComb_eq_box (causal_ext x)]
    have : (m + 1) * (R : Int) = t := by rw [ht]; ring
    rw [this]
  · have hm : t % R ≠ 0 := nat_mod_ne_zero_of_int ht h1 (by omega)
    rw [(decInv_step_none hw (causal_ext x) inv (by omega) (x t) hxt (hx t)).2, if_neg hm]

/-- `get_decimate()` after the `t`-th call is the latest emitted value -/
theorem decState_zoh {w N R : Nat} (hw : 0 < w) (hR : 0 < R) (x : Nat → Int)
    (hx : ∀ t, inI w (x t) = true) (t : Nat) :
    (Cic.decState w (Cic.new N ((R : Int) - 1)) x (t + 1)).getDecimate
      = wrapI w (opPow (seqB R) N (ext x) ((t / R * R : Nat) : Int)) := by
  obtain ⟨m, r, ht, h1, h2, inv⟩ := decInv_exists (N := N) hw hR x hx (t + 1)
  unfold Cic.getDecimate
  rw [inv.zoh, decComb_eq_box (causal_ext x)]
  congr 2
  -- t = m*R + (r-1), 0 ≤ r-1 < R
  have hq : (t : Int) / R = m := by
    have : (t : Int) = (r - 1) + m * R := by omega
    rw [this, Int.add_mul_ediv_right _ _ (by omega), Int.ediv_eq_zero_of_lt (by omega) (by omega)]
    omega
  push_cast
  rw [hq]

/-! ## lists -/

/-- run the decimator over an input list, collecting the results of all calls -/
def Cic.decimateList (w : Nat) : Cic → List Int → Cic × List (Option Int)
  | s, [] => (s, [])
  | s, x :: xs =>
    let r := s.decimate w x
    let rest := Cic.decimateList w r.1 xs
    (rest.1, r.2 :: rest.2)

/-- a list as a stream (zero after the end) -/
def streamOf (xs : List Int) (t : Nat) : Int := xs.getD t 0

theorem decState_shift (w : Nat) (s : Cic) (x : Nat → Int) (t : Nat) :
    Cic.decState w s x (t + 1) = Cic.decState w (s.decimate w (x 0)).1 (fun i => x (i + 1)) t := by
  induction t with
  | zero => rfl
  | succ t ih =>
    show (Cic.decimate w (Cic.decState w s x (t + 1)) (x (t + 1))).1 = _
    rw [ih]; rfl

theorem decimateList_eq (w : Nat) (s : Cic) (xs : List Int) :
    Cic.decimateList w s xs
      = (Cic.decState w s (streamOf xs) xs.length,
         (List.range xs.length).map (Cic.decOut w s (streamOf xs))) := by
  induction xs generalizing s with
  | nil => rfl
  | cons a as ih =>
    have hs : (fun i => streamOf (a :: as) (i + 1)) = streamOf as := by
      funext i; simp [streamOf]
    simp only [Cic.decimateList, ih, List.length_cons]
    congr 1
    · rw [decState_shift, hs]; rfl
    · rw [List.range_succ_eq_map, List.map_cons, List.map_map]
      congr 1
      apply List.map_congr_left
      intro t _
      show Cic.decOut w _ (streamOf as) t = Cic.decOut w s (streamOf (a :: as)) (t + 1)
      unfold Cic.decOut
      rw [decState_shift, hs]
      rfl

theorem streamOf_in {w : Nat} {xs : List Int} (h : ∀ x ∈ xs, inI w x = true) (t : Nat) :
    inI w (streamOf xs t) = true := by
  unfold streamOf
  by_cases ht : t < xs.length
  · rw [List.getD_eq_getElem?_getD, List.getElem?_eq_getElem ht]; exact h _ (List.getElem_mem ht)
  · rw [List.getD_eq_getElem?_getD, List.getElem?_eq_none (by omega)]
    show inI w 0 = true
    rw [inI_iff]; have := two_pow_pos (w - 1); omega

end Idsp
