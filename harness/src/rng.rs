//! SplitMix64 and boundary-lattice value generators. Every random choice derives from one state.
pub struct Rng(pub u64);

impl Rng {
    pub fn new(seed: u64) -> Self {
        Rng(seed.wrapping_mul(0x9E3779B97F4A7C15) ^ 0xD1B54A32D192ED03)
    }
    pub fn next(&mut self) -> u64 {
        self.0 = self.0.wrapping_add(0x9E3779B97F4A7C15);
        let mut z = self.0;
        z = (z ^ (z >> 30)).wrapping_mul(0xBF58476D1CE4E5B9);
        z = (z ^ (z >> 27)).wrapping_mul(0x94D049BB133111EB);
        z ^ (z >> 31)
    }
    pub fn below(&mut self, n: u64) -> u64 {
        if n == 0 {
            0
        } else {
            self.next() % n
        }
    }
    pub fn range(&mut self, lo: i64, hi: i64) -> i64 {
        // inclusive
        let span = (hi as i128 - lo as i128 + 1) as u128;
        (lo as i128 + (self.next() as u128 % span) as i128) as i64
    }
    pub fn chance(&mut self, num: u64, den: u64) -> bool {
        self.below(den) < num
    }
    /// signed `w`-bit value: boundary lattice half of the time, otherwise random with a random magnitude class
    pub fn int(&mut self, w: u32) -> i128 {
        let min: i128 = if w >= 128 { i128::MIN } else { -(1i128 << (w - 1)) };
        let max: i128 = !min;
        let v = match self.below(8) {
            0 => {
                // small
                self.range(-4, 4) as i128
            }
            1 => match self.below(6) {
                0 => min,
                1 => min + 1,
                2 => max,
                3 => max - 1,
                4 => min + 2,
                _ => max - 2,
            },
            2 | 3 => {
                // +-2^k +- {0,1}
                let k = self.below(w as u64 - 1) as u32;
                let base = 1i128 << k;
                let d = self.range(-1, 1) as i128;
                if self.chance(1, 2) {
                    base.saturating_add(d)
                } else {
                    (-base).saturating_add(d)
                }
            }
            4 => {
                // random magnitude class
                let k = 1 + self.below(w as u64 - 1) as u32;
                let m = (self.wide() & ((1u128 << k) - 1)) as i128;
                let m = if m == i128::MIN { 0 } else { m };
                if self.chance(1, 2) {
                    m
                } else {
                    -m
                }
            }
            _ => {
                let r = self.wide();
                wrap(r as i128, w)
            }
        };
        v.clamp(min, max)
    }
    pub fn wide(&mut self) -> u128 {
        ((self.next() as u128) << 64) | self.next() as u128
    }
    pub fn i8(&mut self) -> i8 {
        self.int(8) as i8
    }
    pub fn i16(&mut self) -> i16 {
        self.int(16) as i16
    }
    pub fn i32(&mut self) -> i32 {
        self.int(32) as i32
    }
    pub fn i64(&mut self) -> i64 {
        self.int(64) as i64
    }
    pub fn u32(&mut self) -> u32 {
        self.int(32) as i32 as u32
    }
}

pub fn wrap(x: i128, w: u32) -> i128 {
    if w >= 128 {
        return x;
    }
    let m = 1i128 << w;
    let r = x.rem_euclid(m);
    if r >= m / 2 {
        r - m
    } else {
        r
    }
}
