import IdspModel.Lemmas.LockinRecMain
import IdspModel.Lemmas.LockinRecMix
import IdspModel.Lemmas.LockinRecPhase
/-!
# Lock-in recovery: assembling mixer + two lowpass channels into a run of the lock-in model

`LkSetup` is the setting of the recovery clause of C11; `lk_assemble` produces the state and output sequences of the
model run and the two window-sum bounds.
-/
namespace Idsp
open Real
set_option linter.unusedVariables false

/-- The setting: reference phases from a wrapping `i32` accumulator with frequency word `F`
    (`0.05 ≤ F/2^32 ≤ 0.45`), and input samples within `1` of `A·cos(φ_n + θ)`, `φ_n = p_n·π/2^31`. -/
structure LkSetup (A θ : ℝ) (p0 F : Int) (x p : ℕ → Int) : Prop where
  hF0 : 214748365 ≤ F
  hF1 : F ≤ 1932735283
  hp : ∀ n, p n = wrapI 32 (p0 + n * F)
  hx : ∀ n, |(x n : ℝ) - A * cos ((p n : ℝ) * π / 2 ^ 31 + θ)| ≤ 1

/-- the two mixer output sequences -/
def lkMixI (x p : ℕ → Int) (n : ℕ) : Int := x n * (cossinVal (p n)).1 / 2147483648
def lkMixQ (x p : ℕ → Int) (n : ℕ) : Int := x n * (cossinVal (p n)).2 / 2147483648

/-- the lock-in state after `n` updates and the `n`-th output, in plain arithmetic -/
def lkState (a b : Int) (x p : ℕ → Int) (n : ℕ) : Int × Int × Int × Int :=
  ((lkSeq a b (lkMixI x p) n).1, (lkSeq a b (lkMixI x p) n).2, (lkSeq a b (lkMixQ x p) n).1,
    (lkSeq a b (lkMixQ x p) n).2)
def lkOutI (a b : Int) (x p : ℕ → Int) (n : ℕ) : Int := lkOut a b (lkMixI x p) n
def lkOutQ (a b : Int) (x p : ℕ → Int) (n : ℕ) : Int := lkOut a b (lkMixQ x p) n

section
variable {A θ : ℝ} {p0 F : Int} {x p : ℕ → Int}

theorem LkSetup.p_in (h : LkSetup A θ p0 F x p) (n : ℕ) : inI 32 (p n) = true := by
  rw [h.hp n]; exact wrapI_in (by norm_num) _

theorem LkSetup.x_in (h : LkSetup A θ p0 F x p) (hA0 : 0 ≤ A) (hA1 : A ≤ 1073741824) (n : ℕ) :
    inI 32 (x n) = true := by
  have h1 := h.hx n
  have hc := abs_cos_le_one ((p n : ℝ) * π / 2 ^ 31 + θ)
  rw [abs_le] at h1 hc
  have u1 : A * cos ((p n : ℝ) * π / 2 ^ 31 + θ) ≤ A := by nlinarith
  have u2 : -A ≤ A * cos ((p n : ℝ) * π / 2 ^ 31 + θ) := by nlinarith
  have l : (-1073741825 : ℝ) ≤ x n := by linarith
  have u : (x n : ℝ) ≤ 1073741825 := by linarith
  have l' : (-1073741825 : Int) ≤ x n := by exact_mod_cast l
  have u' : x n ≤ (1073741825 : Int) := by exact_mod_cast u
  exact lockin_inI32 (by omega) (by omega)

/-- the in-phase mixer output is `R·cos θ + R·cos(ψ0 + nΩ) + e`, `|e| ≤ 9.1e-6·A + 2` -/
theorem LkSetup.inputI (h : LkSetup A θ p0 F x p) (hA0 : 0 ≤ A) :
    LkInput (fun n => (lkMixI x p n : ℝ)) (lkR A * cos θ) (9.1e-6 * A + 2) (lkZ F)
      ((lkR A : ℂ) * Complex.exp ((lkPsi0 p0 θ : ℝ) * Complex.I)) := by
  refine ⟨lkZ_norm F, lkZ_sub_one F h.hF0 h.hF1, fun n => ?_⟩
  have hc := cossin_closed_form .checked (p n) (h.p_in n)
  have hd := (lockin_mixer_decomposition .checked A θ hA0 (p n) (x n) _ _ (h.p_in n) hc (h.hx n)).1
  rw [lkTc_eq]
  have hr := (lk_phase_ramp p0 F θ n).1
  rw [← h.hp n] at hr
  rw [hr] at hd
  have e : (lkMixI x p n : ℝ) - lkR A * cos θ - lkR A * cos (lkPsi0 p0 θ + n * lkOmega F)
      = ((x n * (cossinVal (p n)).1 / 2147483648 : Int) : ℝ)
        - lkR A * (cos θ + cos (lkPsi0 p0 θ + n * lkOmega F)) := by
    unfold lkMixI; ring
  rw [e]; exact hd

/-- the quadrature mixer output is `−R·sin θ + R·sin(ψ0 + nΩ) + e`, `|e| ≤ 9.1e-6·A + 2` -/
theorem LkSetup.inputQ (h : LkSetup A θ p0 F x p) (hA0 : 0 ≤ A) :
    LkInput (fun n => (lkMixQ x p n : ℝ)) (-(lkR A * sin θ)) (9.1e-6 * A + 2) (lkZ F)
      ((lkR A : ℂ) * Complex.exp (((lkPsi0 p0 θ - π / 2 : ℝ) : ℝ) * Complex.I)) := by
  refine ⟨lkZ_norm F, lkZ_sub_one F h.hF0 h.hF1, fun n => ?_⟩
  have hc := cossin_closed_form .checked (p n) (h.p_in n)
  have hd := (lockin_mixer_decomposition .checked A θ hA0 (p n) (x n) _ _ (h.p_in n) hc (h.hx n)).2
  rw [lkTc_eq]
  have hr := (lk_phase_ramp p0 F θ n).2
  rw [← h.hp n] at hr
  rw [hr] at hd
  have hs : cos (lkPsi0 p0 θ - π / 2 + n * lkOmega F) = sin (lkPsi0 p0 θ + n * lkOmega F) := by
    rw [show lkPsi0 p0 θ - π / 2 + n * lkOmega F = (lkPsi0 p0 θ + n * lkOmega F) - π / 2 by ring,
      cos_sub_pi_div_two]
  rw [hs]
  have e : (lkMixQ x p n : ℝ) - -(lkR A * sin θ) - lkR A * sin (lkPsi0 p0 θ + n * lkOmega F)
      = ((x n * (cossinVal (p n)).2 / 2147483648 : Int) : ℝ)
        - lkR A * (-sin θ + sin (lkPsi0 p0 θ + n * lkOmega F)) := by
    unfold lkMixQ; ring
  rw [e]; exact hd

/-- **assembly**: the model run and the two window sums -/
theorem lk_assemble (m : Mode) {k a b : Int} (hB : Lp2Butter k a b) (hk0 : 1048576 ≤ k) (hk1 : k ≤ 33554432)
    (hA0 : 0 ≤ A) (hA1 : A ≤ 1073741824) (h : LkSetup A θ p0 F x p) :
    lkState a b x p 0 = (0, 0, 0, 0) ∧
    (∀ n, lockinUpdate m (lkState a b x p n) (x n) (p n) a (-b)
        = .ok (lkState a b x p (n + 1), lkOutI a b x p n, lkOutQ a b x p n)) ∧
    (∀ n0 L : ℕ, 40 * 4294967296 ≤ k * n0 →
      |(∑ i ∈ Finset.range L, (lkOutI a b x p (n0 + i) : ℝ)) - L * (lkR A * cos θ)|
        ≤ L * (2.04 * (9.1e-6 * A + 2) + 2.1888 * 4294967296 / k + 1.53) + lkR A / 400 ∧
      |(∑ i ∈ Finset.range L, (lkOutQ a b x p (n0 + i) : ℝ)) - L * (-(lkR A * sin θ))|
        ≤ L * (2.04 * (9.1e-6 * A + 2) + 2.1888 * 4294967296 / k + 1.53) + lkR A / 400) := by
  obtain ⟨hRle, hRge⟩ := lkR_le A hA0
  have hR0 : 0 ≤ lkR A := by linarith
  have hR1 : lkR A ≤ 536870912 := by linarith
  have hε : 9.1e-6 * A + 2 ≤ 9800 := by linarith
  have hDI : |lkR A * cos θ| ≤ lkR A := by
    rw [abs_mul, abs_of_nonneg hR0]
    have := abs_cos_le_one θ
    nlinarith
  have hDQ : |-(lkR A * sin θ)| ≤ lkR A := by
    rw [abs_neg, abs_mul, abs_of_nonneg hR0]
    have := abs_sin_le_one θ
    nlinarith
  obtain ⟨runI, winI⟩ := lk_channel m hB hk0 hk1 (lkMixI x p) _ _ (lkR A) _ _ (h.inputI hA0)
    (lk_w0_norm _ _ hR0) hR1 hDI hε
  obtain ⟨runQ, winQ⟩ := lk_channel m hB hk0 hk1 (lkMixQ x p) _ _ (lkR A) _ _ (h.inputQ hA0)
    (lk_w0_norm _ _ hR0) hR1 hDQ hε
  refine ⟨rfl, fun n => ?_, fun n0 L hn => ⟨winI n0 L hn, winQ n0 L hn⟩⟩
  have hc := cossin_closed_form .checked (p n) (h.p_in n)
  have hstep := lockin_step m (lkSeq a b (lkMixI x p) n).1 (lkSeq a b (lkMixI x p) n).2
    (lkSeq a b (lkMixQ x p) n).1 (lkSeq a b (lkMixQ x p) n).2 (x n) (p n) a (-b)
    (cossinVal (p n)).1 (cossinVal (p n)).2 (h.p_in n) (h.x_in hA0 hA1 n) hc
  have eI : lkMixI x p n = x n * (cossinVal (p n)).1 / 2 ^ 31 := by simp only [lkMixI, Int.reducePow]
  have eQ : lkMixQ x p n = x n * (cossinVal (p n)).2 / 2 ^ 31 := by simp only [lkMixQ, Int.reducePow]
  have rI := runI n
  have rQ := runQ n
  rw [eI] at rI
  rw [eQ] at rQ
  unfold lkState lkOutI lkOutQ
  rw [hstep, rI]
  simp only [bind_ok']
  rw [rQ]
  rfl

end
end Idsp
