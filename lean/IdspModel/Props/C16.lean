import IdspModel.Model.Dsm
import IdspModel.Lemmas.Dsm
import IdspModel.Lemmas.DsmK8
/-!
# C16 — `Dsm<K>`: MASH-1^K delta-sigma modulator: output range, exactness, bounded accumulated error

Property theorems only (definitions and helper lemmas live in `IdspModel/Lemmas/Dsm.lean` and
`IdspModel/Lemmas/DsmK8.lean`).
`K = s.a.length`.  Notation of the statements:

* `DsmInv s` — the state invariant (spelled out by `dsmInv_explicit`): both arrays have length `K`, every
  accumulator is a `u32`, every memory is an `i8`, and memory `i < K-1` lies in `1 - 2^i ..= 2^i`
  (memory `K-1`, which `update` never reads or writes, is an arbitrary `i8`).
* `dsmCarries s.a x` / `dsmNewAccs s.a x` — carries `c_1 … c_K` and new accumulators of the chain
  `a_j' = (a_j + in_j) mod 2^32`, `c_j = (a_j + in_j) div 2^32`, `in_1 = x`, `in_{j+1} = a_j'`
  (`dsm_chain_exact_step`).
* `mashU rc mem i` — the MASH recursion in unbounded integers, indexed by the distance `i = K - j` from the last
  stage: `u_0 = c_K`, `u_{i+1} = c_{K-1-i} + u_i - (previous step's u_i)`, i.e. `w_K = c_K`,
  `w_j = c_j + w_{j+1} - w_{j+1}[previous step]`; `rc` = carries with the last stage first, `mem` = the previous
  step's `u_0, u_1, …`.
* `Dsm.run m s xs` — feed the list `xs`, collect the outputs; `dsmSpecRun` — the same in unbounded integers with
  no range check anywhere.
* `dsmPhi s` = memory `K-2` (the newest `w_2`; `0` for `K = 1`), `dsmErr s = 2^32 * dsmPhi s - a_1`.

* `dsmOutRange K y` — the claimed output range: `y = 0` for `K = 0`, `1 - 2^(K-1) ≤ y ≤ 2^(K-1)` otherwise
  (`dsmOutRange_iff`).

Findings: `K = 0` used to panic in `update` (`take(K - 1)`, usize underflow); this was repaired upstream (commit
"fix: Dsm::<0>::update underflowed on K - 1", now `take(K.saturating_sub(1))`), the model follows the repaired code
and `K = 0` is covered positively below (`dsm_k0_zero`, and the range theorems hold for `0 ≤ K ≤ 7`).
`K = 8` still overflows `i8` (true output `+128`): the guard `K ≤ 7` of the theorems in sections 1-3 is sharp;
section 5 says exactly what happens at `K = 8`.  The error identity needs `K ≥ 1` (for `K = 0` the output is
constantly `0`, so the accumulated error is `-∑xs`, unbounded).
-/
namespace Idsp

/-! ## the invariant -/

/-- `DsmInv` written out by index. -/
theorem dsmInv_explicit (s : Dsm) :
    DsmInv s ↔
      s.c.length = s.a.length ∧ (∀ a ∈ s.a, 0 ≤ a ∧ a < 2 ^ 32) ∧
      ∀ i, i < s.c.length → inI 8 (s.c.getD i 0) = true ∧
        (i + 1 < s.c.length → 1 - 2 ^ i ≤ s.c.getD i 0 ∧ s.c.getD i 0 ≤ 2 ^ i) := by
  simp only [DsmInv, DsmMemInv_iff, Nat.zero_add]

/-- `Dsm::<K>::default()` (all zeros) satisfies the invariant, for every `K`. -/
theorem dsm_default_inv (K : Nat) : DsmInv (Dsm.default K) := dsmInv_default K

/-- non-vacuity: a non-trivial `K = 3` state satisfying the invariant (memories at their extreme values) -/
example : DsmInv ⟨[0xffffffff, 0x80000000, 1], [1, -1, -128]⟩ := by
  rw [dsmInv_explicit]; decide

/-- the accumulator chain is exact `div`/`mod 2^32` arithmetic on `u32` operands, and yields `u32`s -/
theorem dsm_chain_exact_step (a : Int) (as : List Int) (x : Int) (ha : 0 ≤ a ∧ a < 2 ^ 32)
    (hx : 0 ≤ x ∧ x < 2 ^ 32) :
    dsmCarries (a :: as) x = ((a + x) / 2 ^ 32) :: dsmCarries as ((a + x) % 2 ^ 32) ∧
    dsmNewAccs (a :: as) x = ((a + x) % 2 ^ 32) :: dsmNewAccs as ((a + x) % 2 ^ 32) ∧
    0 ≤ (a + x) % 2 ^ 32 ∧ (a + x) % 2 ^ 32 < 2 ^ 32 :=
  dsm_chain_exact a as x ha hx

/-! ## 1. range, absence of panics, invariance -/

/-- the range predicate written out -/
theorem dsmOutRange_iff (K : Nat) (y : Int) :
    dsmOutRange K y ↔ (K = 0 → y = 0) ∧ (1 ≤ K → 1 - 2 ^ (K - 1) ≤ y ∧ y ≤ 2 ^ (K - 1)) := by
  unfold dsmOutRange
  split
  · next h => subst h; simp
  · next h => exact ⟨fun hy => ⟨fun h0 => absurd h0 h, fun _ => hy⟩, fun hy => hy.2 (by omega)⟩

/-- `K = 0` (after the upstream repair of the `K - 1` underflow): in both build profiles `update` returns output
    `0` and the (empty) state for every input, and so does every run. -/
theorem dsm_k0_zero (m : Mode) :
    (∀ x : Int, Dsm.update m ⟨[], []⟩ x = .ok (⟨[], []⟩, 0)) ∧
    (∀ xs : List Int, Dsm.run m (Dsm.default 0) xs = .ok (Dsm.default 0, List.replicate xs.length 0)) :=
  ⟨dsm_update_k0 m, dsm_run_k0 m⟩

/-- One step, every order `0 ≤ K ≤ 7`, every state satisfying the invariant, every input (in particular every
    `u32`): `update` does not panic in the checked build, the release build returns the same state and output,
    the invariant is preserved, and the output is `0` for `K = 0` and lies in `1 - 2^(K-1) ..= 2^(K-1)` for
    `K ≥ 1`. -/
theorem dsm_range_step (s : Dsm) (x : Int) (hK7 : s.a.length ≤ 7) (hs : DsmInv s) :
    ∃ s' y, Dsm.update .checked s x = .ok (s', y) ∧ Dsm.update .release s x = .ok (s', y) ∧
      DsmInv s' ∧ s'.a.length = s.a.length ∧ dsmOutRange s.a.length y := by
  by_cases hK0 : s.a.length = 0
  · have := dsmInv_k0 s hs hK0
    subst this
    exact ⟨_, _, dsm_update_k0 .checked x, dsm_update_k0 .release x, hs, rfl, by simp [dsmOutRange]⟩
  · have hK1 : 1 ≤ s.a.length := by omega
    obtain ⟨e1, e2, e3, e4⟩ := dsm_update_ok .checked s x hK1 hK7 hs
    exact ⟨_, _, e1, (dsm_update_ok .release s x hK1 hK7 hs).1, e2, dsmStepSpec_length s x,
      (dsmOutRange_pos hK1 _).mpr ⟨e3, e4⟩⟩

/-- Every input sequence (any length, any values) from every state satisfying the invariant, `0 ≤ K ≤ 7`: no
    update panics, both build profiles agree, the final state satisfies the invariant, there is one output per
    input and every output is in range (`0` for `K = 0`, `1 - 2^(K-1) ..= 2^(K-1)` for `K ≥ 1`). -/
theorem dsm_range_from (s : Dsm) (xs : List Int) (hK7 : s.a.length ≤ 7) (hs : DsmInv s) :
    ∃ sf ys, Dsm.run .checked s xs = .ok (sf, ys) ∧ Dsm.run .release s xs = .ok (sf, ys) ∧
      DsmInv sf ∧ sf.a.length = s.a.length ∧ ys.length = xs.length ∧
      ∀ y ∈ ys, dsmOutRange s.a.length y := by
  by_cases hK0 : s.a.length = 0
  · have := dsmInv_k0 s hs hK0
    subst this
    refine ⟨_, _, dsm_run_k0 .checked xs, dsm_run_k0 .release xs, hs, rfl, by simp, ?_⟩
    intro y hy
    have : y = 0 := (List.mem_replicate.mp hy).2
    simp [dsmOutRange, this]
  · have hK1 : 1 ≤ s.a.length := by omega
    obtain ⟨e1, e2, e3, e4, e5⟩ := dsm_run_ok .checked s xs hK1 hK7 hs
    exact ⟨_, _, e1, (dsm_run_ok .release s xs hK1 hK7 hs).1, e2, e3, e4,
      fun y hy => (dsmOutRange_pos hK1 _).mpr (e5 y hy)⟩

/-- `dsm_range_from` for the default state: every output of `Dsm::<K>::default()` on every input sequence is in
    range, `0 ≤ K ≤ 7`; every reachable state satisfies the invariant. -/
theorem dsm_range (K : Nat) (hK7 : K ≤ 7) (xs : List Int) :
    ∃ sf ys, Dsm.run .checked (Dsm.default K) xs = .ok (sf, ys) ∧
      Dsm.run .release (Dsm.default K) xs = .ok (sf, ys) ∧
      DsmInv sf ∧ sf.a.length = K ∧ ys.length = xs.length ∧
      ∀ y ∈ ys, dsmOutRange K y := by
  have hl : (Dsm.default K).a.length = K := by simp [Dsm.default]
  have := dsm_range_from (Dsm.default K) xs (by omega) (dsm_default_inv K)
  rwa [hl] at this

/-- Every order (also `K = 8`), every state (no invariant), every input: whenever the checked build does not
    panic, the release build returns the same state and output. -/
theorem dsm_release_eq_checked (s : Dsm) (x : Int) (r : Dsm × Int)
    (h : Dsm.update .checked s x = .ok r) : Dsm.update .release s x = .ok r :=
  dsm_release_of_checked s x r h

/-- a run is compatible with splitting the input: the outputs on a prefix are a prefix of the outputs, so every
    statement "for all input lists" below is a statement about every prefix of every input sequence. -/
theorem dsm_run_prefix (m : Mode) (s : Dsm) (xs zs : List Int) :
    Dsm.run m s (xs ++ zs) = (do
      let (s1, ys) ← Dsm.run m s xs
      let (s2, ys') ← Dsm.run m s1 zs
      .ok (s2, ys ++ ys')) :=
  dsm_run_append m s xs zs

/-! ## 2. the output is the exact MASH value -/

/-- One step, `1 ≤ K ≤ 7`, every state satisfying the invariant: the checked build returns (without panic)
    * the exact accumulators,
    * as output the exact (unbounded `Int`, never wrapped) value `u_{K-1} = w_1` of the MASH recursion
      `u_0 = c_K`, `u_{i+1} = c_{K-1-i} + u_i - mem[i]`,
    * as new memories `mem'[i] = u_i = w_{K-i}` for `i < K-1`; memory `K-1` is untouched. -/
theorem dsm_mash (s : Dsm) (x : Int) (hK1 : 1 ≤ s.a.length) (hK7 : s.a.length ≤ 7) (hs : DsmInv s) :
    ∃ s' y, Dsm.update .checked s x = .ok (s', y) ∧
      s'.a = dsmNewAccs s.a x ∧
      y = mashU (dsmCarries s.a x).reverse s.c (s.a.length - 1) ∧
      s'.c.length = s.a.length ∧
      (∀ i, i + 1 < s.a.length → s'.c.getD i 0 = mashU (dsmCarries s.a x).reverse s.c i) ∧
      s'.c.getD (s.a.length - 1) 0 = s.c.getD (s.a.length - 1) 0 := by
  obtain ⟨e1, _, _, _⟩ := dsm_update_ok .checked s x hK1 hK7 hs
  have hrl : (dsmCarries s.a x).reverse.length = s.a.length := by simp [dsmCarries_length]
  obtain ⟨f1, f2, f3, f4⟩ := dsmMash_mashU (dsmCarries s.a x).reverse s.c (by rw [hrl]; exact hs.1)
    (by omega)
  rw [hrl] at f1 f2 f3
  exact ⟨_, _, e1, rfl, f1, by rw [← hs.1]; exact f4, f2, f3⟩

/-- Whole sequences, `0 ≤ K ≤ 7`, from any state satisfying the invariant: the run of the model (either build
    profile) equals the run of the unbounded-integer specification `dsmSpecRun`, which contains no wrap and no
    range check; in particular nothing panics. -/
theorem dsm_mash_run (m : Mode) (s : Dsm) (xs : List Int) (hK7 : s.a.length ≤ 7)
    (hs : DsmInv s) : Dsm.run m s xs = .ok (dsmSpecRun s xs) := by
  by_cases hK0 : s.a.length = 0
  · have := dsmInv_k0 s hs hK0
    subst this
    rw [dsm_run_k0, dsmSpecRun_k0]
  · exact (dsm_run_ok m s xs (by omega) hK7 hs).1

/-- concrete instance (`K = 3`, the doc-test input twice from the default state) -/
example : Dsm.run .checked (Dsm.default 3) [0x87654321, 0x87654321] =
    .ok (⟨[248153666, 2519714147, 496307332], [1, 1, 0]⟩, [0, 2]) := by rfl

/-! ## 3. accumulated error -/

/-- One step, `1 ≤ K ≤ 7`, `u32` input, any state satisfying the invariant: the error increment
    `2^32·y - x` is the increment of the potential `dsmErr = 2^32·Φ - a_1`, a function of the state alone. -/
theorem dsm_error_step (s : Dsm) (x : Int) (hK1 : 1 ≤ s.a.length) (hK7 : s.a.length ≤ 7) (hs : DsmInv s)
    (hx : 0 ≤ x ∧ x < 2 ^ 32) :
    ∃ s' y, Dsm.update .checked s x = .ok (s', y) ∧ 2 ^ 32 * y - x = dsmErr s' - dsmErr s := by
  obtain ⟨e1, _, _, _⟩ := dsm_update_ok .checked s x hK1 hK7 hs
  exact ⟨_, _, e1, dsmStepSpec_err s x hK1 hs hx⟩

/-- The potential is bounded on every state satisfying the invariant: `|dsmErr s| ≤ 2^(K-1)·2^32`. -/
theorem dsm_err_bound (s : Dsm) (hK1 : 1 ≤ s.a.length) (hs : DsmInv s) :
    -(2 ^ (s.a.length - 1) * 2 ^ 32) ≤ dsmErr s ∧ dsmErr s ≤ 2 ^ (s.a.length - 1) * 2 ^ 32 :=
  dsmErr_bound s hK1 hs

/-- `1 ≤ K ≤ 7`, every list `xs` of `u32` inputs fed to `Dsm::<K>::default()` (hence every prefix of every input
    sequence), outputs `ys`, final state `sf`: nothing panics and
    `2^32·∑ys - ∑xs = -(first accumulator of sf) + 2^32·Φ(sf)` with `Φ(sf)` = memory `K-2` of `sf` (`0` if
    `K = 1`): the accumulated error is a function of the final state alone, and
    `|2^32·∑ys - ∑xs| ≤ 2^(K-1)·2^32`. -/
theorem dsm_error_identity (K : Nat) (hK1 : 1 ≤ K) (hK7 : K ≤ 7) (xs : List Int)
    (hxs : ∀ x ∈ xs, 0 ≤ x ∧ x < 2 ^ 32) :
    ∃ sf ys, Dsm.run .checked (Dsm.default K) xs = .ok (sf, ys) ∧
      2 ^ 32 * ys.sum - xs.sum = -(sf.a.headD 0) + 2 ^ 32 * dsmPhi sf ∧
      -(2 ^ (K - 1) * 2 ^ 32) ≤ 2 ^ 32 * ys.sum - xs.sum ∧
      2 ^ 32 * ys.sum - xs.sum ≤ 2 ^ (K - 1) * 2 ^ 32 := by
  have hl : (Dsm.default K).a.length = K := by simp [Dsm.default]
  obtain ⟨e1, e2, e3, _, _⟩ :=
    dsm_run_ok .checked (Dsm.default K) xs (by omega) (by omega) (dsm_default_inv K)
  have h := dsmSpecRun_err (Dsm.default K) xs (by omega) (by omega) (dsm_default_inv K) hxs
  rw [dsmErr_default, Int.sub_zero] at h
  have hb := dsmErr_bound _ (by omega) e2
  rw [e3, hl] at hb
  refine ⟨_, _, e1, ?_, ?_, ?_⟩
  · rw [h, dsmErr]; omega
  · rw [h]; exact hb.1
  · rw [h]; exact hb.2

/-- The same from an arbitrary state satisfying the invariant: the accumulated error over any input list is the
    difference of the potentials of the final and the initial state, hence within `±2·2^(K-1)·2^32`. -/
theorem dsm_error_identity_from (s : Dsm) (xs : List Int) (hK1 : 1 ≤ s.a.length) (hK7 : s.a.length ≤ 7)
    (hs : DsmInv s) (hxs : ∀ x ∈ xs, 0 ≤ x ∧ x < 2 ^ 32) :
    ∃ sf ys, Dsm.run .checked s xs = .ok (sf, ys) ∧
      2 ^ 32 * ys.sum - xs.sum = dsmErr sf - dsmErr s ∧
      -(2 * (2 ^ (s.a.length - 1) * 2 ^ 32)) ≤ 2 ^ 32 * ys.sum - xs.sum ∧
      2 ^ 32 * ys.sum - xs.sum ≤ 2 * (2 ^ (s.a.length - 1) * 2 ^ 32) := by
  obtain ⟨e1, e2, e3, _, _⟩ := dsm_run_ok .checked s xs hK1 hK7 hs
  have h := dsmSpecRun_err s xs hK1 hK7 hs hxs
  have hb := dsmErr_bound _ (by omega) e2
  rw [e3] at hb
  have hb0 := dsmErr_bound s hK1 hs
  refine ⟨_, _, e1, h, ?_, ?_⟩ <;> rw [h] <;> omega

/-- Constant input `x0` (a `u32`) for `n` samples from `Dsm::<K>::default()`, `1 ≤ K ≤ 7`:
    `|2^32·∑ys - n·x0| ≤ 2^(K-1)·2^32`; dividing by `n·2^32`: the output average differs from `x0/2^32` by at
    most `2^(K-1)/n`. -/
theorem dsm_const_input_mean (K : Nat) (hK1 : 1 ≤ K) (hK7 : K ≤ 7) (x0 : Int) (hx0 : 0 ≤ x0 ∧ x0 < 2 ^ 32)
    (n : Nat) :
    ∃ sf ys, Dsm.run .checked (Dsm.default K) (List.replicate n x0) = .ok (sf, ys) ∧ ys.length = n ∧
      -(2 ^ (K - 1) * 2 ^ 32) ≤ ys.sum * 2 ^ 32 - n * x0 ∧
      ys.sum * 2 ^ 32 - n * x0 ≤ 2 ^ (K - 1) * 2 ^ 32 := by
  have hsum : ∀ n : Nat, (List.replicate n x0).sum = n * x0 := by
    intro n
    induction n with
    | zero => simp
    | succ n ih => rw [List.replicate_succ, List.sum_cons, ih]; push_cast; rw [Int.add_mul]; omega
  obtain ⟨sf, ys, e1, _, e3, e4⟩ := dsm_error_identity K hK1 hK7 (List.replicate n x0)
    (fun x hx => by rw [(List.mem_replicate.mp hx).2]; exact hx0)
  obtain ⟨_, _, f1, _, _, _, f5, _⟩ := dsm_range K hK7 (List.replicate n x0)
  rw [e1] at f1
  cases f1
  rw [hsum] at e3 e4
  refine ⟨sf, ys, e1, by simpa using f5, ?_, ?_⟩ <;> rw [Int.mul_comm ys.sum] <;> assumption

/-! ## 4. negation witness: `K = 8` (finding) -/

/-- The property as stated for all `0 ≤ K ≤ 8` (checked build: no panic, outputs in range). FALSE because of
    `K = 8` only, see `dsm_range_full_false` and `dsm_range_upto7`; never used as a hypothesis. -/
def dsm_range_full : Prop :=
  ∀ K, K ≤ 8 → ∀ xs : List Int, (∀ x ∈ xs, 0 ≤ x ∧ x < 2 ^ 32) →
    ∃ sf ys, Dsm.run .checked (Dsm.default K) xs = .ok (sf, ys) ∧
      ∀ y ∈ ys, if K = 0 then y = 0 else 1 - 2 ^ (K - 1) ≤ y ∧ y ≤ 2 ^ (K - 1)

/-- The same for the release build (which cannot panic): every output in range. FALSE for `K = 8`, see
    `dsm_range_release_full_false`; never used as a hypothesis. -/
def dsm_range_release_full : Prop :=
  ∀ K, K ≤ 8 → ∀ xs : List Int, (∀ x ∈ xs, 0 ≤ x ∧ x < 2 ^ 32) →
    ∃ sf ys, Dsm.run .release (Dsm.default K) xs = .ok (sf, ys) ∧
      ∀ y ∈ ys, if K = 0 then y = 0 else 1 - 2 ^ (K - 1) ≤ y ∧ y ≤ 2 ^ (K - 1)

/-- `dsm_range_full` and `dsm_range_release_full` with `K ≤ 8` replaced by `K ≤ 7` are true (this is `dsm_range`):
    `K = 8` is the only obstruction. -/
theorem dsm_range_upto7 (m : Mode) :
    ∀ K, K ≤ 7 → ∀ xs : List Int, (∀ x ∈ xs, 0 ≤ x ∧ x < 2 ^ 32) →
      ∃ sf ys, Dsm.run m (Dsm.default K) xs = .ok (sf, ys) ∧
        ∀ y ∈ ys, if K = 0 then y = 0 else 1 - 2 ^ (K - 1) ≤ y ∧ y ≤ 2 ^ (K - 1) := by
  intro K hK xs _
  obtain ⟨sf, ys, e1, e2, _, _, _, e6⟩ := dsm_range K hK xs
  cases m
  · exact ⟨sf, ys, e1, e6⟩
  · exact ⟨sf, ys, e2, e6⟩

/-- the eight steering inputs of the `K = 8` witness -/
def dsmK8Inputs : List Int :=
  [0x00800000, 0xfb800000, 0x12800000, 0xd1800000, 0x51800000, 0x92800000, 0x7b800000, 0x80800000]

/-- the state of `Dsm::<8>` after the eight steering inputs -/
def dsmK8State : Dsm :=
  ⟨[0xc0000000, 0xe0000000, 0xf0000000, 0xf8000000, 0xfc000000, 0xfe000000, 0xff000000, 0xff800000],
   [0, -1, -3, -7, -15, -31, -63, 0]⟩

/-- `K = 8` from `default()`: the eight steering inputs produce the outputs `0 0 8 -28 64 -98 120 -126` and the
    state `dsmK8State` (which satisfies the invariant); the ninth input `0x80000000` then panics in the checked
    build at the subtraction in `dsm.rs:51`, the release build returns `-128`, while the exact (unbounded) MASH
    value is `+128`, outside `i8` and equal to the claimed upper bound `2^(K-1)`. -/
theorem dsm_k8_overflow_witness :
    Dsm.run .checked (Dsm.default 8) dsmK8Inputs = .ok (dsmK8State, [0, 0, 8, -28, 64, -98, 120, -126]) ∧
    DsmInv dsmK8State ∧
    Dsm.update .checked dsmK8State 0x80000000 = .error ⟨"dsm.rs:51 (d & 1) + y - *c"⟩ ∧
    Dsm.update .release dsmK8State 0x80000000 =
      .ok (⟨[0x40000000, 0x20000000, 0x10000000, 0x08000000, 0x04000000, 0x02000000, 0x01000000, 0x00800000],
            [1, 2, 4, 8, 16, 32, 64, 0]⟩, -128) ∧
    (dsmStepSpec dsmK8State 0x80000000).2 = 128 ∧
    mashU (dsmCarries dsmK8State.a 0x80000000).reverse dsmK8State.c 7 = 128 := by
  refine ⟨by rfl, ?_, by rfl, by rfl, by rfl, by rfl⟩
  rw [dsmInv_explicit]; decide

set_option maxRecDepth 4096 in
/-- the all-`K` checked-build statement is false at `K = 8`: the ninth update of the witness panics -/
theorem dsm_range_full_false : ¬ dsm_range_full := by
  intro h
  obtain ⟨sf, ys, e, _⟩ := h 8 (by decide) (dsmK8Inputs ++ [0x80000000])
    (by simp [dsmK8Inputs])
  have : Dsm.run .checked (Dsm.default 8) (dsmK8Inputs ++ [0x80000000]) =
      .error ⟨"dsm.rs:51 (d & 1) + y - *c"⟩ := by rfl
  rw [this] at e
  cases e

set_option maxRecDepth 4096 in
/-- the release-build all-`K` statement is false at `K = 8`: the ninth output is `-128 < 1 - 2^7` -/
theorem dsm_range_release_full_false : ¬ dsm_range_release_full := by
  intro h
  obtain ⟨sf, ys, e, hy⟩ := h 8 (by decide) (dsmK8Inputs ++ [0x80000000])
    (by simp [dsmK8Inputs])
  have : Dsm.run .release (Dsm.default 8) (dsmK8Inputs ++ [0x80000000]) =
      .ok (⟨[0x40000000, 0x20000000, 0x10000000, 0x08000000, 0x04000000, 0x02000000, 0x01000000, 0x00800000],
            [1, 2, 4, 8, 16, 32, 64, 0]⟩, [0, 0, 8, -28, 64, -98, 120, -126, -128]) := by rfl
  rw [this] at e
  cases e
  have := hy (-128) (by decide)
  revert this
  decide

/-- and with it the error bound in the release build at `K = 8`: after these nine inputs
    `2^32·∑ys - ∑xs = -2^30 - 192·2^32`, below `-2^(K-1)·2^32 = -128·2^32`. -/
example : 2 ^ 32 * ([0, 0, 8, -28, 64, -98, 120, -126, -128] : List Int).sum
    - (dsmK8Inputs ++ [0x80000000]).sum = -(2 ^ 30) - 192 * 2 ^ 32 := by decide

/-! ## 5. the boundary order `K = 8`, sharply (stated uniformly for `1 ≤ K ≤ 8`) -/

/-- One step, `1 ≤ K ≤ 8`, every state satisfying the invariant, every input.  Let `(s', y)` be the exact
    (unbounded-integer) step `dsmStepSpec s x`.  Then `s'` satisfies the invariant, `1 - 2^(K-1) ≤ y ≤ 2^(K-1)`,
    and the model deviates from the exact step in exactly one situation: `y = +128` (possible only for `K = 8`),
    where the checked build panics at the subtraction of `dsm.rs:51` and the release build returns the exact new
    state together with the wrapped output `-128`.  In every other case both builds return `(s', y)`. -/
theorem dsm_step_upto8 (s : Dsm) (x : Int) (hK1 : 1 ≤ s.a.length) (hK8 : s.a.length ≤ 8) (hs : DsmInv s) :
    DsmInv (dsmStepSpec s x).1 ∧
    1 - 2 ^ (s.a.length - 1) ≤ (dsmStepSpec s x).2 ∧ (dsmStepSpec s x).2 ≤ 2 ^ (s.a.length - 1) ∧
    ((dsmStepSpec s x).2 ≠ 128 → ∀ m, Dsm.update m s x = .ok (dsmStepSpec s x)) ∧
    ((dsmStepSpec s x).2 = 128 →
      Dsm.update .checked s x = .error ⟨"dsm.rs:51 (d & 1) + y - *c"⟩ ∧
      Dsm.update .release s x = .ok ((dsmStepSpec s x).1, -128)) := by
  obtain ⟨e1, e2, e3, e4, e5⟩ := dsm_update_gen s x hK1 hK8 hs
  have hp : (2 : Int) ^ (s.a.length - 1) ≤ 2 ^ 7 := two_pow_mono (by omega)
  have h7 : (2 : Int) ^ 7 = 128 := by decide
  exact ⟨e1, e2, e3, fun h => e4 (by omega), e5⟩

/-- Whole sequences, `1 ≤ K ≤ 8`, from any state satisfying the invariant, with `(sf, ys)` the exact run
    `dsmSpecRun s xs`: the release build always returns the exact final state and the exact outputs reduced to
    `i8` (`wrapI 8`, which changes only the value `+128`, to `-128`); the checked build returns exactly
    `(sf, ys)` if no exact output equals `+128` and panics at the subtraction of `dsm.rs:51` otherwise. -/
theorem dsm_run_upto8 (s : Dsm) (xs : List Int) (hK1 : 1 ≤ s.a.length) (hK8 : s.a.length ≤ 8)
    (hs : DsmInv s) :
    Dsm.run .release s xs = .ok ((dsmSpecRun s xs).1, (dsmSpecRun s xs).2.map (wrapI 8)) ∧
    ((∀ y ∈ (dsmSpecRun s xs).2, y ≠ 128) → Dsm.run .checked s xs = .ok (dsmSpecRun s xs)) ∧
    ((∃ y ∈ (dsmSpecRun s xs).2, y = 128) →
      Dsm.run .checked s xs = .error ⟨"dsm.rs:51 (d & 1) + y - *c"⟩) ∧
    DsmInv (dsmSpecRun s xs).1 ∧
    ∀ y ∈ (dsmSpecRun s xs).2, 1 - 2 ^ (s.a.length - 1) ≤ y ∧ y ≤ 2 ^ (s.a.length - 1) := by
  obtain ⟨c1, c2⟩ := dsm_run_checked_gen s xs hK1 hK8 hs
  obtain ⟨i1, _, _, i4⟩ := dsmSpecRun_inv s xs hK1 hK8 hs
  exact ⟨dsm_run_release_gen s xs hK1 hK8 hs, c1, c2, i1, i4⟩

/-- The error identity and bound for the exact MASH outputs, `1 ≤ K ≤ 8` (for `K = 8` these are the values the
    release build returns modulo `2^8`, see `dsm_run_upto8`): with `(sf, ys) = dsmSpecRun (default K) xs`,
    `2^32·∑ys - ∑xs = -(first accumulator of sf) + 2^32·Φ(sf)` and `|2^32·∑ys - ∑xs| ≤ 2^(K-1)·2^32`. -/
theorem dsm_error_identity_exact_upto8 (K : Nat) (hK1 : 1 ≤ K) (hK8 : K ≤ 8) (xs : List Int)
    (hxs : ∀ x ∈ xs, 0 ≤ x ∧ x < 2 ^ 32) :
    2 ^ 32 * (dsmSpecRun (Dsm.default K) xs).2.sum - xs.sum
      = -((dsmSpecRun (Dsm.default K) xs).1.a.headD 0) + 2 ^ 32 * dsmPhi (dsmSpecRun (Dsm.default K) xs).1 ∧
    -(2 ^ (K - 1) * 2 ^ 32) ≤ 2 ^ 32 * (dsmSpecRun (Dsm.default K) xs).2.sum - xs.sum ∧
    2 ^ 32 * (dsmSpecRun (Dsm.default K) xs).2.sum - xs.sum ≤ 2 ^ (K - 1) * 2 ^ 32 := by
  have hl : (Dsm.default K).a.length = K := by simp [Dsm.default]
  obtain ⟨e2, e3, _, _⟩ := dsmSpecRun_inv (Dsm.default K) xs (by omega) (by omega) (dsm_default_inv K)
  have h := dsmSpecRun_err_gen (Dsm.default K) xs (by omega) (by omega) (dsm_default_inv K) hxs
  rw [dsmErr_default, Int.sub_zero] at h
  have hb := dsmErr_bound _ (by omega) e2
  rw [e3, hl] at hb
  refine ⟨?_, ?_, ?_⟩
  · rw [h, dsmErr]; omega
  · rw [h]; exact hb.1
  · rw [h]; exact hb.2

end Idsp
