import IdspModel.Lemmas.CossinCore
import IdspModel.Lemmas.CossinSym
import IdspModel.Lemmas.CossinAccTab
/-!
Accuracy of `cossin` against the real cosine/sine, part 3: assembly.
Rows → first-octant core `cossinCoreVal` (any real angle inside the cell of the field, both ends included, which
covers the 7 ignored phase bits and the 1-LSB shift of the complemented odd octants exactly) → all eight octants
of the closed form `cossinVal` via the exact trigonometric symmetries.
Everything is scaled by the nominal amplitude `A = 2147455795.2 = 2^31 − 0.85·2^15`; the bound is `9.1e-6·A`.
-/
namespace Idsp
open Real

/-- first-octant core: for a 22-bit field `a` and every real `x ∈ [128·a, 128·a + 128]` (phase LSBs), the two core
    outputs are within `9.1e-6·A` of `A·cos`, `A·sin` of the angle `x·π/2^31`. -/
theorem cossinAcc_core {a : ℤ} (h0 : 0 ≤ a) (h1 : a < 2 ^ 22) {x : ℝ} (hx0 : 128 * (a:ℝ) ≤ x)
    (hx1 : x ≤ 128 * (a:ℝ) + 128) :
    |((cossinCoreVal a).1 : ℝ) - 2147455795.2 * cos (x * π / 2 ^ 31)| ≤ 9.1e-6 * 2147455795.2 ∧
    |((cossinCoreVal a).2 : ℝ) - 2147455795.2 * sin (x * π / 2 ^ 31)| ≤ 9.1e-6 * 2147455795.2 := by
  have hi : (a / 2 ^ 15).toNat < 128 := by omega
  have hrow := cossinAcc_rows _ hi (a % 2 ^ 15 - 2 ^ 14) (by omega) (by omega) (x / 128 - a)
    (by linarith) (by linarith)
  have hq : (((a / 2 ^ 15).toNat : ℕ) : ℝ) = ((a / 32768 : ℤ) : ℝ) := by
    have : (((a / 2 ^ 15).toNat : ℕ) : ℤ) = a / 32768 := by omega
    exact_mod_cast this
  have hdec : (a:ℝ) = 32768 * ((a / 32768 : ℤ) : ℝ) + ((a % 32768 : ℤ) : ℝ) := by
    have : a = 32768 * (a / 32768) + a % 32768 := by omega
    exact_mod_cast this
  have hang : (2 * (((a / 2 ^ 15).toNat : ℕ) : ℝ) + 1) * π / 1024
      + (((a % 2 ^ 15 - 2 ^ 14 : ℤ) : ℝ) + (x / 128 - a)) * (π / 2 ^ 24) = x * π / 2 ^ 31 := by
    rw [hq]; push_cast; rw [hdec]; ring1
  rw [hang] at hrow
  exact hrow

/-- angle bookkeeping for one octant: the core outputs `(C, Sn)` for argument `a` against `cos ψ`, `sin ψ` -/
theorem cossinAcc_core_even {f : ℤ} (h0 : 0 ≤ f) (h1 : f < 2 ^ 22) {w : ℤ} (hw0 : 128 * f ≤ w) (hw1 : w < 128 * f + 128) :
    |((cossinCoreVal f).1 : ℝ) - 2147455795.2 * cos ((w:ℝ) * π / 2 ^ 31)| ≤ 9.1e-6 * 2147455795.2 ∧
    |((cossinCoreVal f).2 : ℝ) - 2147455795.2 * sin ((w:ℝ) * π / 2 ^ 31)| ≤ 9.1e-6 * 2147455795.2 := by
  have a0 : 128 * (f:ℝ) ≤ w := by exact_mod_cast hw0
  have a1 : (w:ℝ) ≤ 128 * (f:ℝ) + 128 := by exact_mod_cast (show w ≤ 128 * f + 128 by omega)
  exact cossinAcc_core h0 h1 a0 a1

theorem cossinAcc_core_odd {f : ℤ} (h0 : 0 ≤ f) (h1 : f < 2 ^ 22) {w : ℤ} (hw0 : 128 * f ≤ w) (hw1 : w < 128 * f + 128) :
    |((cossinCoreVal (2 ^ 22 - 1 - f)).1 : ℝ) - 2147455795.2 * cos (π / 4 - (w:ℝ) * π / 2 ^ 31)|
      ≤ 9.1e-6 * 2147455795.2 ∧
    |((cossinCoreVal (2 ^ 22 - 1 - f)).2 : ℝ) - 2147455795.2 * sin (π / 4 - (w:ℝ) * π / 2 ^ 31)|
      ≤ 9.1e-6 * 2147455795.2 := by
  have a0 : 128 * (((2 ^ 22 - 1 - f : ℤ)) : ℝ) ≤ 536870912 - (w:ℝ) := by
    have : 128 * (2 ^ 22 - 1 - f) ≤ 536870912 - w := by omega
    exact_mod_cast this
  have a1 : 536870912 - (w:ℝ) ≤ 128 * (((2 ^ 22 - 1 - f : ℤ)) : ℝ) + 128 := by
    have : 536870912 - w ≤ 128 * (2 ^ 22 - 1 - f) + 128 := by omega
    exact_mod_cast this
  have h := cossinAcc_core (a := 2 ^ 22 - 1 - f) (by omega) (by omega) a0 a1
  have e : (536870912 - (w:ℝ)) * π / 2 ^ 31 = π / 4 - (w:ℝ) * π / 2 ^ 31 := by ring1
  rw [e] at h
  exact h

/-- the closed form `cossinVal` of `cossin`, for every integer phase `p` (no range condition needed): both outputs
    are within `9.1e-6·A` of `A·cos(p·π/2^31)`, `A·sin(p·π/2^31)`, `A = 2147455795.2`. -/
theorem cossinAcc_val (p : ℤ) :
    |((cossinVal p).1 : ℝ) - 2147455795.2 * cos ((p:ℝ) * π / 2 ^ 31)| ≤ 9.1e-6 * 2147455795.2 ∧
    |((cossinVal p).2 : ℝ) - 2147455795.2 * sin ((p:ℝ) * π / 2 ^ 31)| ≤ 9.1e-6 * 2147455795.2 := by
  have ho := cossinOct_range p
  have hf : 0 ≤ cossinFld p ∧ cossinFld p < 2 ^ 22 := by unfold cossinFld; omega
  obtain ⟨n, w, hpd, hw0, hw1⟩ : ∃ n w : ℤ, p = 4294967296 * n + 536870912 * cossinOct p + w ∧
      128 * cossinFld p ≤ w ∧ w < 128 * cossinFld p + 128 :=
    ⟨p / 2 ^ 32, p % 2 ^ 29, by unfold cossinOct; omega, by unfold cossinFld; omega, by unfold cossinFld; omega⟩
  have hpr : (p:ℝ) = 4294967296 * (n:ℝ) + 536870912 * ((cossinOct p : ℤ) : ℝ) + (w:ℝ) := by exact_mod_cast hpd
  have hang : (p:ℝ) * π / 2 ^ 31 = (((cossinOct p : ℤ) : ℝ) * (π / 4) + (w:ℝ) * π / 2 ^ 31) + n * (2 * π) := by
    rw [hpr]; ring1
  rw [hang, cos_add_int_mul_two_pi, sin_add_int_mul_two_pi]
  have he := cossinAcc_core_even hf.1 hf.2 hw0 hw1
  have hod := cossinAcc_core_odd hf.1 hf.2 hw0 hw1
  unfold cossinVal
  generalize (w:ℝ) * π / 2 ^ 31 = φ at he hod ⊢
  generalize cossinFld p = f at *
  generalize (9.1e-6 * 2147455795.2 : ℝ) = B at *
  generalize (2147455795.2 : ℝ) = A at *
  have e22 : (2:ℤ) ^ 22 - 1 - f = 4194303 - f := by norm_num
  rw [e22] at hod
  obtain ⟨he1, he2⟩ := he
  obtain ⟨ho1, ho2⟩ := hod
  have n1 : ∀ {x y : ℝ}, |x - A * y| ≤ B → |-x - A * -y| ≤ B := fun {x y} h => by
    rwa [← abs_neg, show -(x - A * y) = -x - A * -y by ring1] at h
  rcases cossinOct_cases p with h | h | h | h | h | h | h | h <;> rw [h] <;>
    simp only [cossinUnmap, cossinArg] <;> norm_num
  · exact ⟨he1, he2⟩
  · have e : π / 4 + φ = π / 2 - (π / 4 - φ) := by ring1
    rw [e, cos_pi_div_two_sub, sin_pi_div_two_sub]
    exact ⟨ho2, ho1⟩
  · have e : 2 * (π / 4) + φ = φ + π / 2 := by ring1
    rw [e, cos_add_pi_div_two, sin_add_pi_div_two]
    exact ⟨n1 he2, he1⟩
  · have e : 3 * (π / 4) + φ = π - (π / 4 - φ) := by ring1
    rw [e, cos_pi_sub, sin_pi_sub]
    exact ⟨n1 ho1, ho2⟩
  · have e : 4 * (π / 4) + φ = φ + π := by ring1
    rw [e, cos_add_pi, sin_add_pi]
    exact ⟨n1 he1, n1 he2⟩
  · have e : 5 * (π / 4) + φ = (π / 2 - (π / 4 - φ)) + π := by ring1
    rw [e, cos_add_pi, sin_add_pi, cos_pi_div_two_sub, sin_pi_div_two_sub]
    exact ⟨n1 ho2, n1 ho1⟩
  · have e : 6 * (π / 4) + φ = (φ + π / 2) + π := by ring1
    rw [e, cos_add_pi, sin_add_pi, cos_add_pi_div_two, sin_add_pi_div_two, neg_neg]
    exact ⟨he2, n1 he1⟩
  · have e : 7 * (π / 4) + φ = 2 * π - (π / 4 - φ) := by ring1
    rw [e, cos_two_pi_sub, sin_two_pi_sub]
    exact ⟨ho1, n1 ho2⟩

end Idsp
