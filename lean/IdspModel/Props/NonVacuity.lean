import IdspModel.Props.NonVacuityA
import IdspModel.Props.NonVacuityB
import IdspModel.Props.NonVacuityC
import IdspModel.Props.NonVacuityD
/-!
# Non-vacuity audit of the property theorems (`IdspModel/Props/*.lean`, 36 files)

A theorem whose hypotheses no concrete value satisfies proves nothing.  For every property theorem that has a
hypothesis which is more than an independent range fact on a free variable, and that is not already followed in its own
file by an `example` / concrete-instance theorem discharging ALL its hypotheses, the four parts below contain

    /-- non-vacuity of `<theorem name(s)>`: <which concrete values> -/
    example : ∃ <arguments>, H1 ∧ H2 ∧ … := ⟨<concrete non-trivial values>, …⟩

with ONE common witness of the whole hypothesis set (hypotheses copied from the theorem, in its order), preferring
reachable non-zero states, non-empty lists and the configurations of the crate's documentation and tests (Lowpass
`k = 2^24`, RPLL `8/4000/16/15`, CIC `N = 3` rate 7, Dsm `K = 3` doc-test input and the reachable `K = 8` boundary state,
a Q2.30 Butterworth low-pass on `i32`, the Rust-shaped half-band cascades, binary32 unit roundoff `2^-24`, …).  Every
theorem of every Props file is accounted for: a witness, or a "skipped" comment per file with the reason (no hypotheses /
independent range facts / instantiated in its own file at the quoted line).

* `NonVacuityA.lean` — C09, C16, C03, C04, C13, C12, C14, C06, C10
* `NonVacuityB.lean` (`B1`, `B2`) — C10lp2, C11, C11rec, C07, C07lock, C19, C08, C15, C15F
* `NonVacuityC.lean` (`C1`, `C2`) — C15Fc, C15spec, C02, C01, C17, C18, C05, C20, C20b
* `NonVacuityD.lean` — C20c, C03F, C04F, C05q, C01acc, C02acc, C07region, C10lp2t, C15Fs

Instances that had to be BUILT because the development contained none (all others refer to existing instances):
the `∀ time : Int` fit hypotheses of `interpolate_ok_of_fits` / `c20b_cic_interpolate_fits` (A: `i32`, `N = 3`, rate 7,
constant input 1000, via `nvA_Bnd`; C: `i16`, order 2, rate 3); the prefix-closed fit hypothesis of
`unwrapper_sum_exact` (C); a genuinely rounding `FlModelX` with a representable inexact product for
`fproportional_returns` (D: `nvD_X32`); a `ClampLaws` carrier with a NaN (D); half-band stages with non-zero history and
two different buffer lengths for the `…_depends_only_on_history` theorems (A); saturation episodes of different
lengths ending with the same noise-shaping remainder for `no_windup5_recovery_partial` (A); a settled `Lowpass<2>` state
that is not a `set()` state (B); an existing run for `lockin_recovery_angle_witness` (B); valid output indices for the
`C15Fc` / `C15Fs` cascade theorems, whose conclusions quantify over `i < output.length` (C, D).
-/

/-! ## Suspected vacuous …

**No theorem of the 36 Props files was found to have an unsatisfiable hypothesis set**, and none is satisfiable only by
degenerate data (empty list, zero input, unused width).  What the audit did find, in decreasing order of weight
(details and, where cheap, proofs in `NonVacuityB.lean` and at the end of `NonVacuityC.lean` / `NonVacuityD.lean`):

1. `rpll_lock_holds_where_envelope_small`, `rpll_locks_within_envelope` (C07lock) and both regions of `C07region`:
   satisfiable (`8/4000/16/15`, `4/1000/12/11`) but the hypothesis set EXCLUDES every RPLL configuration exercised by
   the tests of `rpll.rs` (`8/333/9/8`, `8/990/10/9`, `8/1818181/21/20`, `11/2431/23/23` are not `RpllCfg.Good`; for
   `8/990/23/22`, `8/1818181/23/22` the hypothesis `100000·envF k ≤ Σ²T` fails for every `k` — all six proved in
   `NonVacuityB.lean`).  Not vacuous, but narrow: roughly `sf − d ≤ 14`, `3·2^d < P ≤ 2^sp`.
2. `sat_scale_clip` (C18), second conjunct, at `shift = 32`: the inner antecedent `2^31 ≤ hi` contradicts `inI 32 hi`
   (`nvC_sat_scale_clip_upper_vacuous_at_32`): for the documented shift 32 there is no positive-saturation case; the
   negative one is met by `hi = i32::MIN` only and yields `0` (already recorded as F-C18-a).  Shifts `≤ 31`: fine.
3. `hbf_cascade_stopband_sharp`, `hbf_cascade_stopband` (C15spec): the hypothesis `hbfCascadeResponse d f ≠ 0` is proved
   at exactly one stop-band point in the development (`d = 1`, `f = 1`, an end point of the frequency range); no
   witness for `d = 2, 3, 4`.  The multiplicative forms (`hbf_cascade_stopband_gain`, `hbf_cascade_spec_full_holds`)
   carry no such hypothesis.
4. Every floating-point theorem (C03F, C04F, C15F, C15Fc, C15Fs) assumes a rounding model `FlModel u` /
   `FlModelU u eta` / `FlModelX u` (relative-error law for ALL real operands).  Instances exist (`FlModel.exact`,
   `FlModel.roundUp`, `FlModelX.roundOutside`; the witnesses use the rounding ones at `u = 2^-24`), but none is
   round-to-nearest of an actual format, and IEEE binary32 is an instance only absent overflow/underflow: that link
   is an assumption outside Lean (as `Lemmas/FloatModel.lean` says).
5. `polar_roundtrip_reduction (K)` (C19): its field hypothesis holds only for `K ≥ 15038`, i.e. essentially for the
   one instance `polar_roundtrip_fields` it is used with.  `lp2_settles_of_safe` / `lp2_settles_of_safe2` (C10lp2):
   `Lp2Safe` / `Lp2Safe2` instances exist for Butterworth pairs at restricted levels only.
6. `interpolate_ok_of_fits` (C13) / `c20b_cic_interpolate_fits`: the fit hypotheses quantify over ALL integer times
   (`∀ m i : Int`); they are satisfiable for bounded inputs (witnesses above) but no instance existed before.
-/
