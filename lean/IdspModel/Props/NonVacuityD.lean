import IdspModel.Props.C20c
import IdspModel.Props.C03F
import IdspModel.Props.C04F
import IdspModel.Props.C05q
import IdspModel.Props.C01acc
import IdspModel.Props.C02acc
import IdspModel.Props.C07region
import IdspModel.Props.C10lp2t
import IdspModel.Props.C15Fs
/-!
# Non-vacuity audit, part D — `C20c`, `C03F`, `C04F`, `C05q`, `C01acc`, `C02acc`, `C07region`, `C10lp2t`, `C15Fs`

For every property theorem of these files whose hypotheses are more than independent range facts and which is not
already followed in its own file by an example discharging ALL its hypotheses, an `example` exhibits ONE common
concrete, non-trivial witness of the whole hypothesis set (hypotheses copied in the theorem's order).  Theorems that are
skipped are named, with the reason, in the comment that opens each section.  Auxiliary names carry the prefix `nvD_`.
-/
namespace Idsp
open Real

/-! ## C20c

Skipped:
* independent range facts only (`inI w x = true`, `1 ≤ k ≤ 2^31 − 1`, `0 < w`, `0 < q < w`, `0 ≤ index < 2^32`):
  `c20c_nyquist`, `c20c_lowpass1_stage`, `c20c_cascade_lowpass1_nyquist`, `c20c_accu_osc`,
  `c20c_set_input_offset_iff`, `c20c_biquad_update2_release`, `c20c_cic_interpolate_none_iff`;
* no hypotheses: `c20c_forward_gain_iff`, `c20c_forward_gain_panic_witness`, `c20c_input_offset_iff`,
  `c20c_biquad_update2_panic_witness`, `c20c_cic_settle_iff`, `c20c_cic_interpolate_some_iff`;
* already has an example discharging all hypotheses in `C20c.lean`: `c20c_repeat_lowpass1` (l. 302),
  `c20c_input_offset_zero_gain_panics` (l. 314, `i8`; an `i32` witness is added below), `c20c_cic_settle` (l. 325),
  `c20c_biquad_update2_state_in_range` (l. 319, `Df2tFit` instance on `i8`; an `i32` one is `nvD_lp_fit`).
-/

/-- a Butterworth low-pass (`f0 = 0.1`) in Q2.30 on `i32`: `b = [0.0675, 0.1349, 0.0675]`, `a = [−1.1430, 0.4128]`,
    offset `u = 1000`, full-range limits -/
def nvD_lp : BiquadCfg := ⟨72429539, 144859078, 72429539, -1227282145, 443258474, 1000, -2147483648, 2147483647⟩

theorem nvD_lp_inRange : nvD_lp.inRange 32 := by unfold BiquadCfg.inRange nvD_lp; decide

/-- all five DF2T sums fit for a generic non-zero state and a near-full-scale input
    (the step returns `((254356728, −11355404), 190912054)`) -/
theorem nvD_lp_fit : nvD_lp.Df2tFit 32 30 123456789 (-98765432) 1000000000 := by
  constructor <;> decide

/-- non-vacuity of `c20c_forward_gain_value`: the low-pass above on `i32` (gain `0.27`) -/
example : ∃ (w : Nat) (c : BiquadCfg), inI w (c.b0 + c.b1) = true ∧ inI w (c.b0 + c.b1 + c.b2) = true :=
  ⟨32, nvD_lp, by decide, by decide⟩

/-- non-vacuity of `c20c_input_offset_value`: `i32`, Q2.30, the low-pass above with `u = 1000` -/
example : ∃ (w q : Nat) (c : BiquadCfg), 0 < w ∧ q ≤ w ∧ inI w c.u = true ∧ inI w (c.b0 + c.b1) = true ∧
    inI w (c.b0 + c.b1 + c.b2) = true ∧ c.b0 + c.b1 + c.b2 ≠ 0 :=
  ⟨32, 30, nvD_lp, by decide, by decide, by decide, by decide, by decide, by decide⟩

/-- non-vacuity of `c20c_input_offset_zero_gain_panics` on `i32`: the high-pass numerator `[0.25, −0.5, 0.25]` -/
example : ∃ (w : Nat) (c : BiquadCfg), inI w (c.b0 + c.b1) = true ∧ c.b0 + c.b1 + c.b2 = 0 :=
  ⟨32, ⟨268435456, -536870912, 268435456, -1227282145, 443258474, 1000, -2147483648, 2147483647⟩, by decide,
    by decide⟩

/-- non-vacuity of `c20c_set_input_offset_value`: `i32`, Q2.30, the low-pass above, `offset = −123456` -/
example : ∃ (w q : Nat) (c : BiquadCfg) (offset : Int), 0 < q ∧ q < w ∧ inI w offset = true ∧
    inI w (c.b0 + c.b1) = true ∧ inI w (c.b0 + c.b1 + c.b2) = true :=
  ⟨32, 30, nvD_lp, -123456, by decide, by decide, by decide, by decide, by decide⟩

/-- non-vacuity of `c20c_biquad_update2` (and of `c20c_biquad_update2_iff`, whose hypotheses are the first four):
    `i32`, Q2.30, the low-pass above, state `(123456789, −98765432)`, input `10^9` -/
example : ∃ (w q : Nat) (c : BiquadCfg) (s0 s1 x0 : Int), 0 < q ∧ q < w ∧ c.inRange w ∧ inI w x0 = true ∧
    c.Df2tFit w q s0 s1 x0 :=
  ⟨32, 30, nvD_lp, _, _, _, by decide, by decide, nvD_lp_inRange, by decide, nvD_lp_fit⟩

/-- non-vacuity of `c20c_cic_decimate_any_state`: `i32`, order 3, rate 7, mid-period (`index = 3`), registers at and
    near the extremes -/
example : ∃ (w : Nat) (s : Cic) (x : Int), 0 < w ∧ s.InRange w ∧ inI w x = true :=
  ⟨32, ⟨7, 3, -5000, [100000, -2000000, 2147483647], [-2147483648, 12345, -777]⟩, 2000000000, by decide,
    by constructor <;> decide, by decide⟩

/-! ## C03F

Every theorem of the file takes a rounding model `M : FlModel u` (section variable); instances at the binary32 unit
roundoff are `nvD_M32` (every operation rounds) and `nvD_X32` (with exactness laws) below.

Skipped:
* only hypothesis is the model `M : FlModel u` (instance `nvD_M32`): `fbiquad_sum_error`,
  `fbiquad_sum_error_uniform` (`5u < 1`, `u ≤ 1/32` are guards inside the conclusion, true at `u = 2^-24`),
  `fbiquad_junction_error`, `fbiquad45_output_error`, `fbiquad45_vs_df1Step`, `fbiquad2_step_error`,
  `fbiquad2_step_vs_exact`, `fbiquad2_third_output_error`, `fbiquad2_first_two_outputs_error`,
  `fbiquad2_run_recurrence_error`, `fbiquad4_run_recurrence_error`, `fbiquad_seqOut_eq_run`;
  `fbiquad2_from_rest` (in addition `c.u = 0`, a free field);
* only hypothesis is `U : FlModelU u eta` (instances: `C03F.lean` l. 433–434 and `nvD_U32` below):
  `fbiquad45_output_error_underflow`, `fbiquad2_third_output_error_underflow`;
* no hypotheses / `0 ≤ u` only: `clip_error_does_not_grow`, `df1Bound_le`, `df2tBound_le`,
  `fbiquad_exact_instance_df2t_eq_df1`;
* already has an example in `C03F.lean` (l. 481–494) that discharges all hypotheses for EVERY `X : FlModelX u` in which
  the integers are representable — such an `X` exists (`nvD_X32`, example below): `fidentity_returns_x0`,
  `fhold_returns_y1`, second part of `fspecial_df2t`.
-/

/-- binary32 unit roundoff, every operation rounds away from zero by the full factor `1 + 2^-24` -/
noncomputable def nvD_M32 : FlModel (1 / 2 ^ 24) := FlModel.roundUp _ (by positivity)

/-- the same with underflow term `eta = 2^-150` -/
noncomputable def nvD_U32 : FlModelU (1 / 2 ^ 24) (1 / 2 ^ 150) :=
  FlModelU.roundUp _ _ (by positivity) (by positivity)

/-- non-vacuity of all theorems of `C03F` whose only hypothesis is the rounding model -/
example : Nonempty (FlModel (1 / 2 ^ 24)) ∧ Nonempty (FlModelU (1 / 2 ^ 24) (1 / 2 ^ 150)) := ⟨⟨nvD_M32⟩, ⟨nvD_U32⟩⟩

/-- "representable" = an integer, or `±(3/2)(1 + 2^-24)` (the rounded value of the inexact product `1/2 · 3`) -/
def nvD_S (x : ℝ) : Prop := (∃ n : ℤ, x = n) ∨ x = 3 / 2 * (1 + 1 / 2 ^ 24) ∨ x = -(3 / 2 * (1 + 1 / 2 ^ 24))

/-- a genuinely rounding `FlModelX` at the binary32 unit roundoff: results in `nvD_S` are returned exactly, all others
    are rounded away from zero by the full factor `1 + 2^-24` -/
noncomputable def nvD_X32 : FlModelX (1 / 2 ^ 24) :=
  FlModelX.roundOutside _ (by positivity) nvD_S (.inl ⟨0, by simp⟩) (.inl ⟨1, by simp⟩) (by
    rintro x (⟨n, h⟩ | h | h)
    · exact .inl ⟨-n, by rw [h]; push_cast; rfl⟩
    · exact .inr (.inr (by rw [h]))
    · exact .inr (.inl (by rw [h, neg_neg])))

theorem nvD_X32_rep (n : ℤ) : nvD_X32.rep n := .inl ⟨n, rfl⟩

theorem nvD_not_S : ¬ nvD_S (1 / 2 * 3) := by
  rintro (⟨n, h⟩ | h | h)
  · have h2 : ((3 : ℤ) : ℝ) = ((2 * n : ℤ) : ℝ) := by push_cast; linarith
    have := Int.cast_injective h2
    omega
  · norm_num at h
  · norm_num at h

/-- the product `1/2 · 3` is NOT exact in `nvD_X32`: it is rounded to `(3/2)(1 + 2^-24)`, which is representable -/
theorem nvD_X32_mul : nvD_X32.fmul (1 / 2) 3 = 3 / 2 * (1 + 1 / 2 ^ 24) := by
  have h := nvD_not_S
  simp only [nvD_X32, FlModelX.roundOutside, if_neg h]
  norm_num

/-- the hypotheses `X`, `hr` of the doc-test example of `C03F.lean` (l. 481) — hence all hypotheses of
    `fidentity_returns_x0`, `fhold_returns_y1` and of the second part of `fspecial_df2t` — are satisfiable by a
    genuinely rounding model -/
example : ∃ X : FlModelX (1 / 2 ^ 24), ∀ n : ℤ, X.rep n := ⟨nvD_X32, nvD_X32_rep⟩

/-- non-vacuity of `fproportional_returns`: `proportional(1/2)` on `x0 = 3` with integer state in `nvD_X32`; the
    product is genuinely rounded (last conjunct, not a hypothesis of the theorem: the witness is not the degenerate
    "exact product" case) and the rounded result is representable and within the limits `±1000` -/
example : ∃ (X : FlModelX (1 / 2 ^ 24)) (c : FBiquadCfg ℝ) (x0 x1 x2 y1 y2 : ℝ),
    c.b1 = 0 ∧ c.b2 = 0 ∧ c.a1 = 0 ∧ c.a2 = 0 ∧ c.u = 0 ∧ X.rep x1 ∧ X.rep x2 ∧ X.rep y1 ∧ X.rep y2 ∧
    X.rep (X.fmul c.b0 x0) ∧ c.mn ≤ X.fmul c.b0 x0 ∧ X.fmul c.b0 x0 ≤ c.mx ∧ X.fmul c.b0 x0 ≠ c.b0 * x0 := by
  refine ⟨nvD_X32, ⟨1 / 2, 0, 0, 0, 0, 0, -1000, 1000⟩, 3, ((5 : ℤ) : ℝ), ((-6 : ℤ) : ℝ),
    ((7 : ℤ) : ℝ), ((-8 : ℤ) : ℝ), rfl, rfl, rfl, rfl, rfl, nvD_X32_rep _, nvD_X32_rep _, nvD_X32_rep _,
    nvD_X32_rep _, ?_, ?_, ?_, ?_⟩
  · show nvD_X32.rep (nvD_X32.fmul (1 / 2) 3); rw [nvD_X32_mul]; exact .inr (.inl rfl)
  · show (-1000 : ℝ) ≤ nvD_X32.fmul (1 / 2) 3; rw [nvD_X32_mul]; norm_num
  · show nvD_X32.fmul (1 / 2) 3 ≤ (1000 : ℝ); rw [nvD_X32_mul]; norm_num
  · show nvD_X32.fmul (1 / 2) 3 ≠ 1 / 2 * 3; rw [nvD_X32_mul]; norm_num

/-- non-vacuity of `fspecial_df2t`, first part (outer hypotheses and the premises of the `proportional(k)` clause
    together): `k = 1/2`, state `(0, 5)`, `x0 = 3`, rounded product as above -/
example : ∃ (X : FlModelX (1 / 2 ^ 24)) (c : FBiquadCfg ℝ) (s0 s1 x0 : ℝ),
    c.b1 = 0 ∧ c.b2 = 0 ∧ c.a2 = 0 ∧ c.u = 0 ∧ X.rep x0 ∧ X.rep s0 ∧ X.rep s1 ∧
    c.a1 = 0 ∧ s0 = 0 ∧ X.rep (X.fmul c.b0 x0) ∧ c.mn ≤ X.fmul c.b0 x0 ∧ X.fmul c.b0 x0 ≤ c.mx := by
  refine ⟨nvD_X32, ⟨1 / 2, 0, 0, 0, 0, 0, -1000, 1000⟩, 0, 5, 3, rfl, rfl, rfl, rfl, .inl ⟨3, by norm_num⟩,
    .inl ⟨0, by norm_num⟩, .inl ⟨5, by norm_num⟩, rfl, rfl, ?_, ?_, ?_⟩
  · show nvD_X32.rep (nvD_X32.fmul (1 / 2) 3); rw [nvD_X32_mul]; exact .inr (.inl rfl)
  · show (-1000 : ℝ) ≤ nvD_X32.fmul (1 / 2) 3; rw [nvD_X32_mul]; norm_num
  · show nvD_X32.fmul (1 / 2) 3 ≤ (1000 : ℝ); rw [nvD_X32_mul]; norm_num

/-- non-vacuity of `fspecial_df2t`, third part (`HOLD` on a state `(s0, 0)`): `s0 = 7`, `x0 = 3` -/
example : ∃ (X : FlModelX (1 / 2 ^ 24)) (c : FBiquadCfg ℝ) (s0 s1 x0 : ℝ),
    c.b1 = 0 ∧ c.b2 = 0 ∧ c.a2 = 0 ∧ c.u = 0 ∧ X.rep x0 ∧ X.rep s0 ∧ X.rep s1 ∧
    c.a1 = -1 ∧ c.b0 = 0 ∧ s1 = 0 ∧ c.mn ≤ s0 ∧ s0 ≤ c.mx :=
  ⟨nvD_X32, ⟨0, 0, 0, -1, 0, 0, -1000, 1000⟩, 7, 0, 3, rfl, rfl, rfl, rfl, .inl ⟨3, by norm_num⟩,
    .inl ⟨7, by norm_num⟩, .inl ⟨0, by norm_num⟩, rfl, rfl, rfl, by norm_num, by norm_num⟩

/-- non-vacuity of `fbiquad_sum_error_tight`: binary32 roundoff, all `b·x ≥ 0`, all `a·y ≤ 0`, nothing zero -/
example : ∃ (u : ℝ) (c : FBiquadCfg ℝ) (x0 x1 x2 y1 y2 : ℝ), 0 ≤ u ∧ 0 ≤ c.b0 * x0 ∧ 0 ≤ c.b1 * x1 ∧
    0 ≤ c.b2 * x2 ∧ c.a1 * y1 ≤ 0 ∧ c.a2 * y2 ≤ 0 :=
  ⟨1 / 2 ^ 24, ⟨1 / 4, 1 / 2, 1 / 4, -1, 1 / 2, 0, -10, 10⟩, 1, 2, 3, 1, -2, by norm_num, by norm_num, by norm_num,
    by norm_num, by norm_num, by norm_num⟩

set_option linter.unusedSimpArgs false in
/-- non-vacuity of `fbiquad_df1_df2t_sequences_close` (the example of `C03F.lean` l. 498 discharges only the limit
    hypothesis): ALL hypotheses together — rounding models `M1 = M2 =` round-up with `u = 1/4`, a feedback filter with
    offset (`a1 = −1/2`, `u = 1`, limits `±100`), constant input `1`, `N = 1`, `G = 2`, `B1 = B2 = 20` -/
example :
    let c : FBiquadCfg ℝ := ⟨1 / 2, 1 / 4, 0, -1 / 2, 0, 1, -100, 100⟩
    let M := FlModel.roundUp (1 / 4) (by norm_num)
    let x : ℕ → ℝ := fun _ => 1
    let y1 := seqOut (fbiquadUpdate4 M.ops c) (0, 0, 0, 0) x
    let y2 := seqOut (fbiquadUpdate2 M.ops c) (c.u, c.u) x
    (∑ j ∈ Finset.range (1 + 1), |impulse c.a1 c.a2 j| ≤ 2) ∧
    (∀ n, n ≤ 1 → c.mn < y1 n ∧ y1 n < c.mx ∧ c.mn < y2 n ∧ y2 n < c.mx) ∧
    (∀ n, n ≤ 1 → df1Bound (1 / 4) c (x n) (prev x 1 n) (prev x 2 n) (prev y1 1 n) (prev y1 2 n) ≤ 20) ∧
    (∀ n, n ≤ 1 → df2tBound (1 / 4) c (x n) (prev x 1 n) (prev x 2 n) (prev y2 1 n) (prev y2 2 n) ≤ 20) := by
  intro c M x y1 y2
  refine ⟨?_, ?_, ?_, ?_⟩
  · simp only [Finset.sum_range_succ, Finset.sum_range_zero, impulse, c]; norm_num
  all_goals
    intro n hn
    rcases Nat.le_one_iff_eq_zero_or_eq_one.mp hn with rfl | rfl
    all_goals
      simp only [y1, y2, seqOut, seqSt, fbiquadUpdate4, fbiquadUpdate2, fmacc, fclip, fbiquadSum, FlModel.ops,
        FlModel.roundUp, M, c, x, df1Bound, df2tBound, prev, gam, Nat.sub_self, le_refl, if_true, if_false,
        Nat.reduceLeDiff]
      norm_num

/-! ## C04F

Skipped (no hypotheses): `fbiquad4_state`, `fbiquad2_state`.
The file's own example (l. 105) instantiates `ClampLaws` on `Int` with every value "ok"; below the laws are
instantiated on a carrier WITH a NaN, together with the remaining hypotheses of the three limit theorems.
-/

/-- a toy float carrier with a NaN: `Option Int`, `none` = NaN; arithmetic propagates NaN, `max`/`min` ignore a NaN
    operand (Rust's `f32::max`/`min`, IEEE maxNum/minNum) -/
def nvD_nanOps : BOps (Option Int) where
  zero := some 0
  add a b := a.bind fun x => b.map (x + ·)
  sub a b := a.bind fun x => b.map (x - ·)
  mul a b := a.bind fun x => b.map (x * ·)
  max a b := match a, b with
    | none, b => b
    | a, none => a
    | some x, some y => some (max x y)
  min a b := match a, b with
    | none, b => b
    | a, none => a
    | some x, some y => some (min x y)

/-- `≤` on numbers; false as soon as one side is NaN -/
def nvD_nanLe (a b : Option Int) : Prop := ∃ x y, a = some x ∧ b = some y ∧ x ≤ y

theorem nvD_nanLaws : ClampLaws nvD_nanOps nvD_nanLe (fun a => a.isSome = true) where
  max_ge a b hb := by
    obtain ⟨y, rfl⟩ := Option.isSome_iff_exists.mp hb
    cases a with
    | none => exact ⟨⟨y, y, rfl, rfl, Int.le_refl _⟩, rfl⟩
    | some x => exact ⟨⟨y, max x y, rfl, rfl, by omega⟩, rfl⟩
  min_le a b hb := by
    obtain ⟨y, rfl⟩ := Option.isSome_iff_exists.mp hb
    cases a with
    | none => exact ⟨⟨y, y, rfl, rfl, Int.le_refl _⟩, rfl⟩
    | some x => exact ⟨⟨min x y, y, rfl, rfl, by omega⟩, rfl⟩
  min_ge a b c ha hb h1 h2 := by
    obtain ⟨z, x, rfl, rfl, hzx⟩ := h1
    obtain ⟨z', y, hz, rfl, hzy⟩ := h2
    cases hz
    exact ⟨z, min x y, rfl, rfl, by omega⟩

/-- non-vacuity of `fclip_in_limits`, `fbiquad_in_limits`, `fbiquad_run_in_limits`: the NaN-carrying model above, a
    coefficient set containing a NaN (`a2`), limits `−100 ≤ 100` -/
example : ∃ (o : BOps (Option Int)) (le : Option Int → Option Int → Prop) (ok : Option Int → Prop)
    (c : FBiquadCfg (Option Int)), ClampLaws o le ok ∧ ok c.mn ∧ ok c.mx ∧ le c.mn c.mx :=
  ⟨nvD_nanOps, nvD_nanLe, _, ⟨some 3, some (-2), some 1, some (-1), none, some 5, some (-100), some 100⟩,
    nvD_nanLaws, rfl, rfl, ⟨-100, 100, rfl, rfl, by decide⟩⟩

/-- integer arithmetic with the usual `max`/`min` as the float operations -/
def nvD_intOps : BOps Int := ⟨0, (· + ·), (· - ·), (· * ·), max, min⟩

/-- non-vacuity of `fbiquad4_no_windup`: a feedback filter (`a1 = −1`, offset 3, limits `±50`) driven into the upper
    limit by the constant input 40 from a generic state: two consecutive outputs equal `lim = 50` -/
example : ∃ (c : FBiquadCfg Int) (st : Int × Int × Int × Int) (x lim : Int),
    (fbiquadUpdate4 nvD_intOps c st x).2 = lim ∧
    (fbiquadUpdate4 nvD_intOps c (fbiquadUpdate4 nvD_intOps c st x).1 x).2 = lim :=
  ⟨⟨2, 1, 0, -1, 0, 3, -50, 50⟩, (7, -4, 20, 9), 40, 50, by decide, by decide⟩

/-- non-vacuity of `fbiquad2_no_windup`: two DIFFERENT first state words (30 and 70) that give the same clamped
    output -/
example : ∃ (c : FBiquadCfg Int) (s0 s0' s1 x0 : Int), s0 ≠ s0' ∧
    (fbiquadUpdate2 nvD_intOps c (s0, s1) x0).2 = (fbiquadUpdate2 nvD_intOps c (s0', s1) x0).2 :=
  ⟨⟨2, 1, 0, -1, 0, 3, -50, 50⟩, 30, 70, -11, 40, by decide, by decide⟩

/-! ## C05q

Skipped:
* no hypotheses: `quant_saturates`, `quant_constants_instances`, `quant_odd`, `quant_odd_quantize` (the two guards
  inside its conclusion are instantiated by the example at l. 198);
* independent range facts only: `quant_saturates_nearest` (`inI w n`), `quant_monotone` (`v ≤ v'`, example l. 124),
  `quant_exact_on_coefficients` (`inI w k`, example l. 179), `quant_constants` (`q + 2 = w`, instantiated four times in
  `quant_constants_instances`);
* already has an example discharging all hypotheses in `C05q.lean`: `quant_fits_of_range` (l. 39), `quant_nearest`
  (l. 75), `quant_nearest_unique` (l. 71), `quant_ties_away` (l. 79, both signs of `m`), `quant_scale_error` (l. 220),
  `quant_float_eq` (l. 246, `i8`).
-/

/-- the toy binary32-like rounding model of `Props/C05q.lean` (exact on the grid of multiples of `2^-10`, relative
    error `2^-24` elsewhere) -/
noncomputable def nvD_Q : QuantFl (2 ^ (-24 : ℤ)) :=
  QuantFl.roundOutside (2 ^ (-24 : ℤ)) (by positivity) quantGrid quantGrid_zero quantGrid_one quantGrid_neg

/-- non-vacuity of `quant_float_nearest` (and of `quant_float_eq`, first three conjuncts) at the `i32` instance
    `(w, q) = (32, 30)`: `v = 717/1024`, `2^30` and `v·2^30` are on the grid -/
example : ∃ (M : QuantFl (2 ^ (-24 : ℤ))) (w q : ℕ) (v : ℝ) (n : ℤ), M.rep v ∧ M.rep (2 ^ q) ∧ M.rep (v * 2 ^ q) ∧
    inI w n = true :=
  ⟨nvD_Q, 32, 30, 717 / 1024, -123456789, ⟨717, by norm_num⟩, ⟨2 ^ 40, by norm_num⟩, ⟨717 * 2 ^ 30, by norm_num⟩,
    by decide⟩

/-! ## C01acc

Skipped: no hypotheses: `cossinAmplitude_eq`, `cossin_accuracy_full_holds`, `cossin_accuracy_tight`, private helper
`amp_eq`; private helper `scaled` (one inequality between the free `v`, `y`: a range fact);
already has examples discharging all hypotheses (l. 95, l. 97): `cossin_accuracy`.
-/

/-- non-vacuity of `cossin_accuracy_sharp` in the RELEASE profile (the examples of `C01acc.lean` use the checked
    one): phase `1234567890` (second quadrant) -/
example : ∃ (m : Mode) (p c s : Int), inI 32 p = true ∧ cossin m p = .ok (c, s) :=
  ⟨.release, 1234567890, -500595530, 2088294590, by decide, by decide +kernel⟩

/-! ## C02acc

Skipped: no hypotheses: `atan2_accuracy_full_holds`; independent range fact only: `atani_accuracy` (`q ≤ 65536`);
already has an example discharging all hypotheses (l. 102, l. 107): `atan2_accuracy`.
-/

/-- non-vacuity of `atan2_accuracy_release`: third quadrant, close to the `−π` cut -/
example : ∃ (y x r : Int), inI 32 y = true ∧ inI 32 x = true ∧ ¬ (y = 0 ∧ x = 0) ∧ atan2 .release y x = .ok r :=
  ⟨-1234567, -2000000000, -2147061230, by decide, by decide, by decide, by decide +kernel⟩

/-- non-vacuity of `atan2_first_octant_accuracy` (all five hypotheses) and of `divi_angle_accuracy` (the first four):
    `y = 1234567`, `x = 2·10^9` -/
example : ∃ (y x r0 : Int), 0 ≤ y ∧ y ≤ x ∧ 2 ≤ x ∧ x < 2 ^ 31 ∧
    (do let d ← divi .checked y x; atani .checked d) = .ok r0 :=
  ⟨1234567, 2000000000, 422418, by decide, by decide, by decide, by decide, by decide +kernel⟩

/-! ## C07region

Skipped — already have examples discharging the (single) hypothesis in `C07region.lean`:
`rpll_lock_region` (`rpllRegion ⟨8, 1500, off, 16, 15⟩`, l. 117), `rpllRegionClosed_sub`, `rpll_lock_region_closed`
(`rpllRegionClosed ⟨8, 4000, off, 16, 15⟩`, `⟨8, 40000, off, 20, 19⟩`, `⟨8, 100000, off, 21, 21⟩`, l. 110).
Private helpers `rpllClosed_all'` (no hypotheses), `rpllClosed_all` (index ranges `i < 10`, `a < 11`, `t < 2` only).
Remark (not a vacuity): as `C07region.lean` itself records (l. 123–140), all seven configurations of the crate's own
RPLL tests lie OUTSIDE both regions, so the lock theorems of this file say nothing about them.
-/

/-- the documented-style configuration `dt2 = 8`, period 4000, shifts 16/15 is in both regions, with a non-zero
    edge offset -/
example : ∃ c : RpllCfg, rpllRegionClosed c ∧ rpllRegion c := by
  have h : rpllRegionClosed ⟨8, 4000, 1234, 16, 15⟩ := by unfold rpllRegionClosed rpllCfLo rpllCfHi; decide
  exact ⟨_, h, rpllRegionClosed_sub _ h⟩

/-! ## C10lp2t

Both theorems are followed in `C10lp2t.lean` by examples discharging all hypotheses at `k = 2^24`
(`lp2_level_change_pm2p30_time_partial`: l. 42, step `2^30 → 2^28`, exactly the boundary `|x − xo| = 3·2^28`;
`lp2_level_change_pm2p30_time`: l. 112, the extreme step `−2^30 → 2^30`).  Added: the two ENDS of the documented gain
range.
-/

/-- non-vacuity of `lp2_level_change_pm2p30_time_partial` at the smallest documented gain `k = 2^16`
    (`a = 1`, `b = ⌊2^16·√2⌋ = 92681`), step `5·10^8 → −10^6` from the `set(5·10^8)` state -/
example : ∃ (k a b x xo : Int) (st : Int × Int), Lp2Butter k a b ∧ -1073741824 ≤ x ∧ x ≤ 1073741824 ∧
    -805306368 ≤ x - xo ∧ x - xo ≤ 805306368 ∧ Lp2Start2 a b xo st := by
  have hB : Lp2Butter 65536 1 92681 := by constructor <;> norm_num
  exact ⟨65536, 1, 92681, -1000000, 500000000, _, hB, by norm_num, by norm_num, by norm_num, by norm_num,
    lp2_start2_reset hB 500000000 (by decide)⟩

/-- non-vacuity of `lp2_level_change_pm2p30_time` at the largest documented gain `k = ⌊2^31/√2⌋ = 1518500249`
    (`a = 536870911`, `b = 2147483646`), step `−987654321 → 2^30` -/
example : ∃ (k a b x xo : Int) (st : Int × Int), Lp2Butter k a b ∧ -1073741824 ≤ x ∧ x ≤ 1073741824 ∧
    -1073741824 ≤ xo ∧ xo ≤ 1073741824 ∧ Lp2Start2 a b xo st := by
  have hB : Lp2Butter 1518500249 536870911 2147483646 := by constructor <;> norm_num
  exact ⟨1518500249, 536870911, 2147483646, 1073741824, -987654321, _, hB, by norm_num, by norm_num, by norm_num,
    by norm_num, lp2_start2_reset hB (-987654321) (by decide)⟩

/-! ## C15Fs

The hypotheses of the three main theorems sit INSIDE their conclusions (admissibility of every block, and an index
`i < (…run…).2.flatten.length` into the output).  The examples of `C15Fs.lean` (l. 166–184) instantiate the model, the
admissibility and the input bound, but the concrete end-to-end example (l. 174) is itself stated as
`∀ hi : 0 < ….length, …`: it does not show that the output is non-empty, i.e. that the quantification over the index
is not empty.  `nvD_dec_len` / `nvD_int_len` close this: an admissible run emits `len/2^d` resp. `len·2^d` items per
block.

Skipped: `fhbf_exact_int_cascade_impulse_response` (range facts `1 ≤ d ≤ 4` only), `fhbf_stride_one_eq_sum`
(no hypotheses).
-/

/-- the decimating cascade emits `len/2^d` items per admissible block -/
theorem nvD_dec_len (o : Ops ℝ) (d : ℕ) (hd : d ≤ 4) (bs : List (List ℝ))
    (adm : ∀ b ∈ bs, (fhbfDecCascade o d).Adm b) :
    ((fhbfDecCascade o d).run o bs).2.flatten.length = (bs.map fun b => b.length / 2 ^ d).sum := by
  rw [List.length_flatten, (HbfDecCascade.run_spec o _ (fhbfDecCascade_wf o d hd) bs adm).2.2.2.2.2.2]
  rfl

/-- the interpolating cascade emits `len·2^d` items per admissible block -/
theorem nvD_int_len (o : Ops ℝ) (d : ℕ) (hd : d ≤ 4) (bs : List (List ℝ))
    (adm : ∀ b ∈ bs, (fhbfIntCascade o d).Adm b) :
    ((fhbfIntCascade o d).run o bs).2.flatten.length = (bs.map fun b => b.length * 2 ^ d).sum := by
  rw [List.length_flatten, (HbfIntCascade.run_spec o _ (fhbfIntCascade_wf o d hd) bs adm).2.2.2.2.2.2]
  rfl

/-- two high-rate blocks (8 and 4 samples, mixed signs, full scale `B = 1`) for depth 2 -/
noncomputable def nvD_bsDec : List (List ℝ) := [[1, -1, 1, 1, -1 / 2, 1 / 4, 0, 1], [1 / 3, -1, 1, -1]]

theorem nvD_bsDec_adm (o : Ops ℝ) : ∀ b ∈ nvD_bsDec, (fhbfDecCascade o 2).Adm b := by
  intro b hb
  simp only [nvD_bsDec, List.mem_cons, List.not_mem_nil, or_false] at hb
  rcases hb with rfl | rfl <;> exact fhbfDecCascade_adm _ 2 (by norm_num) _ (by decide) (by decide)

theorem nvD_bsDec_bound : ∀ x ∈ nvD_bsDec.flatten, |x| ≤ 1 := by
  intro x hx
  simp only [nvD_bsDec, List.flatten_cons, List.flatten_nil, List.append_nil, List.cons_append, List.nil_append,
    List.mem_cons, List.not_mem_nil, or_false] at hx
  rcases hx with rfl | rfl | rfl | rfl | rfl | rfl | rfl | rfl | rfl | rfl | rfl | rfl <;> norm_num [abs_le]

/-- two low-rate blocks (3 and 1 samples) for depth 2 -/
noncomputable def nvD_bsInt : List (List ℝ) := [[1, -1 / 2, 1 / 4], [-1]]

theorem nvD_bsInt_adm (o : Ops ℝ) : ∀ b ∈ nvD_bsInt, (fhbfIntCascade o 2).Adm b := by
  intro b hb
  simp only [nvD_bsInt, List.mem_cons, List.not_mem_nil, or_false] at hb
  rcases hb with rfl | rfl <;> exact fhbfIntCascade_adm _ 2 (by norm_num) _ (by decide)

/-- non-vacuity of `fhbf_f32_cascade_meets_published_fir`, decimating half: binary32 round-up model, depth 2, the two
    blocks above, `B = 1`, and the LAST of the three output indices -/
example : ∃ (F : FlModel (1 / 2 ^ 24)) (d : ℕ) (bs : List (List ℝ)) (B : ℝ) (i : ℕ), 1 ≤ d ∧ d ≤ 4 ∧ 0 ≤ B ∧
    (∀ x ∈ bs.flatten, |x| ≤ B) ∧ (∀ b ∈ bs, (fhbfDecCascade F.fhbfOps d).Adm b) ∧
    i < ((fhbfDecCascade F.fhbfOps d).run F.fhbfOps bs).2.flatten.length := by
  refine ⟨nvD_M32, 2, nvD_bsDec, 1, 2, by norm_num, by norm_num, by norm_num, nvD_bsDec_bound, nvD_bsDec_adm _, ?_⟩
  rw [nvD_dec_len _ 2 (by norm_num) _ (nvD_bsDec_adm _)]
  simp [nvD_bsDec]

/-- non-vacuity of `fhbf_f32_cascade_meets_published_fir`, interpolating half: the two low-rate blocks above, output
    index 13 of 16 -/
example : ∃ (F : FlModel (1 / 2 ^ 24)) (d : ℕ) (bs : List (List ℝ)) (B : ℝ) (k : ℕ), 1 ≤ d ∧ d ≤ 4 ∧ 0 ≤ B ∧
    (∀ x ∈ bs.flatten, |x| ≤ B) ∧ (∀ b ∈ bs, (fhbfIntCascade F.fhbfOps d).Adm b) ∧
    k < ((fhbfIntCascade F.fhbfOps d).run F.fhbfOps bs).2.flatten.length := by
  refine ⟨nvD_M32, 2, nvD_bsInt, 1, 13, by norm_num, by norm_num, by norm_num, ?_, nvD_bsInt_adm _, ?_⟩
  · intro x hx
    simp only [nvD_bsInt, List.flatten_cons, List.flatten_nil, List.append_nil, List.cons_append, List.nil_append,
      List.mem_cons, List.not_mem_nil, or_false] at hx
    rcases hx with rfl | rfl | rfl | rfl <;> norm_num [abs_le]
  · rw [nvD_int_len _ 2 (by norm_num) _ (nvD_bsInt_adm _)]
    simp [nvD_bsInt]

/-- non-vacuity of `fhbf_exact_cascade_is_published_fir`, decimating half (exact real operations) -/
example : ∃ (d : ℕ) (bs : List (List ℝ)) (i : ℕ), d ≤ 4 ∧ (∀ b ∈ bs, (fhbfDecCascade fhbfExactOps d).Adm b) ∧
    i < ((fhbfDecCascade fhbfExactOps d).run fhbfExactOps bs).2.flatten.length := by
  refine ⟨2, nvD_bsDec, 2, by norm_num, nvD_bsDec_adm _, ?_⟩
  rw [nvD_dec_len _ 2 (by norm_num) _ (nvD_bsDec_adm _)]
  simp [nvD_bsDec]

/-- non-vacuity of `fhbf_exact_cascade_is_published_fir`, interpolating half -/
example : ∃ (d : ℕ) (bs : List (List ℝ)) (k : ℕ), d ≤ 4 ∧ (∀ b ∈ bs, (fhbfIntCascade fhbfExactOps d).Adm b) ∧
    k < ((fhbfIntCascade fhbfExactOps d).run fhbfExactOps bs).2.flatten.length := by
  refine ⟨2, nvD_bsInt, 13, by norm_num, nvD_bsInt_adm _, ?_⟩
  rw [nvD_int_len _ 2 (by norm_num) _ (nvD_bsInt_adm _)]
  simp [nvD_bsInt]

/-- non-vacuity of `fhbf_cascade_cast`, decimating half: depth 3, two non-empty rational blocks (8 and 16 items) -/
example : ∃ (d : ℕ) (bs : List (List ℚ)), d ≤ 4 ∧ bs ≠ [] ∧ (∀ b ∈ bs, b ≠ []) ∧
    (∀ b ∈ bs, (hbfDecCascadeQ d).Adm b) := by
  refine ⟨3, [[1, -1, 1 / 3, 0, 0, 2, -5, 1], List.replicate 16 (1 / 7)], by norm_num, by simp, ?_, ?_⟩
  · intro b hb; simp at hb; rcases hb with rfl | rfl <;> simp
  · intro b hb
    simp only [List.mem_cons, List.not_mem_nil, or_false] at hb
    rcases hb with rfl | rfl <;> exact hbfDecCascadeQ_adm 3 (by norm_num) _ (by decide) (by decide)

/-- non-vacuity of `fhbf_cascade_cast`, interpolating half: depth 3, two non-empty rational blocks -/
example : ∃ (d : ℕ) (bs : List (List ℚ)), d ≤ 4 ∧ bs ≠ [] ∧ (∀ b ∈ bs, b ≠ []) ∧
    (∀ b ∈ bs, (hbfIntCascadeQ d).Adm b) := by
  refine ⟨3, [[1, -1, 1 / 3], [2 / 5]], by norm_num, by simp, ?_, ?_⟩
  · intro b hb; simp at hb; rcases hb with rfl | rfl <;> simp
  · intro b hb
    simp only [List.mem_cons, List.not_mem_nil, or_false] at hb
    rcases hb with rfl | rfl <;> exact hbfIntCascadeQ_adm 3 (by norm_num) _ (by decide)

/-!
## Suspected vacuous or only degenerately satisfiable

None found in the nine files: every hypothesis set above has a non-degenerate witness.  Weak spots that are NOT
vacuities but limit what the theorems say:

* `C03F` §3 (`fproportional_returns`, first part of `fspecial_df2t`): the hypothesis `X.rep (X.fmul c.b0 x0)` ("the
  rounded product is a finite float") is automatic for IEEE arithmetic, but in the instances provided by the
  development (`FlModelX.exact`, `FlModelX.roundOutside`) it holds only where the product is exact, unless the set of
  representable numbers is chosen to contain the rounded value — which is what `nvD_S` does.  With the instances used in
  `C03F.lean` itself the hypothesis set is satisfied only by exact products.
* `C15Fs`: the end-to-end example of the file (l. 174) is stated under `∀ hi : 0 < ….length`, so it does not by itself
  exclude an empty output; `nvD_dec_len`, `nvD_int_len` and the examples above do.
* `C07region`: both regions exclude all seven configurations of the crate's own RPLL tests (recorded in the file).
* `FlModel u` quantifies the relative-error law over ALL reals (no overflow, no underflow): it is satisfiable
  (round-up / round-outside models) but is the idealised unbounded-exponent format, not binary32 itself; `FlModelU`
  (Higham (2.8)) removes the no-underflow idealisation, the no-overflow one remains.
-/

end Idsp
