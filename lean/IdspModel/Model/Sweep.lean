import IdspModel.Rust
/-! Model of `Sweep::next` (`src/sweptsine.rs`). Returns (new state, item). -/
namespace Idsp

def sweepNext (m : Mode) (rate state : Int) : R (Int × Int) := do
  let b ← arithI m 64 "sweptsine.rs:29 s + BIAS" (state + 2 ^ 31)
  let p ← arithI m 64 "sweptsine.rs:29 rate as i64 * (..)" (rate * shr b 32)
  let t := state + p
  .ok (if inI 64 t then t else 0, state)

end Idsp
