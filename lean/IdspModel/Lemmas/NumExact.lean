import Mathlib.Tactic.Ring
/-!
  Exact-arithmetic (commutative ring, abstract clamp) recurrences of the two biquad state forms.
  These are statements about the *ideal* recurrences (no quantisation of products), NOT about the fixed-point
  `biquadUpdate2`, which rounds every product separately.
-/
namespace Idsp

/-- coefficients and offset of the exact-arithmetic recurrences -/
structure ExactCfg (R : Type) where
  b0 : R
  b1 : R
  b2 : R
  a1 : R
  a2 : R
  u : R

variable {R : Type} [CommRing R]

/-- exact DF1 step, state `(x1, x2, y1, y2)` -/
def df1Step (clipR : R → R) (k : ExactCfg R) (st : R × R × R × R) (x0 : R) : (R × R × R × R) × R :=
  let y0 := clipR (k.b0 * x0 + k.b1 * st.1 + k.b2 * st.2.1 - k.a1 * st.2.2.1 - k.a2 * st.2.2.2 + k.u)
  ((x0, st.1, y0, st.2.2.1), y0)

/-- exact DF2T step, state `(s0, s1)`; the offset enters through the second state word as in the code -/
def df2tStep (clipR : R → R) (k : ExactCfg R) (st : R × R) (x0 : R) : (R × R) × R :=
  let y0 := clipR (st.1 + k.b0 * x0)
  ((st.2 + k.b1 * x0 - k.a1 * y0, k.u + k.b2 * x0 - k.a2 * y0), y0)

/-- folding a total step function over an input list, collecting the outputs -/
def runP {σ : Type} (step : σ → R → σ × R) : σ → List R → σ × List R
  | st, [] => (st, [])
  | st, x :: xs => ((runP step (step st x).1 xs).1, (step st x).2 :: (runP step (step st x).1 xs).2)

omit [CommRing R] in
theorem runP_append {σ : Type} (step : σ → R → σ × R) (st : σ) (xs zs : List R) :
    runP step st (xs ++ zs) =
      ((runP step (runP step st xs).1 zs).1, (runP step st xs).2 ++ (runP step (runP step st xs).1 zs).2) := by
  induction xs generalizing st with
  | nil => simp [runP]
  | cons x xs ih => simp [runP, ih]

/-- the DF2T state that corresponds to a DF1 state (the doc comment of `update`, plus the offset) -/
def df2tOfDf1 (k : ExactCfg R) (st : R × R × R × R) : R × R :=
  (k.b1 * st.1 + k.b2 * st.2.1 - k.a1 * st.2.2.1 - k.a2 * st.2.2.2 + k.u, k.b2 * st.1 - k.a2 * st.2.2.1 + k.u)

theorem df2t_step_of_df1 (clipR : R → R) (k : ExactCfg R) (st : R × R × R × R) (x0 : R) :
    (df2tStep clipR k (df2tOfDf1 k st) x0).2 = (df1Step clipR k st x0).2 ∧
    (df2tStep clipR k (df2tOfDf1 k st) x0).1 = df2tOfDf1 k (df1Step clipR k st x0).1 := by
  have h : (df2tOfDf1 k st).1 + k.b0 * x0 =
      k.b0 * x0 + k.b1 * st.1 + k.b2 * st.2.1 - k.a1 * st.2.2.1 - k.a2 * st.2.2.2 + k.u := by
    simp only [df2tOfDf1]; ring
  constructor
  · simp only [df2tStep, df1Step, h]
  · simp only [df2tStep, df1Step, h]
    simp only [df2tOfDf1]
    refine Prod.ext ?_ ?_ <;> simp only <;> ring

end Idsp
