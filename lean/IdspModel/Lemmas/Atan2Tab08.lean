import IdspModel.Lemmas.Atan2Tab
/-! `atani` table, chunk 8 of 10: quotient fields 65536 … 73728 (complete range, evaluated by the kernel). -/
namespace Idsp

theorem atanTab8 : atanRun 65536 8193 = true := by decide +kernel

end Idsp
