import IdspModel.Lemmas.HbfSpecMain
/-! Tightness of the certified constants: exact values of the cascade gain at `f = 0` (DC) and of the single stage at
    `f = 1` (half the high rate), where all cosines are `±1`. -/
namespace Idsp
namespace HbfSpec
open Real

theorem cosSum_zero (ts : List (ℕ × ℕ)) (k : ℕ) :
    cosSum ts k 0 = (ts.map fun t => ((t.1 : ℝ) - t.2)).sum := by
  induction ts generalizing k with
  | nil => simp [cosSum]
  | cons t ts ih => simp [cosSum, ih]

theorem cosSum_pi (ts : List (ℕ × ℕ)) (k : ℕ) (hk : Odd k) :
    cosSum ts k π = -(ts.map fun t => ((t.1 : ℝ) - t.2)).sum := by
  induction ts generalizing k with
  | nil => simp [cosSum]
  | cons t ts ih =>
    have hk2 : Odd (k + 2) := by
      obtain ⟨m, rfl⟩ := hk
      exact ⟨m + 1, by ring⟩
    simp only [cosSum, ih (k + 2) hk2, cos_nat_mul_pi, hk.neg_one_pow, List.map_cons, List.sum_cons]
    ring

/-- DC gain of the depth-3 cascade exceeds unity by more than `2.06e-7` (`1.78e-6 dB`): the certified pass-band
    bound `2.3e-7` (`2e-6 dB`) cannot be lowered below that. -/
theorem gain3_dc_gt : 1 + 206 / 10 ^ 9 < hbfCascadeGain 3 0 := by
  rw [gain_eq_cascAmp 3 (by norm_num) (by norm_num)]
  simp only [hbfStages, cascAmp, ampN, mul_zero, zero_div, cosSum_zero]
  simp [sp, hbfTapsN0, hbfTapsN1, hbfTapsN2, hbfTapsE0, hbfTapsE1, hbfTapsE2]
  norm_num

/-- at `f = 1` (the middle of the single stage's stop band) the depth-1 gain is below `-8.7e-8` (`-141.21 dB`): the
    certified stop-band bound `1e-7` (`-140 dB`) cannot be lowered below that. -/
theorem gain1_one_lt : hbfCascadeGain 1 1 < -(87 / 10 ^ 9) := by
  rw [gain_eq_cascAmp 1 (by norm_num) (by norm_num)]
  have e : π * 1 / 2 ^ (1 - 1) = π := by norm_num
  rw [e]
  simp only [hbfStages, cascAmp, ampN, cosSum_pi _ 1 (by decide)]
  simp [sp, hbfTapsN0, hbfTapsE0]
  norm_num

end HbfSpec
end Idsp
