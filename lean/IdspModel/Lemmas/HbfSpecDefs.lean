import IdspModel.Lemmas.HbfSpecTaps
import IdspModel.Lemmas.HbfConv
import Mathlib.Analysis.SpecialFunctions.Trigonometric.Basic
/-!
Definitions for the published-spec clause of C15 (the cascades built from `HBF_TAPS`):

* `hbfCascadeFir d` — the overall high-rate impulse response of the depth-`d` cascade over `ℚ`: the polynomial
  product of the stage FIRs `hbfFir (hbfTapsQ j)` (`Lemmas/HbfConv.lean`), stage `j` upsampled by `2^(d-1-j)`
  (stage 0 runs at the lowest rate).  This is the response of the interpolating cascade to a unit impulse; the
  decimating cascade has the same response divided by `2^d` (one `half` per stage).
* `hbfAmp taps θ` — zero-phase amplitude response `1 + 2·Σ_l t_l·cos((2(M-1-l)+1)·θ)` of one stage FIR
  (centre tap 1, `θ` = angular frequency at the stage's high rate).
* `hbfCascadeGain d f` — amplitude response of the depth-`d` cascade normalised to unity (each stage halved), as a
  function of the frequency `f` in units of the LOW sample rate: stage `j` runs at `2^(j+1)` times the low rate and
  therefore sees the angle `2π·f/2^(j+1) = π·f/2^j`.  `f` ranges over `[0, 2^(d-1)]` (high-rate Nyquist).
-/
namespace Idsp
open Finset

/-- sum of two coefficient lists (the shorter one is zero-extended) -/
def laddQ : List ℚ → List ℚ → List ℚ
  | [], q => q
  | p, [] => p
  | a :: p, b :: q => (a + b) :: laddQ p q

/-- polynomial product of two coefficient lists (`[]` is the zero polynomial): `(a₀ + z·as)·b = a₀·b + z·(as·b)` -/
def hbfSpecLconv : List ℚ → List ℚ → List ℚ
  | [], _ => []
  | a :: as, b => laddQ (b.map (a * ·)) (0 :: hbfSpecLconv as b)

/-- insert `k-1` zeros after every item except the last (`p(z) ↦ p(z^k)`) -/
def lupsample (k : ℕ) : List ℚ → List ℚ
  | [] => []
  | [a] => [a]
  | a :: as => a :: (List.replicate (k - 1) 0 ++ lupsample k as)

/-- overall impulse response (at the high rate) of the depth-`d` interpolating cascade built from `HBF_TAPS` -/
def hbfCascadeFir (d : ℕ) : List ℚ :=
  (List.range d).foldl (fun acc j => hbfSpecLconv acc (lupsample (2 ^ (d - 1 - j)) (hbfFir (hbfTapsQ j)))) [1]

/-- zero-phase amplitude response of the half-band FIR `hbfFir taps` at angular frequency `θ` -/
noncomputable def hbfAmp (taps : List ℚ) (θ : ℝ) : ℝ :=
  1 + 2 * ∑ l ∈ range taps.length, (taps.getD l 0 : ℝ) * Real.cos (((2 * (taps.length - 1 - l) + 1 : ℕ) : ℝ) * θ)

/-- unity-normalised amplitude response of the depth-`d` cascade at frequency `f` (units of the low sample rate) -/
noncomputable def hbfCascadeGain (d : ℕ) (f : ℝ) : ℝ :=
  ∏ j ∈ range d, hbfAmp (hbfTapsQ j) (Real.pi * f / 2 ^ j) / 2

end Idsp
