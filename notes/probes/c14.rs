use idsp::hbf::*;
use idsp::Cic;
fn lcg(s: &mut u64) -> u64 { *s = s.wrapping_mul(6364136223846793005).wrapping_add(1442695040888963407); *s >> 11 }
fn parts(s: &mut u64, total: usize, gran: usize, max: usize) -> Vec<usize> {
    let mut v = vec![]; let mut left = total;
    while left > 0 { let m = (left.min(max)) / gran; let c = match lcg(s) % 5 { 0 => 0, 1 => 1.min(m), 2 => m, _ => (lcg(s) as usize) % (m + 1) }; v.push(c * gran); left -= c * gran; if v.len() > 100000 { break; } }
    v
}
fn main() {
    let mut s = 3u64; let mut bad = 0;
    for depth in 0..=4usize { for trial in 0..40 {
        let total = (1usize << depth) * (50 + (lcg(&mut s) % 300) as usize);
        let x: Vec<f32> = (0..total).map(|_| (lcg(&mut s) % 2000000) as f32 / 1e6 - 1.0).collect();
        // decimator cascade: one-shot in max blocks vs random partition
        let run_dec = |p: &Vec<usize>| { let mut h = HbfDecCascade::default(); h.set_depth(depth); let mut out = vec![]; let mut i = 0; for &n in p { let mut b = x[i..i + n].to_vec(); let y = h.process_block(None, &mut b); out.extend_from_slice(y); i += n; } out };
        let (g, m) = { let mut h = HbfDecCascade::default(); h.set_depth(depth); h.block_size() };
        let m = m.min(1 << 12);
        let p0: Vec<usize> = { let mut v = vec![]; let mut l = total; while l > 0 { let n = l.min(m) / g * g; v.push(n); l -= n; } v };
        let r0 = run_dec(&p0); let p1 = parts(&mut s, total, g, m); let r1 = run_dec(&p1);
        if r0.iter().map(|v| v.to_bits()).ne(r1.iter().map(|v| v.to_bits())) || r0.len() != total >> depth { bad += 1; println!("DEC mismatch depth {} trial {}", depth, trial); }
        // interpolator cascade
        let run_int = |p: &Vec<usize>| { let mut h = HbfIntCascade::default(); h.set_depth(depth); let mut out = vec![]; let mut i = 0; for &n in p { let mut b = vec![0f32; n << depth]; b[..n].copy_from_slice(&x[i..i + n]); let y = h.process_block(None, &mut b); out.extend_from_slice(y); i += n; } out };
        let tin = total >> depth; let mi = (m >> depth).max(1);
        let q0: Vec<usize> = { let mut v = vec![]; let mut l = tin; while l > 0 { let n = l.min(mi); v.push(n); l -= n; } v };
        let q1 = parts(&mut s, tin, 1, mi);
        let i0 = run_int(&q0); let i1 = run_int(&q1);
        if i0.iter().map(|v| v.to_bits()).ne(i1.iter().map(|v| v.to_bits())) || i0.len() != tin << depth { bad += 1; println!("INT mismatch depth {} trial {}", depth, trial); }
    }}
    // single stages: in-place vs separate
    {
        const M: usize = 3; let taps = HBF_TAPS.4; let mut a = HbfDec::<f32, M, { 2 * M - 1 + 16 }>::new(&taps); let mut b = HbfDec::<f32, M, { 2 * M - 1 + 16 }>::new(&taps);
        for _ in 0..200 { let n = 2 * (lcg(&mut s) % 17) as usize; let x: Vec<f32> = (0..n).map(|_| (lcg(&mut s) % 1000) as f32 / 500.0 - 1.0).collect(); let mut y1 = x.clone(); let r1 = a.process_block(None, &mut y1).to_vec(); let mut y2 = vec![0f32; n]; let r2 = b.process_block(Some(&x), &mut y2).to_vec(); if r1 != r2 { bad += 1; println!("inplace mismatch"); } }
        let mut a = HbfInt::<f32, M, { 2 * M - 1 + 16 }>::new(&taps); let mut b = HbfInt::<f32, M, { 2 * M - 1 + 16 }>::new(&taps);
        for _ in 0..200 { let n = (lcg(&mut s) % 17) as usize; let x: Vec<f32> = (0..n).map(|_| (lcg(&mut s) % 1000) as f32 / 500.0 - 1.0).collect(); let mut y1 = vec![0f32; 2 * n]; y1[..n].copy_from_slice(&x); let r1 = a.process_block(None, &mut y1).to_vec(); let mut y2 = vec![0f32; 2 * n]; let r2 = b.process_block(Some(&x), &mut y2).to_vec(); if r1 != r2 { bad += 1; println!("int inplace mismatch"); } }
    }
    // CIC decimator vs FIR mod 2^32 (i32), interpolator vs FIR (i64)
    fn boxn(r: usize, n: usize) -> Vec<i128> { let mut h = vec![1i128]; for _ in 0..n { let mut g = vec![0i128; h.len() + r - 1]; for (i, a) in h.iter().enumerate() { for j in 0..r { g[i + j] += a; } } h = g; } h }
    macro_rules! cic_n { ($n:expr) => { for rate in 0..12u32 { let r = rate as usize + 1; let h = boxn(r, $n);
        let mut d = Cic::<i32, $n>::new(rate); let xs: Vec<i32> = (0..200).map(|_| lcg(&mut s) as i32).collect(); let mut outs = vec![];
        for (t, &x) in xs.iter().enumerate() { let tick = d.tick(); let o = d.decimate(x); if o.is_some() != (t % r == 0) || tick != o.is_some() { bad += 1; println!("cic dec timing"); } if let Some(y) = o { outs.push((t, y)); } }
        for (t, y) in outs { let mut acc = 0i128; for (k, hk) in h.iter().enumerate() { if t >= k { acc += hk * xs[t - k] as i128; } } if acc as i32 != y { bad += 1; println!("cic dec value N={} R={} t={}", $n, r, t); break; } }
        let mut it = Cic::<i64, $n>::new(rate); let lo: Vec<i64> = (0..40).map(|_| (lcg(&mut s) % 2001) as i64 - 1000).collect(); let mut hi = vec![]; let mut z = vec![]; let mut li = 0;
        for _ in 0..lo.len() * r { let tk = it.tick(); let y = if tk { let v = lo[li]; li += 1; it.interpolate(Some(v)) } else { it.interpolate(None) }; z.push(lo[li - 1]); hi.push(y); if y != it.get_interpolate() { bad += 1; } }
        for t in 0..hi.len() { let mut acc = 0i128; for (k, hk) in h.iter().enumerate() { if t >= k { acc += hk * z[t - k] as i128; } } if acc as i64 != hi[t] { bad += 1; println!("cic int value N={} R={} t={} got {} want {}", $n, r, t, hi[t], acc); break; } }
    } } }
    cic_n!(0); cic_n!(1); cic_n!(2); cic_n!(3); cic_n!(4); cic_n!(5);
    println!("bad {}", bad);
}
