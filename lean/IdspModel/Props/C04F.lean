import IdspModel.Model.BiquadF
/-!
# C04 (floating point sample types) — limits and no wind-up for `Biquad<f32/f64>`

`Model/BiquadF.lean` models the float `Coefficient` impls over an abstract carrier with uninterpreted
`add sub mul max min`; it is tied bit-exactly to the crate with Lean's `Float32` / `Float` (op family `fbiquad`,
including infinite and NaN samples).  The theorems below need only three facts about `max` / `min`, which hold for
IEEE maxNum/minNum with non-NaN limits (Rust's `f32::max`/`min` ignore a NaN operand) and for every linear order.
No algebraic law of `+`/`*` is used, so rounding is irrelevant.
-/
namespace Idsp

variable {α : Type}

/-- what the clamp needs from `max` / `min`: `ok` = "is not NaN", `le` = `≤` -/
structure ClampLaws (o : BOps α) (le : α → α → Prop) (ok : α → Prop) : Prop where
  /-- `a.max(b) ≥ b` and is a number, even when `a` is NaN -/
  max_ge : ∀ a b, ok b → le b (o.max a b) ∧ ok (o.max a b)
  /-- `a.min(b) ≤ b` and is a number, even when `a` is NaN -/
  min_le : ∀ a b, ok b → le (o.min a b) b ∧ ok (o.min a b)
  /-- `min` of two numbers above `c` is above `c` -/
  min_ge : ∀ a b c, ok a → ok b → le c a → le c b → le c (o.min a b)

variable {o : BOps α} {le : α → α → Prop} {ok : α → Prop}

/-- the clamp puts EVERY value (NaN and ±∞ included) inside non-NaN limits `mn ≤ mx` -/
theorem fclip_in_limits (L : ClampLaws o le ok) (x mn mx : α) (hmn : ok mn) (hmx : ok mx) (h : le mn mx) :
    le mn (fclip o x mn mx) ∧ le (fclip o x mn mx) mx ∧ ok (fclip o x mn mx) := by
  unfold fclip
  obtain ⟨h1, h2⟩ := L.max_ge x mn hmn
  obtain ⟨h3, h4⟩ := L.min_le (o.max x mn) mx hmx
  exact ⟨L.min_ge _ _ _ h2 hmx h1 h, h3, h4⟩

/-- **limits, all three state forms**: every output of a float Biquad lies within `[min, max]`, for every state and
    sample (finite or not) and every coefficient set -/
theorem fbiquad_in_limits (L : ClampLaws o le ok) (c : FBiquadCfg α) (hmn : ok c.mn) (hmx : ok c.mx)
    (h : le c.mn c.mx) (x0 : α) :
    (∀ xy, le c.mn (fbiquadUpdate4 o c xy x0).2 ∧ le (fbiquadUpdate4 o c xy x0).2 c.mx) ∧
    (∀ xy, le c.mn (fbiquadUpdate5 o c xy x0).2 ∧ le (fbiquadUpdate5 o c xy x0).2 c.mx) ∧
    (∀ st, le c.mn (fbiquadUpdate2 o c st x0).2 ∧ le (fbiquadUpdate2 o c st x0).2 c.mx) := by
  refine ⟨?_, ?_, ?_⟩
  · rintro ⟨x1, x2, y1, y2⟩
    have := fclip_in_limits L (o.add c.u (fbiquadSum o c x0 x1 x2 y1 y2)) c.mn c.mx hmn hmx h
    exact ⟨this.1, this.2.1⟩
  · rintro ⟨x1, x2, y1, y2, e⟩
    have := fclip_in_limits L (o.add c.u (fbiquadSum o c x0 x1 x2 y1 y2)) c.mn c.mx hmn hmx h
    exact ⟨this.1, this.2.1⟩
  · rintro ⟨s0, s1⟩
    have := fclip_in_limits L (o.add s0 (o.mul c.b0 x0)) c.mn c.mx hmn hmx h
    exact ⟨this.1, this.2.1⟩

/-- run of the N = 4 form over an input list -/
def fbiquadRun4 (o : BOps α) (c : FBiquadCfg α) : α × α × α × α → List α → (α × α × α × α) × List α
  | st, [] => (st, [])
  | st, x :: xs =>
    let (st', y) := fbiquadUpdate4 o c st x
    let (sf, ys) := fbiquadRun4 o c st' xs
    (sf, y :: ys)

/-- every output of every run is within the limits -/
theorem fbiquad_run_in_limits (L : ClampLaws o le ok) (c : FBiquadCfg α) (hmn : ok c.mn) (hmx : ok c.mx)
    (h : le c.mn c.mx) (st : α × α × α × α) (xs : List α) :
    ∀ y ∈ (fbiquadRun4 o c st xs).2, le c.mn y ∧ le y c.mx := by
  induction xs generalizing st with
  | nil => intro y hy; cases hy
  | cons x xs ih =>
    intro y hy
    simp only [fbiquadRun4, List.mem_cons] at hy
    rcases hy with rfl | hy
    · exact (fbiquad_in_limits L c hmn hmx h x).1 st
    · exact ih _ y hy

/-- the N = 4 state after an update is `(x0, x1, y0, y1)`: only the clamped output is fed back -/
theorem fbiquad4_state (o : BOps α) (c : FBiquadCfg α) (x1 x2 y1 y2 x0 : α) :
    (fbiquadUpdate4 o c (x1, x2, y1, y2) x0).1 = (x0, x1, (fbiquadUpdate4 o c (x1, x2, y1, y2) x0).2, y1) := rfl

/-- **no wind-up, N = 4, floats**: if under a constant input `x` two consecutive outputs equal `lim`, the state is
    `(x, x, lim, lim)` whatever the state was before — so it does not depend on how long the saturation lasted, and
    every continuation is bit-identical -/
theorem fbiquad4_no_windup (o : BOps α) (c : FBiquadCfg α) (st : α × α × α × α) (x lim : α)
    (h1 : (fbiquadUpdate4 o c st x).2 = lim)
    (h2 : (fbiquadUpdate4 o c (fbiquadUpdate4 o c st x).1 x).2 = lim) :
    (fbiquadUpdate4 o c (fbiquadUpdate4 o c st x).1 x).1 = (x, x, lim, lim) := by
  obtain ⟨x1, x2, y1, y2⟩ := st
  have e1 : (fbiquadUpdate4 o c (x1, x2, y1, y2) x).1 = (x, x1, lim, y1) := by rw [fbiquad4_state, h1]
  rw [e1] at h2 ⊢
  rw [fbiquad4_state, h2]

/-- **no wind-up, N = 2, floats**: the DF2T state after an update is a function of the previous second state word,
    the sample and the (clamped) output only -/
theorem fbiquad2_state (o : BOps α) (c : FBiquadCfg α) (s0 s1 x0 : α) :
    (fbiquadUpdate2 o c (s0, s1) x0).1 =
      (o.sub (o.add s1 (o.mul c.b1 x0)) (o.mul c.a1 (fbiquadUpdate2 o c (s0, s1) x0).2),
       o.sub (o.add c.u (o.mul c.b2 x0)) (o.mul c.a2 (fbiquadUpdate2 o c (s0, s1) x0).2)) := rfl

/-- two DF2T states that agree on the second word and produce the same clamped output for the same sample are
    mapped to the same state: after two saturated samples under constant input the state is independent of the
    saturation length -/
theorem fbiquad2_no_windup (o : BOps α) (c : FBiquadCfg α) (s0 s0' s1 x0 : α)
    (h : (fbiquadUpdate2 o c (s0, s1) x0).2 = (fbiquadUpdate2 o c (s0', s1) x0).2) :
    (fbiquadUpdate2 o c (s0, s1) x0).1 = (fbiquadUpdate2 o c (s0', s1) x0).1 := by
  rw [fbiquad2_state, fbiquad2_state, h]

/-- non-vacuity: the laws hold for `Int` with the usual `max`/`min` (every value "ok") -/
example : ClampLaws (α := Int) ⟨0, (· + ·), (· - ·), (· * ·), max, min⟩ (· ≤ ·) (fun _ => True) :=
  ⟨fun a b _ => ⟨by simp only; omega, trivial⟩, fun a b _ => ⟨by simp only; omega, trivial⟩,
   fun a b c _ _ h1 h2 => by simp only; omega⟩

end Idsp
