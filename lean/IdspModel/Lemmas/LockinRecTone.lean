import IdspModel.Lemmas.LockinRecGain
import Mathlib.Analysis.SpecialFunctions.Trigonometric.Basic
import Mathlib.Analysis.Real.Pi.Bounds
import Mathlib.Algebra.Field.GeomSum
/-!
# Lock-in recovery: exact steady-state response of the linear part to a tone, and its window sums

For `z = e^{jΩ}` the linear recursion `S' = (1−2α)S + (2−2β)T + 2α·c`, `T' = −2αS + (1−2β)T + 2α·c` driven by
`c_n = Re(w0·z^n)` has the particular solution `S_n = Re(V0·w0·z^n)`, `T_n = Re(V1·w0·z^n)` with
`V0 = 2α(z+1)/χ(z)`, `V1 = 2α(z−1)/χ(z)`, `χ(z) = (z−1)² + 2(α+β)(z−1) + 4α` (the characteristic polynomial).
If `|z − 1| ≥ 0.6` (tone frequency between 0.1 and 0.9 of the sample rate) then `|χ(z)| ≥ 0.34`, so the tone is
attenuated to at most `12·α` of its amplitude, and the SUM of the tone response over any window of consecutive
samples is at most `40·α` times the amplitude (geometric sum of a rotating phasor).
-/
namespace Idsp
open Complex

noncomputable def lkChi (α β : ℝ) (z : ℂ) : ℂ := (z - 1) ^ 2 + 2 * ((α : ℂ) + β) * (z - 1) + 4 * α
noncomputable def lkV0 (α β : ℝ) (z : ℂ) : ℂ := 2 * α * (z + 1) / lkChi α β z
noncomputable def lkV1 (α β : ℝ) (z : ℂ) : ℂ := 2 * α * (z - 1) / lkChi α β z

theorem lkV_eqs (α β : ℝ) (z : ℂ) (hχ : lkChi α β z ≠ 0) :
    z * lkV0 α β z = (1 - 2 * α) * lkV0 α β z + (2 - 2 * β) * lkV1 α β z + 2 * α ∧
    z * lkV1 α β z = -(2 * α) * lkV0 α β z + (1 - 2 * β) * lkV1 α β z + 2 * α := by
  unfold lkV0 lkV1
  constructor
  · field_simp
    unfold lkChi; ring
  · field_simp
    unfold lkChi; ring

/-- lower bound of the characteristic polynomial on the part of the unit circle away from `1` -/
theorem lkChi_norm_ge {α β : ℝ} (h : LkGain α β) (z : ℂ) (hz1 : 0.6 ≤ ‖z - 1‖) :
    0.34 ≤ ‖lkChi α β z‖ := by
  have h1 := h.hα; have h2 := h.hα1; have h3 := h.hβ0; have h4 := h.hβ1
  set r := ‖z - 1‖ with hr
  have e1 : ‖(z - 1) ^ 2‖ = r ^ 2 := by rw [norm_pow]
  have e2 : ‖2 * ((α : ℂ) + β) * (z - 1)‖ = 2 * (α + β) * r := by
    rw [norm_mul, norm_mul, ← ofReal_add, norm_real, Real.norm_eq_abs, abs_of_pos (by linarith)]
    simp [hr]
  have e3 : ‖(4 : ℂ) * α‖ = 4 * α := by
    rw [norm_mul, norm_real, Real.norm_eq_abs, abs_of_pos h1]; simp
  have t1 : ‖(z - 1) ^ 2‖ ≤ ‖lkChi α β z‖ + ‖2 * ((α : ℂ) + β) * (z - 1)‖ + ‖(4 : ℂ) * α‖ := by
    have : (z - 1) ^ 2 = lkChi α β z - 2 * ((α : ℂ) + β) * (z - 1) - 4 * α := by unfold lkChi; ring
    calc ‖(z - 1) ^ 2‖ = ‖lkChi α β z - 2 * ((α : ℂ) + β) * (z - 1) - 4 * α‖ := by rw [← this]
      _ ≤ ‖lkChi α β z - 2 * ((α : ℂ) + β) * (z - 1)‖ + ‖(4 : ℂ) * α‖ := norm_sub_le _ _
      _ ≤ ‖lkChi α β z‖ + ‖2 * ((α : ℂ) + β) * (z - 1)‖ + ‖(4 : ℂ) * α‖ := by
        have := norm_sub_le (lkChi α β z) (2 * ((α : ℂ) + β) * (z - 1)); linarith
  rw [e1, e2, e3] at t1
  -- r² − 2(α+β) r − 4α ≥ 0.34 for r ≥ 0.6
  have hab : α + β ≤ 0.0112 := by linarith
  have : r * (r - 2 * (α + β)) ≥ 0.6 * (0.6 - 2 * (α + β)) := by nlinarith
  nlinarith

theorem lkChi_ne {α β : ℝ} (h : LkGain α β) (z : ℂ) (hz1 : 0.6 ≤ ‖z - 1‖) : lkChi α β z ≠ 0 := by
  intro h0
  have := lkChi_norm_ge h z hz1
  rw [h0, norm_zero] at this
  norm_num at this

theorem lkV0_norm_le {α β : ℝ} (h : LkGain α β) (z : ℂ) (hz : ‖z‖ = 1) (hz1 : 0.6 ≤ ‖z - 1‖) :
    ‖lkV0 α β z‖ ≤ 12 * α := by
  have h1 := h.hα
  have hc := lkChi_norm_ge h z hz1
  unfold lkV0
  rw [norm_div, norm_mul, norm_mul, norm_real, Real.norm_eq_abs, abs_of_pos h1]
  have : ‖z + 1‖ ≤ 2 := by
    calc ‖z + 1‖ ≤ ‖z‖ + ‖(1 : ℂ)‖ := norm_add_le _ _
      _ = 2 := by rw [hz]; norm_num
  rw [div_le_iff₀ (by linarith)]
  have e : ‖(2 : ℂ)‖ = 2 := by norm_num
  rw [e]
  nlinarith [norm_nonneg (z + 1)]

theorem lkV1_norm_le {α β : ℝ} (h : LkGain α β) (z : ℂ) (hz : ‖z‖ = 1) (hz1 : 0.6 ≤ ‖z - 1‖) :
    ‖lkV1 α β z‖ ≤ 12 * α := by
  have h1 := h.hα
  have hc := lkChi_norm_ge h z hz1
  unfold lkV1
  rw [norm_div, norm_mul, norm_mul, norm_real, Real.norm_eq_abs, abs_of_pos h1]
  have : ‖z - 1‖ ≤ 2 := by
    calc ‖z - 1‖ ≤ ‖z‖ + ‖(1 : ℂ)‖ := norm_sub_le _ _
      _ = 2 := by rw [hz]; norm_num
  rw [div_le_iff₀ (by linarith)]
  have e : ‖(2 : ℂ)‖ = 2 := by norm_num
  rw [e]
  nlinarith [norm_nonneg (z - 1)]

/-- the tone input and the two components of the particular solution -/
noncomputable def lkTc (z w0 : ℂ) (n : ℕ) : ℝ := (w0 * z ^ n).re
noncomputable def lkTS (α β : ℝ) (z w0 : ℂ) (n : ℕ) : ℝ := (lkV0 α β z * (w0 * z ^ n)).re
noncomputable def lkTT (α β : ℝ) (z w0 : ℂ) (n : ℕ) : ℝ := (lkV1 α β z * (w0 * z ^ n)).re

theorem lkT_rec (α β : ℝ) (z w0 : ℂ) (hχ : lkChi α β z ≠ 0) (n : ℕ) :
    lkTS α β z w0 (n + 1) = (1 - 2 * α) * lkTS α β z w0 n + (2 - 2 * β) * lkTT α β z w0 n + 2 * α * lkTc z w0 n ∧
    lkTT α β z w0 (n + 1) = -(2 * α) * lkTS α β z w0 n + (1 - 2 * β) * lkTT α β z w0 n + 2 * α * lkTc z w0 n := by
  obtain ⟨e0, e1⟩ := lkV_eqs α β z hχ
  unfold lkTS lkTT lkTc
  constructor
  · have : lkV0 α β z * (w0 * z ^ (n + 1))
        = ((1 - 2 * α : ℝ) : ℂ) * (lkV0 α β z * (w0 * z ^ n)) + ((2 - 2 * β : ℝ) : ℂ) * (lkV1 α β z * (w0 * z ^ n))
          + ((2 * α : ℝ) : ℂ) * (w0 * z ^ n) := by
      rw [pow_succ]
      calc lkV0 α β z * (w0 * (z ^ n * z)) = (z * lkV0 α β z) * (w0 * z ^ n) := by ring
        _ = _ := by rw [e0]; push_cast; ring
    rw [this, add_re, add_re, re_ofReal_mul, re_ofReal_mul, re_ofReal_mul]
  · have : lkV1 α β z * (w0 * z ^ (n + 1))
        = ((-(2 * α) : ℝ) : ℂ) * (lkV0 α β z * (w0 * z ^ n)) + ((1 - 2 * β : ℝ) : ℂ) * (lkV1 α β z * (w0 * z ^ n))
          + ((2 * α : ℝ) : ℂ) * (w0 * z ^ n) := by
      rw [pow_succ]
      calc lkV1 α β z * (w0 * (z ^ n * z)) = (z * lkV1 α β z) * (w0 * z ^ n) := by ring
        _ = _ := by rw [e1]; push_cast; ring
    rw [this, add_re, add_re, re_ofReal_mul, re_ofReal_mul, re_ofReal_mul]

theorem lkTS_abs_le {α β : ℝ} (h : LkGain α β) (z w0 : ℂ) (hz : ‖z‖ = 1) (hz1 : 0.6 ≤ ‖z - 1‖) (n : ℕ) :
    |lkTS α β z w0 n| ≤ 12 * α * ‖w0‖ := by
  unfold lkTS
  calc |(lkV0 α β z * (w0 * z ^ n)).re| ≤ ‖lkV0 α β z * (w0 * z ^ n)‖ := abs_re_le_norm _
    _ = ‖lkV0 α β z‖ * ‖w0‖ := by rw [norm_mul, norm_mul, norm_pow, hz, one_pow, mul_one]
    _ ≤ 12 * α * ‖w0‖ := mul_le_mul_of_nonneg_right (lkV0_norm_le h z hz hz1) (norm_nonneg _)

theorem lkTT_abs_le {α β : ℝ} (h : LkGain α β) (z w0 : ℂ) (hz : ‖z‖ = 1) (hz1 : 0.6 ≤ ‖z - 1‖) (n : ℕ) :
    |lkTT α β z w0 n| ≤ 12 * α * ‖w0‖ := by
  unfold lkTT
  calc |(lkV1 α β z * (w0 * z ^ n)).re| ≤ ‖lkV1 α β z * (w0 * z ^ n)‖ := abs_re_le_norm _
    _ = ‖lkV1 α β z‖ * ‖w0‖ := by rw [norm_mul, norm_mul, norm_pow, hz, one_pow, mul_one]
    _ ≤ 12 * α * ‖w0‖ := mul_le_mul_of_nonneg_right (lkV1_norm_le h z hz hz1) (norm_nonneg _)

theorem lkTc_abs_le (z w0 : ℂ) (hz : ‖z‖ = 1) (n : ℕ) : |lkTc z w0 n| ≤ ‖w0‖ := by
  unfold lkTc
  calc |(w0 * z ^ n).re| ≤ ‖w0 * z ^ n‖ := abs_re_le_norm _
    _ = ‖w0‖ := by rw [norm_mul, norm_pow, hz, one_pow, mul_one]

/-- **window sum of the tone response** (any start `n0`, any length `L`):
    `|∑_{i<L} S^tone_{n0+i}| ≤ 40·α·|w0|`. -/
theorem lkTS_sum_le {α β : ℝ} (h : LkGain α β) (z w0 : ℂ) (hz : ‖z‖ = 1) (hz1 : 0.6 ≤ ‖z - 1‖) (n0 L : ℕ) :
    |∑ i ∈ Finset.range L, lkTS α β z w0 (n0 + i)| ≤ 40 * α * ‖w0‖ := by
  have h1 := h.hα
  have hne : z ≠ 1 := by
    intro e; rw [e, sub_self, norm_zero] at hz1; norm_num at hz1
  have hsum : (∑ i ∈ Finset.range L, lkTS α β z w0 (n0 + i))
      = (lkV0 α β z * (w0 * z ^ n0) * ((z ^ L - 1) / (z - 1))).re := by
    unfold lkTS
    rw [← geom_sum_eq hne L, Finset.mul_sum, re_sum]
    apply Finset.sum_congr rfl
    intro i _
    rw [pow_add]; congr 1; ring
  rw [hsum]
  have hzL : ‖z ^ L - 1‖ ≤ 2 := by
    calc ‖z ^ L - 1‖ ≤ ‖z ^ L‖ + ‖(1 : ℂ)‖ := norm_sub_le _ _
      _ = 2 := by rw [norm_pow, hz]; norm_num
  have hq : ‖(z ^ L - 1) / (z - 1)‖ ≤ 10 / 3 := by
    rw [norm_div, div_le_iff₀ (by linarith)]
    linarith
  calc |(lkV0 α β z * (w0 * z ^ n0) * ((z ^ L - 1) / (z - 1))).re|
      ≤ ‖lkV0 α β z * (w0 * z ^ n0) * ((z ^ L - 1) / (z - 1))‖ := abs_re_le_norm _
    _ = ‖lkV0 α β z‖ * ‖w0‖ * ‖(z ^ L - 1) / (z - 1)‖ := by
        rw [norm_mul, norm_mul, norm_mul, norm_pow, hz, one_pow, mul_one]
    _ ≤ 12 * α * ‖w0‖ * (10 / 3) := by
        apply mul_le_mul _ hq (norm_nonneg _) (by positivity)
        exact mul_le_mul_of_nonneg_right (lkV0_norm_le h z hz hz1) (norm_nonneg _)
    _ = 40 * α * ‖w0‖ := by ring

end Idsp
