import IdspModel.Lemmas.NumRun
namespace Idsp

/-- checked profile: a returning accumulator expression is the exact sum (no step wrapped) -/
theorem biquadAcc_checked_ok {w : Nat} {c : BiquadCfg} {x0 x1 x2 y1 y2 s : Int}
    (h : biquadAcc .checked w c x0 x1 x2 y1 y2 = .ok s) :
    s = c.sum x0 x1 x2 y1 y2 ∧ inI (2 * w) s = true := by
  unfold biquadAcc at h
  obtain ⟨t0, e0, h⟩ := bind_eq_ok h
  obtain ⟨t1, e1, h⟩ := bind_eq_ok h
  obtain ⟨s1, f1, h⟩ := bind_eq_ok h
  obtain ⟨t2, e2, h⟩ := bind_eq_ok h
  obtain ⟨s2, f2, h⟩ := bind_eq_ok h
  obtain ⟨t3, e3, h⟩ := bind_eq_ok h
  obtain ⟨s3, f3, h⟩ := bind_eq_ok h
  obtain ⟨t4, e4, h⟩ := bind_eq_ok h
  obtain ⟨_, rfl⟩ := arithI_checked_ok e0
  obtain ⟨_, rfl⟩ := arithI_checked_ok e1
  obtain ⟨_, rfl⟩ := arithI_checked_ok f1
  obtain ⟨_, rfl⟩ := arithI_checked_ok e2
  obtain ⟨_, rfl⟩ := arithI_checked_ok f2
  obtain ⟨_, rfl⟩ := arithI_checked_ok e3
  obtain ⟨_, rfl⟩ := arithI_checked_ok f3
  obtain ⟨_, rfl⟩ := arithI_checked_ok e4
  obtain ⟨hin, rfl⟩ := arithI_checked_ok h
  exact ⟨rfl, hin⟩

/-- checked profile: a returning `macc` has accumulated without wrapping and passed both assertions -/
theorem macc_checked_ok {w q : Nat} {u s mn mx e1 : Int} {r : Int × Int}
    (h : macc .checked w q u s mn mx e1 = .ok r) :
    inI (2 * w) (s + maccOff w q u e1) = true ∧ r = maccPost w q (s + maccOff w q u e1) mn mx := by
  rw [macc_unfold] at h
  obtain ⟨T, hT, h⟩ := bind_eq_ok h
  obtain ⟨hin, rfl⟩ := arithI_checked_ok hT
  obtain ⟨_, _, h⟩ := bind_eq_ok h
  obtain ⟨_, _, h⟩ := bind_eq_ok h
  cases h
  exact ⟨hin, rfl⟩

/-- checked profile, N = 4/5 common part: whenever it returns, it returns the exact clamp and remainder -/
theorem acc_macc_checked_ok {w q : Nat} (hw : 0 < w) (hq : q ≤ w) {c : BiquadCfg} {x0 x1 x2 y1 y2 e1 : Int}
    {r : Int × Int} (hu : inI w c.u = true) (hmn : inI w c.mn = true) (hmx : inI w c.mx = true)
    (he0 : 0 ≤ e1) (he1 : e1 < 2 ^ q)
    (h : (biquadAcc .checked w c x0 x1 x2 y1 y2 >>= fun s => macc .checked w q c.u s c.mn c.mx e1) = .ok r) :
    inI (2 * w) (c.sum x0 x1 x2 y1 y2 + c.u * 2 ^ q + e1) = true ∧
    r = (clip ((c.sum x0 x1 x2 y1 y2 + c.u * 2 ^ q + e1) / 2 ^ q) c.mn c.mx,
         (c.sum x0 x1 x2 y1 y2 + c.u * 2 ^ q + e1) % 2 ^ q) := by
  obtain ⟨s, hs, h⟩ := bind_eq_ok h
  obtain ⟨rfl, _⟩ := biquadAcc_checked_ok hs
  have hal := macc_checked_aligned h
  obtain ⟨hin, rfl⟩ := macc_checked_ok h
  rw [maccOff_eq hw hq hu he0 he1, ← Int.add_assoc] at hin ⊢
  exact ⟨hin, maccPost_eq hw hq hin hmn hmx hal.1 hal.2⟩

end Idsp
