import IdspModel.Lemmas.Atan2Tab
/-! `atani` table, chunk 1 of 8: quotient fields 8192 … 16384 (complete range, evaluated by the kernel). -/
namespace Idsp

theorem atanTab1 : atanRun 8192 8193 = true := by decide +kernel

end Idsp
