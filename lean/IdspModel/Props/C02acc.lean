import IdspModel.Lemmas.Atan2AccMain
/-!
# C02 (accuracy clause) — `atan2` against the real angle

"For every `(y, x)` other than `(0, 0)`, `atan2(y, x)` is within `max(1.5e-5, 1/max(|x|,|y|))` rad of the true
angle (1 LSB = `π/2^31` rad)."

The true angle is Mathlib's `Complex.arg (x + y·I) ∈ (-π, π]`.  `atan2_accuracy` proves the clause at full
strength for ALL `i32` pairs (including `i32::MIN` operands, which the code saturates), and even without the
wrap-around that a circular distance would allow (`k = 0` always works: the result never crosses the `±π` cut).
Property theorems only; helpers: `IdspModel/Lemmas/Atan2Acc*.lean`
(generator of the table files: `lean/tools/gen_atan2_acc.py`).

Error budget (all certified): polynomial kernel incl. every rounding of the fixed-point Horner scheme `≤ 2.3e-6`
(complete kernel-evaluated table over all 65 537 quotient fields, against `Real.arctan` via a chained enclosure;
native maximum `2.2835e-6`); quotient of `divi` against `y/x`: `≤ 1.24e-5` for `max ≥ 66667`
(half a quotient LSB `2^-17` plus the relative divisor truncation `≤ 1/65535`, weighted by `1/(1+t²)`), and
`≤ 1/max − 2.31e-6` below (the divisor `⌊x/2⌋` loses up to `1/(x-1)` relatively: this is where the `1/max` term of
the tolerance is needed); saturation of `i32::MIN` `≤ 4.7e-10`; three reflections `≤ 1` LSB `< 1.5e-9` each.
-/
namespace Idsp
open Real

/-- **C02 accuracy.**  For every `i32` pair `(y, x) ≠ (0, 0)` the result `r` of `atan2` (checked build; the release
    build returns the same value, `atan2_release_eq_checked`), read as the angle `r·π/2^31`, is within
    `max(1.5e-5, 1/max(|x|,|y|))` rad of the true angle `Complex.arg (x + y·I)`. -/
theorem atan2_accuracy {y x r : Int} (hy : inI 32 y = true) (hx : inI 32 x = true) (hne : ¬ (y = 0 ∧ x = 0))
    (h : atan2 .checked y x = .ok r) :
    |(r:ℝ) * π / 2 ^ 31 - Complex.arg (((x:ℝ) : ℂ) + ((y:ℝ) : ℂ) * Complex.I)| ≤
      max 1.5e-5 (1 / max |(x:ℝ)| |(y:ℝ)|) := by
  have := atan2Acc_main hy hx hne h
  have e : (1.5e-5 : ℝ) = 15 / 1000000 := by norm_num
  rw [e]; exact this

/-- the clause as literally worded, with the circular distance (`-2^31` represents `-π ≡ +π`): some
    `k ∈ {-1, 0, 1}` brings `r·π/2^31 − θ − 2πk` within the tolerance -/
def atan2_accuracy_full : Prop :=
  ∀ y x r : Int, inI 32 y = true → inI 32 x = true → ¬ (y = 0 ∧ x = 0) → atan2 .checked y x = .ok r →
    ∃ k : Int, -1 ≤ k ∧ k ≤ 1 ∧
      |(r:ℝ) * π / 2 ^ 31 - Complex.arg (((x:ℝ) : ℂ) + ((y:ℝ) : ℂ) * Complex.I) - 2 * π * (k:ℝ)| ≤
        max 1.5e-5 (1 / max |(x:ℝ)| |(y:ℝ)|)

/-- the full clause holds (with `k = 0` throughout) -/
theorem atan2_accuracy_full_holds : atan2_accuracy_full := by
  intro y x r hy hx hne h
  refine ⟨0, by omega, by omega, ?_⟩
  have := atan2_accuracy hy hx hne h
  simpa using this

/-- the same for the release build (wrapping arithmetic, no debug assertions) -/
theorem atan2_accuracy_release {y x r : Int} (hy : inI 32 y = true) (hx : inI 32 x = true)
    (hne : ¬ (y = 0 ∧ x = 0)) (h : atan2 .release y x = .ok r) :
    |(r:ℝ) * π / 2 ^ 31 - Complex.arg (((x:ℝ) : ℂ) + ((y:ℝ) : ℂ) * Complex.I)| ≤
      max 1.5e-5 (1 / max |(x:ℝ)| |(y:ℝ)|) := by
  obtain ⟨r0, _, _, _, _, _, _, hv⟩ := atan2_val hy hx
  rw [hv .release] at h
  exact atan2_accuracy hy hx hne ((hv .checked).trans h)

/-! ## the certified parts of the error budget -/

/-- **Polynomial kernel.**  For EVERY quotient field `q ≤ 2^16` (all that `divi` produces), `atani` at
    `q·2^15 + 2^14` — the fixed-point Horner evaluation with all its roundings — is within `2.3e-6` rad of the
    arctangent of the number `(q + ½)/2^16` that its argument represents. -/
theorem atani_accuracy (q : Nat) (hq : q ≤ 65536) :
    ∃ r : Int, (∀ m, atani m ((q : Int) * 2 ^ 15 + 2 ^ 14) = .ok r) ∧
      |(r:ℝ) * π / 2 ^ 31 - arctan (((q:ℝ) + 1 / 2) / 65536)| ≤ 2.3e-6 := by
  obtain ⟨r, hr, hb⟩ := atan2Acc_kernel q hq
  refine ⟨r, atani_all_modes hr, ?_⟩
  have e1 : ((q:ℝ) + 1 / 2) / 65536 = atan2AccT q := by unfold atan2AccT; ring
  have e2 : (2.3e-6 : ℝ) = 23 / 10000000 := by norm_num
  rw [e1, e2]
  simpa using hb

/-- **Quotient.**  For first-octant operands `0 ≤ y ≤ x`, `2 ≤ x < 2^31`, `divi` returns `q·2^15 + 2^14` and the
    number `(q + ½)/2^16` it stands for has an arctangent within `max(1.5e-5, 1/x) − 2.31e-6` of `arctan(y/x)`. -/
theorem divi_angle_accuracy {y x : Int} (hy : 0 ≤ y) (hyx : y ≤ x) (hx2 : 2 ≤ x) (hx : x < 2 ^ 31) :
    ∃ q : Nat, q ≤ 65536 ∧ (∀ m, divi m y x = .ok ((q : Int) * 2 ^ 15 + 2 ^ 14)) ∧
      |arctan (((q:ℝ) + 1 / 2) / 65536) - arctan ((y:ℝ) / (x:ℝ))| ≤ max 1.5e-5 (1 / (x:ℝ)) - 2.31e-6 := by
  obtain ⟨q, hd, q0, q1, hfacts⟩ := atan2Acc_divi hy hyx hx2 hx
  obtain ⟨n, rfl⟩ := Int.eq_ofNat_of_zero_le q0
  have hn : n ≤ 65536 := by omega
  refine ⟨n, hn, hd, ?_⟩
  have := atan2Acc_quotient_angle hy hyx hx2 hn hfacts
  have e1 : ((n:ℝ) + 1 / 2) / 65536 = (2 * (n:ℝ) + 1) / 131072 := by ring
  have e2 : (1.5e-5 : ℝ) = 15 / 1000000 := by norm_num
  have e3 : (2.31e-6 : ℝ) = 231 / 100000000 := by norm_num
  rw [e1, e2, e3]; exact this

/-- **First octant.**  For `0 ≤ y ≤ x`, `2 ≤ x < 2^31` the value computed before the reflections is within
    `max(1.5e-5, 1/x) − 1e-8` rad of `arctan(y/x)`. -/
theorem atan2_first_octant_accuracy {y x r0 : Int} (hy : 0 ≤ y) (hyx : y ≤ x) (hx2 : 2 ≤ x) (hx : x < 2 ^ 31)
    (h : (do let d ← divi .checked y x; atani .checked d) = .ok r0) :
    |(r0:ℝ) * π / 2 ^ 31 - arctan ((y:ℝ) / (x:ℝ))| ≤ max 1.5e-5 (1 / (x:ℝ)) - 1e-8 := by
  have := atan2Acc_oct hy hyx hx2 hx h
  have e2 : (1.5e-5 : ℝ) = 15 / 1000000 := by norm_num
  have e3 : (1e-8 : ℝ) = 1 / 100000000 := by norm_num
  rw [e2, e3]; exact this

/-! ## the hypotheses are satisfiable, the statements non-trivial -/

/-- a generic point: `atan2(1000, 3000) = 219940176`, i.e. `0.32175058…` rad against `arctan(1/3) = 0.32175055…` -/
example : inI 32 1000 = true ∧ inI 32 3000 = true ∧ ¬ ((1000:Int) = 0 ∧ (3000:Int) = 0) ∧
    atan2 .checked 1000 3000 = .ok 219940176 := by
  refine ⟨by decide, by decide, by decide, by decide +kernel⟩

/-- so the theorem applies there -/
example : |((219940176:Int):ℝ) * π / 2 ^ 31 - Complex.arg ((((3000:Int):ℝ) : ℂ) + (((1000:Int):ℝ) : ℂ) * Complex.I)| ≤
    max 1.5e-5 (1 / max |((3000:Int):ℝ)| |((1000:Int):ℝ)|) :=
  atan2_accuracy (by decide) (by decide) (by decide) (by decide +kernel)

/-- the `1/max` term is needed: `atan2(2, 3) = 2^29 + 2599` (the quotient `2·2^15/⌊3/2⌋` is clamped to `1.0`), i.e.
    `π/4` for the true angle `arctan(2/3) = 0.588`: `0.197` rad off, within `1/3`, far outside `1.5e-5` -/
example : atan2 .checked 2 3 = .ok (2 ^ 29 + 2599) := by decide +kernel

/-- `i32::MIN` operands and the `±π` cut: `atan2(-1, i32::MIN) = -2^31 + 5215`, just above `-π` -/
example : atan2 .checked (-1) (-2 ^ 31) = .ok (-2 ^ 31 + 5215) := by decide +kernel

end Idsp
