import IdspModel.Lemmas.Lp2Level
/-!
# Second-order lowpass: output error of settled states
-/
namespace Idsp
set_option linter.unusedVariables false

/-- a state in the equilibrium level set has `get()` within `4·2^32/k + 4` of the input -/
theorem lp2_settled_out {k a b x : Int} (h : Lp2Butter k a b) (hz : b ^ 2 ≤ 3 * (a * 4294967296))
    (st : Int × Int) (hs : Lp2Settled a b x st) :
    k * (|st.1 / 4294967296 - x| - 4) ≤ 4 * 4294967296 := by
  have ha := h.a_ge; have hbg := h.b_ge; have hbl := h.b_le; have hk := h.hk0
  obtain ⟨ln, ld, cn, cd, hln, hld, hcn, hcd, hR, hc, hlin⟩ := lp2_lambda h hz
  have habs := lp2_level_abs (a := a) (b := b) (ln := ln) (ld := ld) (Eb := lp2Eb a b x st.1)
    (Q := lp2V a b x st) (by omega) (by omega) (by omega) hln hld h.two_a_lt h.aM_le_bsq hR
    (lp2Q_extent_E a b _ _) hs
  have hout := lp2_out_abs (a := a) (b := b) (x := x) (s := st.1) (c := ld * b)
    (R := 4 * ln * a * 4294967296 ^ 2) (by omega) (by omega) (mul_pos hld (by omega)) habs
  rw [abs_sub_comm]
  exact lp2_final (by omega) (by omega) (by omega) hln hld hcn hcd hc hlin (by linarith)

/-- if a state and its successor are in the equilibrium level set, the output returned by the update in between
    is within `4·2^32/k + 4` of the input -/
theorem lp2_settled_mid {k a b x : Int} (h : Lp2Butter k a b) (hz : b ^ 2 ≤ 3 * (a * 4294967296))
    (st : Int × Int) (hs : Lp2Settled a b x st) (hs' : Lp2Settled a b x (lp2Next x a (-b) st)) :
    k * (|lp2Mid x a (-b) st / 4294967296 - x| - 4) ≤ 4 * 4294967296 := by
  have ha := h.a_ge; have hbg := h.b_ge; have hbl := h.b_le; have hk := h.hk0
  obtain ⟨ln, ld, cn, cd, hln, hld, hcn, hcd, hR, hc, hlin⟩ := lp2_lambda h hz
  have habs := lp2_level_abs (a := a) (b := b) (ln := ln) (ld := ld) (Eb := lp2Eb a b x st.1)
    (Q := lp2V a b x st) (by omega) (by omega) (by omega) hln hld h.two_a_lt h.aM_le_bsq hR
    (lp2Q_extent_E a b _ _) hs
  have habs' := lp2_level_abs (a := a) (b := b) (ln := ln) (ld := ld)
    (Eb := lp2Eb a b x (lp2Next x a (-b) st).1)
    (Q := lp2V a b x (lp2Next x a (-b) st)) (by omega) (by omega) (by omega) hln hld h.two_a_lt h.aM_le_bsq hR
    (lp2Q_extent_E a b _ _) hs'
  obtain ⟨-, -, -, -, -, -, hmid⟩ := lp2_err_rec x a (-b) st
  have hE : 2 * lp2Eb a b x (lp2Mid x a (-b) st) = lp2Eb a b x st.1 + lp2Eb a b x (lp2Next x a (-b) st).1 := by
    unfold lp2Eb; linear_combination (2 * a) * hmid
  have hc0 : 0 < ld * b := mul_pos hld (by omega)
  have hm : |lp2Eb a b x (lp2Mid x a (-b) st)| * (ld * b) ≤ 4 * ln * a * 4294967296 ^ 2 := by
    have h2 : 2 * |lp2Eb a b x (lp2Mid x a (-b) st)|
        ≤ |lp2Eb a b x st.1| + |lp2Eb a b x (lp2Next x a (-b) st).1| := by
      have : 2 * |lp2Eb a b x (lp2Mid x a (-b) st)| = |2 * lp2Eb a b x (lp2Mid x a (-b) st)| := by
        rw [abs_mul]; norm_num
      rw [this, hE]; exact abs_add_le _ _
    have := mul_le_mul_of_nonneg_right h2 (le_of_lt hc0)
    nlinarith
  have hout := lp2_out_abs (a := a) (b := b) (x := x) (s := lp2Mid x a (-b) st) (c := ld * b)
    (R := 4 * ln * a * 4294967296 ^ 2) (by omega) (by omega) hc0 hm
  rw [abs_sub_comm]
  exact lp2_final (by omega) (by omega) (by omega) hln hld hcn hcd hc hlin (by linarith)

end Idsp
