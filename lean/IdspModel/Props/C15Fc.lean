import IdspModel.Lemmas.FloatModelHbfCascadeRun
import IdspModel.Props.C15F
import Mathlib.Analysis.SpecialFunctions.Log.Base
/-!
# C15 (floating point clause, cascades) — rounding of the running f32 cascades against the exact cascades

Setting: `fhbfDecCascade o d` / `fhbfIntCascade o d` (`Lemmas/FloatModelHbfCascadeRun.lean`) are the model's
`HbfDecCascade::default()` / `HbfIntCascade::default()` followed by `set_depth(d)` (`Model/Hbf.lean`: four stages
`Hbf…::<f32, M_j, {2·M_j − 1 + 64·2^j}>::new(&HBF_TAPS.j)`, `M = 23, 9, 5, 4`, the decimating cascade applies stages
`d−1, …, 0`, the interpolating one `0, …, d−1`), with the published taps as real numbers and arbitrary operations `o`.
The RUNNING code is `o = F.fhbfOps` for a binary32 rounding model `F : FlModel (1/2^24)` (`Props/C15F.lean`);
the EXACT cascade is the same model with `o = fhbfExactOps` (exact real arithmetic), which `Props/C15.lean` /
`Props/C15spec.lean` relate to the published overall FIR (`hbfCascadeFir d`, ripple `≤ 2e-6 dB`, attenuation `≥ 140 dB`).

Both runs start from the zero state and are fed the same list of blocks `bs`, any partition admissible for the cascade
(`HbfDecCascade.Adm`: the block and all intermediate blocks fit the stages' buffers; e.g. every block whose length is a
multiple of `2^d` and at most `64·2^d` — `fhbfDecCascade_adm` — resp. at most 64 low-rate items — `fhbfIntCascade_adm`).
By `HbfDecCascade.run_spec` / `HbfIntCascade.run_spec` (the partition-invariance behind `Props/C14.lean`) the outputs
depend on the concatenated input only, so nothing below depends on the partition.

Error recursion (`fhbfStep ε g (A, D) = (g·A, ε·(A + D) + g·D)`): `A` bounds the exact stream, `D` the deviation of the
rounded stream.  Stage `j` contributes its rounding constant `ε_j = c_j·2^-24` (`fhbfDecConst`/`fhbfIntConst`, applied
to its actual rounded input, bounded by `A + D`) and amplifies the incoming deviation by the exact stage's `ℓ1` gain
`g_j` (decimator `½·Σ|h| = ½ + Σ|t|`: `≤ 1.73, 1.45, 1.30, 1.25`; interpolator `max 1 (2Σ|t|)`: `≤ 2.45, 1.89, 1.60,
1.50`; `fhbfDecGainQ`/`fhbfIntGainQ`).  Two stages `A` then `B`: deviation `ε_B·(g_A + ε_A) + g_B·ε_A` (see the
`example` below); `fhbfDecChainErr js (1, 0)` iterates this over the stage list `js`.
-/
namespace Idsp
open Finset

/-- the two-stage formula: stage `A` then stage `B`, from `(A, D) = (1, 0)` -/
example (εA gA εB gB : ℝ) :
    fhbfStep εB gB (fhbfStep εA gA (1, 0)) = (gB * gA, εB * (gA + εA) + gB * εA) := by
  simp only [fhbfStep]
  refine Prod.ext ?_ ?_ <;> simp only <;> ring

variable (F : FlModel (1 / 2 ^ 24))

/-! ## 1. Every output of the rounded cascade against the exact cascade -/

/-- **`fhbf_dec_cascade_error`** — decimating cascade, depth `d ≤ 4`, any admissible partition `bs` of any input with
    `|x| ≤ B`: the rounded and the exact run return equally many items, and item `i` of the rounded run differs from
    item `i` of the exact run by at most `E_d·B`, `E_d = (fhbfDecChainErr [d−1, …, 0] (1, 0)).2`. -/
theorem fhbf_dec_cascade_error (d : ℕ) (hd : d ≤ 4) (bs : List (List ℝ))
    (adm : ∀ b ∈ bs, (fhbfDecCascade F.fhbfOps d).Adm b) (B : ℝ) (hB0 : 0 ≤ B) (hB : ∀ x ∈ bs.flatten, |x| ≤ B) :
    ((fhbfDecCascade F.fhbfOps d).run F.fhbfOps bs).2.flatten.length =
      ((fhbfDecCascade fhbfExactOps d).run fhbfExactOps bs).2.flatten.length ∧
    ∀ i (h1 : i < ((fhbfDecCascade F.fhbfOps d).run F.fhbfOps bs).2.flatten.length)
      (h2 : i < ((fhbfDecCascade fhbfExactOps d).run fhbfExactOps bs).2.flatten.length),
      |((fhbfDecCascade F.fhbfOps d).run F.fhbfOps bs).2.flatten[i] -
        ((fhbfDecCascade fhbfExactOps d).run fhbfExactOps bs).2.flatten[i]| ≤
        B * (fhbfDecChainErr (List.range d).reverse (1, 0)).2 := by
  have admE : ∀ b ∈ bs, (fhbfDecCascade fhbfExactOps d).Adm b :=
    fun b hb => (fhbfDecCascade_adm_iff _ _ d b).mp (adm b hb)
  have sF := (HbfDecCascade.run_spec F.fhbfOps _ (fhbfDecCascade_wf _ d hd) bs adm).1
  have sE := (HbfDecCascade.run_spec fhbfExactOps _ (fhbfDecCascade_wf _ d hd) bs admE).1
  rw [fhbfDecCascade_active _ rfl d hd] at sF sE
  have cl := F.fhbf_decChain_close (List.range d).reverse (B * 1, B * 0) (by simpa using hB0) (by simp)
    bs.flatten bs.flatten (by simpa using fhbfClose.refl hB)
  have e : fhbfDecChainErr (List.range d).reverse (B * 1, B * 0) = _ := fhbfDecChainErr_smul _ B (1, 0)
  rw [e] at cl
  rw [sF, sE]
  exact ⟨cl.1, cl.2.1⟩

/-- **`fhbf_int_cascade_error`** — interpolating cascade, depth `d ≤ 4`, any admissible partition of any input with
    `|x| ≤ B`: item `i` of the rounded run differs from item `i` of the exact run by at most `E_d·B`,
    `E_d = (fhbfIntChainErr [0, …, d−1] (1, 0)).2`. -/
theorem fhbf_int_cascade_error (d : ℕ) (hd : d ≤ 4) (bs : List (List ℝ))
    (adm : ∀ b ∈ bs, (fhbfIntCascade F.fhbfOps d).Adm b) (B : ℝ) (hB0 : 0 ≤ B) (hB : ∀ x ∈ bs.flatten, |x| ≤ B) :
    ((fhbfIntCascade F.fhbfOps d).run F.fhbfOps bs).2.flatten.length =
      ((fhbfIntCascade fhbfExactOps d).run fhbfExactOps bs).2.flatten.length ∧
    ∀ i (h1 : i < ((fhbfIntCascade F.fhbfOps d).run F.fhbfOps bs).2.flatten.length)
      (h2 : i < ((fhbfIntCascade fhbfExactOps d).run fhbfExactOps bs).2.flatten.length),
      |((fhbfIntCascade F.fhbfOps d).run F.fhbfOps bs).2.flatten[i] -
        ((fhbfIntCascade fhbfExactOps d).run fhbfExactOps bs).2.flatten[i]| ≤
        B * (fhbfIntChainErr (List.range d) (1, 0)).2 := by
  have admE : ∀ b ∈ bs, (fhbfIntCascade fhbfExactOps d).Adm b :=
    fun b hb => (fhbfIntCascade_adm_iff _ _ d b).mp (adm b hb)
  have sF := (HbfIntCascade.run_spec F.fhbfOps _ (fhbfIntCascade_wf _ d hd) bs adm).1
  have sE := (HbfIntCascade.run_spec fhbfExactOps _ (fhbfIntCascade_wf _ d hd) bs admE).1
  rw [fhbfIntCascade_active _ rfl d hd] at sF sE
  have cl := F.fhbf_intChain_close (List.range d) (B * 1, B * 0) (by simpa using hB0) (by simp)
    bs.flatten bs.flatten (by simpa using fhbfClose.refl hB)
  have e : fhbfIntChainErr (List.range d) (B * 1, B * 0) = _ := fhbfIntChainErr_smul _ B (1, 0)
  rw [e] at cl
  rw [sF, sE]
  exact ⟨cl.1, cl.2.1⟩

/-- the exact cascade's outputs are bounded by the product of the stage gains times `B` (used in the recursion; for
    the decimating cascade `≤ 1.73, 2.51, 3.27, 4.08`, for the interpolating one `≤ 2.45, 4.64, 7.41, 11.12`) -/
theorem fhbf_cascade_exact_amplitude (d : ℕ) (hd : d ≤ 4) (bs : List (List ℝ))
    (admD : ∀ b ∈ bs, (fhbfDecCascade F.fhbfOps d).Adm b) (B : ℝ) (hB0 : 0 ≤ B) (hB : ∀ x ∈ bs.flatten, |x| ≤ B) :
    ∀ y ∈ ((fhbfDecCascade fhbfExactOps d).run fhbfExactOps bs).2.flatten,
      |y| ≤ B * (fhbfDecChainErr (List.range d).reverse (1, 0)).1 := by
  have admE : ∀ b ∈ bs, (fhbfDecCascade fhbfExactOps d).Adm b :=
    fun b hb => (fhbfDecCascade_adm_iff _ _ d b).mp (admD b hb)
  have sE := (HbfDecCascade.run_spec fhbfExactOps _ (fhbfDecCascade_wf _ d hd) bs admE).1
  rw [fhbfDecCascade_active _ rfl d hd] at sE
  have cl := F.fhbf_decChain_close (List.range d).reverse (B * 1, B * 0) (by simpa using hB0) (by simp)
    bs.flatten bs.flatten (by simpa using fhbfClose.refl hB)
  have e : fhbfDecChainErr (List.range d).reverse (B * 1, B * 0) = _ := fhbfDecChainErr_smul _ B (1, 0)
  rw [e] at cl
  rw [sE]
  exact cl.2.2

/-! ## 2. Concrete numbers -/

/-- `E_d ≤ c_d·2^-24` with `c_d = 11, 30, 57, 94` (decimating) and `14, 49, 111, 217` (interpolating), `d = 1..4`
    (`0` for `d = 0`), by exact rational evaluation of the recursion -/
theorem fhbf_cascade_constants (d : ℕ) (hd : d ≤ 4) :
    (fhbfDecChainErr (List.range d).reverse (1, 0)).2 ≤ ((fhbfDecCascadeConst d : ℚ) : ℝ) / 2 ^ 24 ∧
    (fhbfIntChainErr (List.range d) (1, 0)).2 ≤ ((fhbfIntCascadeConst d : ℚ) : ℝ) / 2 ^ 24 := by
  have e1 := fhbfDecChainErr_cast (List.range d).reverse (1, 0)
  have e2 := fhbfIntChainErr_cast (List.range d) (1, 0)
  simp only [Rat.cast_one, Rat.cast_zero] at e1 e2
  rw [e1, e2]
  constructor
  · have h : (((fhbfDecChainErrQ (List.range d).reverse (1, 0)).2 : ℚ) : ℝ) ≤
        ((fhbfDecCascadeConst d / 2 ^ 24 : ℚ) : ℝ) := Rat.cast_le.mpr (fhbfDecCascadeConst_ok d hd)
    push_cast at h
    exact h
  · have h : (((fhbfIntChainErrQ (List.range d) (1, 0)).2 : ℚ) : ℝ) ≤
        ((fhbfIntCascadeConst d / 2 ^ 24 : ℚ) : ℝ) := Rat.cast_le.mpr (fhbfIntCascadeConst_ok d hd)
    push_cast at h
    exact h

/-- **decimating f32 cascade, numeric**: every output within `c_d·2^-24·B` of the exact cascade's,
    `c_d = 11, 30, 57, 94` for `d = 1..4` -/
theorem fhbf_dec_cascade_error_f32 (d : ℕ) (hd : d ≤ 4) (bs : List (List ℝ))
    (adm : ∀ b ∈ bs, (fhbfDecCascade F.fhbfOps d).Adm b) (B : ℝ) (hB0 : 0 ≤ B) (hB : ∀ x ∈ bs.flatten, |x| ≤ B)
    (i : ℕ) (h1 : i < ((fhbfDecCascade F.fhbfOps d).run F.fhbfOps bs).2.flatten.length)
    (h2 : i < ((fhbfDecCascade fhbfExactOps d).run fhbfExactOps bs).2.flatten.length) :
    |((fhbfDecCascade F.fhbfOps d).run F.fhbfOps bs).2.flatten[i] -
      ((fhbfDecCascade fhbfExactOps d).run fhbfExactOps bs).2.flatten[i]| ≤
      ((fhbfDecCascadeConst d : ℚ) : ℝ) / 2 ^ 24 * B := by
  refine ((fhbf_dec_cascade_error F d hd bs adm B hB0 hB).2 i h1 h2).trans ?_
  rw [mul_comm]
  exact mul_le_mul_of_nonneg_right (fhbf_cascade_constants d hd).1 hB0

/-- **interpolating f32 cascade, numeric**: every output within `c_d·2^-24·B` of the exact cascade's,
    `c_d = 14, 49, 111, 217` for `d = 1..4` (input-referred; the cascade's exact DC gain is `2^d`) -/
theorem fhbf_int_cascade_error_f32 (d : ℕ) (hd : d ≤ 4) (bs : List (List ℝ))
    (adm : ∀ b ∈ bs, (fhbfIntCascade F.fhbfOps d).Adm b) (B : ℝ) (hB0 : 0 ≤ B) (hB : ∀ x ∈ bs.flatten, |x| ≤ B)
    (i : ℕ) (h1 : i < ((fhbfIntCascade F.fhbfOps d).run F.fhbfOps bs).2.flatten.length)
    (h2 : i < ((fhbfIntCascade fhbfExactOps d).run fhbfExactOps bs).2.flatten.length) :
    |((fhbfIntCascade F.fhbfOps d).run F.fhbfOps bs).2.flatten[i] -
      ((fhbfIntCascade fhbfExactOps d).run fhbfExactOps bs).2.flatten[i]| ≤
      ((fhbfIntCascadeConst d : ℚ) : ℝ) / 2 ^ 24 * B := by
  refine ((fhbf_int_cascade_error F d hd bs adm B hB0 hB).2 i h1 h2).trans ?_
  rw [mul_comm]
  exact mul_le_mul_of_nonneg_right (fhbf_cascade_constants d hd).2 hB0

/-- **in decibels**: for a full-scale signal (`B` = full scale, e.g. a sinusoid of amplitude `B`) the f32 cascade's
    output differs from the exact cascade's, sample by sample, by at most `−105 dB` (decimating, every depth `≤ 4`)
    resp. `−97 dB` (interpolating, input-referred) of full scale.  So the `C15spec` figures (ripple `≤ 2e-6 dB`,
    attenuation `≥ 140 dB`, proved for the exact cascade) hold for the running f32 cascade up to an additive error
    term at that level. -/
theorem fhbf_cascade_error_db (d : ℕ) (h1 : 1 ≤ d) (hd : d ≤ 4) :
    20 * Real.logb 10 (((fhbfDecCascadeConst d : ℚ) : ℝ) / 2 ^ 24) ≤ -105 ∧
    20 * Real.logb 10 (((fhbfIntCascadeConst d : ℚ) : ℝ) / 2 ^ 24) ≤ -97 := by
  have key : ∀ (c : ℚ) (k : ℕ), 0 < c / 2 ^ 24 → (c / 2 ^ 24) ^ 20 ≤ 1 / 10 ^ k →
      20 * Real.logb 10 ((c : ℝ) / 2 ^ 24) ≤ -(k : ℝ) := by
    intro c k hq hle
    have hq' : (0 : ℝ) < (c : ℝ) / 2 ^ 24 := by
      have := (Rat.cast_lt (K := ℝ)).mpr hq
      push_cast at this
      exact this
    have h20 : ((c : ℝ) / 2 ^ 24) ^ 20 ≤ 1 / 10 ^ k := by
      have := (Rat.cast_le (K := ℝ)).mpr hle
      push_cast at this
      exact this
    have := Real.logb_le_logb_of_le (b := 10) (by norm_num) (by positivity) h20
    rw [Real.logb_pow, one_div, Real.logb_inv, Real.logb_pow, Real.logb_self_eq_one (by norm_num)] at this
    push_cast at this
    linarith
  have : d = 1 ∨ d = 2 ∨ d = 3 ∨ d = 4 := by omega
  rcases this with rfl | rfl | rfl | rfl
  · exact ⟨(key (fhbfDecCascadeConst 1) 105 (by decide +kernel) (by decide +kernel)).trans (by norm_num),
      (key (fhbfIntCascadeConst 1) 97 (by decide +kernel) (by decide +kernel)).trans (by norm_num)⟩
  · exact ⟨(key (fhbfDecCascadeConst 2) 105 (by decide +kernel) (by decide +kernel)).trans (by norm_num),
      (key (fhbfIntCascadeConst 2) 97 (by decide +kernel) (by decide +kernel)).trans (by norm_num)⟩
  · exact ⟨(key (fhbfDecCascadeConst 3) 105 (by decide +kernel) (by decide +kernel)).trans (by norm_num),
      (key (fhbfIntCascadeConst 3) 97 (by decide +kernel) (by decide +kernel)).trans (by norm_num)⟩
  · exact ⟨(key (fhbfDecCascadeConst 4) 105 (by decide +kernel) (by decide +kernel)).trans (by norm_num),
      (key (fhbfIntCascadeConst 4) 97 (by decide +kernel) (by decide +kernel)).trans (by norm_num)⟩

/-! ## 3. Non-vacuity -/

/-- the admissibility hypotheses hold for every `block_size()`-conforming block, under any rounding model -/
example (d : ℕ) (hd : d ≤ 4) (x : List ℝ) (hg : 2 ^ d ∣ x.length) (hx : x.length ≤ 64 * 2 ^ d) :
    (fhbfDecCascade F.fhbfOps d).Adm x := fhbfDecCascade_adm _ d hd x hg hx
example (d : ℕ) (hd : d ≤ 4) (x : List ℝ) (hx : x.length ≤ 64) :
    (fhbfIntCascade F.fhbfOps d).Adm x := fhbfIntCascade_adm _ d hd x hx

/-- in the exact instance of the rounding model the bound is consistent with zero error on the first stage:
    `FlModel.exact` is an instance of `FlModel (1/2^24)` -/
noncomputable example : FlModel (1 / 2 ^ 24) := FlModel.exact _ (by positivity)
noncomputable example : FlModel (1 / 2 ^ 24) := FlModel.roundUp _ (by positivity)

end Idsp
