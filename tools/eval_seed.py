#!/usr/bin/env python3
"""
eval_seed.py <seed-dir> <k> <name> <prop> [<prop> ...]

Validates a seeded breakage produced by an independent sub-agent and runs the registered checks against it.
  1. scratch worktree of /repo HEAD: patch applies; existing tests pass with it; demo fails with it, passes without
  2. apply the patch to /repo, run ./check <prop> --tier quick for each listed property, undo (git checkout -- .)
  3. store patch.diff, demo.rs, meta.json (with everything that was run and observed) under /verif/seeded/<name>/
"""
import json, os, shutil, subprocess, sys, time

seed_dir, k, name, props = sys.argv[1], sys.argv[2], sys.argv[3], sys.argv[4:]
patch = os.path.join(seed_dir, "out", f"patch{k}.diff")
demo = os.path.join(seed_dir, "out", f"demo{k}.rs")
meta_in = os.path.join(seed_dir, "out", f"meta{k}.json")
env = dict(os.environ, CARGO_NET_OFFLINE="true")

def sh(cmd, cwd=None, timeout=3600):
    p = subprocess.run(cmd, cwd=cwd, shell=True, stdout=subprocess.PIPE, stderr=subprocess.STDOUT, text=True, env=env, timeout=timeout)
    return p.returncode, p.stdout

wt = f"/tmp/evalwt-{name}"
sh(f"git -C /repo worktree remove --force {wt}")
rc, out = sh(f"git -C /repo worktree add -q --detach {wt} HEAD")
assert rc == 0, out
res = {"name": name, "source": seed_dir, "k": k, "ran": []}
try:
    rc, out = sh(f"git apply --check {patch} && git apply {patch}", cwd=wt)
    res["patch_applies"] = rc == 0
    if rc != 0:
        print("PATCH DOES NOT APPLY", out)
    else:
        rc, out = sh("cargo test --offline 2>&1 | grep -E '^test result|FAILED|panicked' | head -20", cwd=wt)
        res["existing_tests_with_patch"] = out.strip().splitlines()
        res["existing_tests_pass"] = "FAILED" not in out and "failed; " not in out.replace("0 failed;", "") and "test result: ok" in out
        os.makedirs(os.path.join(wt, "tests"), exist_ok=True)
        shutil.copy(demo, os.path.join(wt, "tests", "seed_demo.rs"))
        rc1, out1 = sh("cargo test --offline --test seed_demo 2>&1 | tail -15", cwd=wt)
        res["demo_fails_with_patch"] = "test result: FAILED" in out1 or "panicked" in out1
        sh("git checkout -- src", cwd=wt)
        rc2, out2 = sh("cargo test --offline --test seed_demo 2>&1 | tail -5", cwd=wt)
        res["demo_passes_without_patch"] = "test result: ok" in out2 and "FAILED" not in out2
        # also in release (some breakages only wrap in release)
        res["ran"] += ["git apply", "cargo test --offline (with patch)", "cargo test --offline --test seed_demo (with / without patch)"]
finally:
    sh(f"git -C /repo worktree remove --force {wt}")

valid = res.get("patch_applies") and res.get("existing_tests_pass") and res.get("demo_fails_with_patch") and res.get("demo_passes_without_patch")
res["valid"] = bool(valid)
res["checks"] = {}
if valid:
    rc, out = sh("git -C /repo status --porcelain")
    assert out.strip() == "", "/repo not clean: " + out
    try:
        rc, out = sh(f"git -C /repo apply {patch}")
        assert rc == 0, out
        for p in props:
            t0 = time.time()
            rc, out = sh(f"./check {p} --tier quick", cwd="/verif", timeout=7200)
            lines = [l for l in out.splitlines() if l.startswith("VIOLATION") or l.startswith("failing input") or l.startswith("no longer checks") or l.startswith("OK ")]
            res["checks"][p] = {"exit": rc, "detected": rc == 1, "wall_s": round(time.time() - t0, 1), "lines": [l[:500] for l in lines[:6]]}
            print(f"[{name}] check {p}: exit {rc}  " + (lines[-1][:200] if lines else out[-200:]))
            res["ran"].append(f"./check {p} --tier quick  (patch applied to /repo, undone afterwards)")
    finally:
        sh("git -C /repo checkout -- .")
        rc, out = sh("git -C /repo status --porcelain")
        assert out.strip() == "", "/repo not restored: " + out
dst = f"/verif/seeded/{name}"
os.makedirs(dst, exist_ok=True)
shutil.copy(patch, os.path.join(dst, "patch.diff"))
shutil.copy(demo, os.path.join(dst, "demo.rs"))
meta = json.load(open(meta_in)) if os.path.exists(meta_in) else {}
meta["validation"] = res
json.dump(meta, open(os.path.join(dst, "meta.json"), "w"), indent=1)
print(json.dumps({k2: v for k2, v in res.items() if k2 not in ("existing_tests_with_patch", "ran")}, indent=1)[:1500])
