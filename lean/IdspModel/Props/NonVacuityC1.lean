import IdspModel.Props.C15Fc
import IdspModel.Props.C15spec
import IdspModel.Props.C02
import IdspModel.Props.C01
import IdspModel.Props.C17
import IdspModel.Props.C18
import IdspModel.Props.C05
import IdspModel.Props.C20b
/-!
# Non-vacuity audit, part C (first half): C15Fc, C15spec, C02, C01, C17, C18, C05

For every property theorem of these files whose hypotheses are more than independent range facts and which is not
already followed by an instance of ALL its hypotheses: one `example` exhibiting a common, non-trivial witness of the
hypotheses (copied in the theorem's order).  Per file a "skipped" comment accounts for the remaining theorems.
Auxiliary declarations carry the prefix `nvC_`.  (`Props/C20b.lean` is imported only for the run-length corollaries
used to show that the cascade runs of the C15Fc witnesses return items.)
-/
namespace Idsp
open Real


/-! ## C15Fc -/

/-- a genuinely rounding instance of the binary32 model: every operation rounds away from zero by `1 + 2^-24` -/
noncomputable def nvC_F : FlModel (1 / 2 ^ 24) := FlModel.roundUp _ (by positivity)

/-- one high-rate block of 8 samples (two low-rate items at depth 2) -/
noncomputable def nvC_block : List ℝ := [1, -1, 1 / 2, 0, 1, 1, -1 / 4, 1]

theorem nvC_block_bound : ∀ x ∈ [nvC_block].flatten, |x| ≤ (1 : ℝ) := by
  intro x hx
  simp only [nvC_block, List.flatten_cons, List.flatten_nil, List.append_nil, List.mem_cons, List.not_mem_nil,
    or_false] at hx
  rcases hx with rfl | rfl | rfl | rfl | rfl | rfl | rfl | rfl <;> norm_num [abs_le]

theorem nvC_dec_adm (o : Ops ℝ) : ∀ b ∈ [nvC_block], (fhbfDecCascade o 2).Adm b := by
  intro b hb
  rw [List.mem_singleton] at hb; subst hb
  exact fhbfDecCascade_adm _ 2 (by norm_num) _ (by decide) (by decide)

theorem nvC_int_adm (o : Ops ℝ) : ∀ b ∈ [nvC_block], (fhbfIntCascade o 2).Adm b := by
  intro b hb
  rw [List.mem_singleton] at hb; subst hb
  exact fhbfIntCascade_adm _ 2 (by norm_num) _ (by decide)

/-- the depth-2 decimating cascade returns `8 / 2^2 = 2` items on that block (via `c20b_hbfdec_cascade_run`) -/
theorem nvC_dec_len (o : Ops ℝ) : ((fhbfDecCascade o 2).run o [nvC_block]).2.flatten.length = 2 := by
  have h := (c20b_hbfdec_cascade_run o (fhbfDecCascade o 2) (fhbfDecCascade_wf o 2 (by norm_num)) [nvC_block]
    (nvC_dec_adm o)).2.2.2
  have hdep : (fhbfDecCascade o 2).depth = 2 := rfl
  rw [List.length_flatten, h]
  simp [hdep, nvC_block]

/-- the depth-2 interpolating cascade returns `8 · 2^2 = 32` items on that block -/
theorem nvC_int_len (o : Ops ℝ) : ((fhbfIntCascade o 2).run o [nvC_block]).2.flatten.length = 32 := by
  have h := (c20b_hbfint_cascade_run o (fhbfIntCascade o 2) (fhbfIntCascade_wf o 2 (by norm_num)) [nvC_block]
    (nvC_int_adm o)).2.2.2
  have hdep : (fhbfIntCascade o 2).depth = 2 := rfl
  rw [List.length_flatten, h]
  simp [hdep, nvC_block]

/-- non-vacuity of `fhbf_dec_cascade_error`, `fhbf_cascade_exact_amplitude`: round-up binary32 model, depth 2, one
    block of 8 non-zero samples, `B = 1` -/
example : ∃ (F : FlModel (1 / 2 ^ 24)) (d : ℕ) (bs : List (List ℝ)) (B : ℝ),
    d ≤ 4 ∧ (∀ b ∈ bs, (fhbfDecCascade F.fhbfOps d).Adm b) ∧ 0 ≤ B ∧ (∀ x ∈ bs.flatten, |x| ≤ B) :=
  ⟨nvC_F, 2, [nvC_block], 1, by norm_num, nvC_dec_adm _, by norm_num, nvC_block_bound⟩

/-- non-vacuity of `fhbf_dec_cascade_error_f32`: the same run, output index `i = 1` (the run returns 2 items) -/
example : ∃ (F : FlModel (1 / 2 ^ 24)) (d : ℕ) (bs : List (List ℝ)) (B : ℝ) (i : ℕ),
    d ≤ 4 ∧ (∀ b ∈ bs, (fhbfDecCascade F.fhbfOps d).Adm b) ∧ 0 ≤ B ∧ (∀ x ∈ bs.flatten, |x| ≤ B) ∧
    i < ((fhbfDecCascade F.fhbfOps d).run F.fhbfOps bs).2.flatten.length ∧
    i < ((fhbfDecCascade fhbfExactOps d).run fhbfExactOps bs).2.flatten.length :=
  ⟨nvC_F, 2, [nvC_block], 1, 1, by norm_num, nvC_dec_adm _, by norm_num, nvC_block_bound,
    by rw [nvC_dec_len]; norm_num, by rw [nvC_dec_len]; norm_num⟩

/-- non-vacuity of `fhbf_int_cascade_error`: round-up binary32 model, depth 2, one block of 8 low-rate samples -/
example : ∃ (F : FlModel (1 / 2 ^ 24)) (d : ℕ) (bs : List (List ℝ)) (B : ℝ),
    d ≤ 4 ∧ (∀ b ∈ bs, (fhbfIntCascade F.fhbfOps d).Adm b) ∧ 0 ≤ B ∧ (∀ x ∈ bs.flatten, |x| ≤ B) :=
  ⟨nvC_F, 2, [nvC_block], 1, by norm_num, nvC_int_adm _, by norm_num, nvC_block_bound⟩

/-- non-vacuity of `fhbf_int_cascade_error_f32`: the same run, output index `i = 31` (the run returns 32 items) -/
example : ∃ (F : FlModel (1 / 2 ^ 24)) (d : ℕ) (bs : List (List ℝ)) (B : ℝ) (i : ℕ),
    d ≤ 4 ∧ (∀ b ∈ bs, (fhbfIntCascade F.fhbfOps d).Adm b) ∧ 0 ≤ B ∧ (∀ x ∈ bs.flatten, |x| ≤ B) ∧
    i < ((fhbfIntCascade F.fhbfOps d).run F.fhbfOps bs).2.flatten.length ∧
    i < ((fhbfIntCascade fhbfExactOps d).run fhbfExactOps bs).2.flatten.length :=
  ⟨nvC_F, 2, [nvC_block], 1, 31, by norm_num, nvC_int_adm _, by norm_num, nvC_block_bound,
    by rw [nvC_int_len]; norm_num, by rw [nvC_int_len]; norm_num⟩

/-! ### C15Fc: skipped
* `fhbf_cascade_constants` (`d ≤ 4`), `fhbf_cascade_error_db` (`1 ≤ d ≤ 4`): independent range facts on `d`. -/

/-! ## C15spec -/

/-- non-vacuity of `hbf_cascade_impulse_response_dec`: depth 3, the last input phase `p = 7 < 2^3` -/
example : ∃ d p : ℕ, 1 ≤ d ∧ d ≤ 4 ∧ p < 2 ^ d := ⟨3, 7, by norm_num, by norm_num, by norm_num⟩

/-- non-vacuity of `hbf_cascade_stopband_gain`: depth 3, `f = 2.5` (inside `[0.6, 2^(3-1)]`) -/
example : ∃ (d : ℕ) (f : ℝ), 1 ≤ d ∧ d ≤ 4 ∧ 3 / 5 ≤ f ∧ f ≤ 2 ^ (d - 1) :=
  ⟨3, 5 / 2, by norm_num, by norm_num, by norm_num, by norm_num⟩

theorem nvC_response_ne_zero : hbfCascadeResponse 1 1 ≠ 0 := by
  intro h
  have h1 := hbf_cascade_response_norm 1 (by norm_num) 1
  rw [h, norm_zero] at h1
  have := HbfSpec.gain1_one_lt
  have h0 : hbfCascadeGain 1 1 = 0 := abs_eq_zero.mp h1.symm
  rw [h0] at this
  norm_num at this

/-- non-vacuity of `hbf_cascade_stopband_sharp`, `hbf_cascade_stopband`: depth 1 at `f = 1` (the high-rate Nyquist
    frequency of the single stage, gain `≈ -8.7e-8 ≠ 0`).  NOTE: this is the only point at which the development
    proves the response non-zero; it is the upper END of the admissible range `[3/5, 2^(d-1)]` for `d = 1`. -/
example : ∃ (d : ℕ) (f : ℝ), 1 ≤ d ∧ d ≤ 4 ∧ 3 / 5 ≤ f ∧ f ≤ 2 ^ (d - 1) ∧ hbfCascadeResponse d f ≠ 0 :=
  ⟨1, 1, by norm_num, by norm_num, by norm_num, by norm_num, nvC_response_ne_zero⟩

/-! ### C15spec: skipped
* no hypotheses: `hbf_taps_are_binary32`, `hbf_cascade_bounds_tight`, `hbf_cascade_spec_full_holds`;
* independent range facts (`1 ≤ d`, `d ≤ 4`, `0 ≤ f ≤ 2/5`, any `ω`): `hbf_cascade_impulse_response_int`,
  `hbf_cascade_symmetric`, `hbf_cascade_span`, `hbf_cascade_dc_gain`, `hbf_cascade_response_factorisation`,
  `hbf_cascade_response_norm`, `hbf_cascade_passband_gain`, `hbf_cascade_passband_ripple_sharp`,
  `hbf_cascade_passband_ripple` (instantiated in the file, `C15spec.lean:229`). -/

/-! ## C02 -/

/-- non-vacuity of `divi_quotient_bound`: the first-octant pair `(1000, 3000)` -/
example : ∃ y x : Int, 0 ≤ y ∧ y ≤ x ∧ x < 2 ^ 31 := ⟨1000, 3000, by norm_num, by norm_num, by norm_num⟩

/-- non-vacuity of `atani_mono`: quotient fields `21845` (`= divi 1000 3000`) and `40000` -/
example : ∃ (q q' : Nat) (r r' : Int), q ≤ q' ∧ q' ≤ 65536 ∧
    atani .checked ((q : Int) * 2 ^ 15 + 2 ^ 14) = .ok r ∧ atani .checked ((q' : Int) * 2 ^ 15 + 2 ^ 14) = .ok r' :=
  ⟨21845, 40000, 219940176, 374594306, by norm_num, by norm_num, by decide +kernel, by decide +kernel⟩

/-- non-vacuity of `atani_release_eq_checked`: the argument `divi 1000 3000` -/
example : ∃ x v : Int, atani .checked x = .ok v := ⟨21845 * 2 ^ 15 + 2 ^ 14, 219940176, by decide +kernel⟩

/-- non-vacuity of `atan2_xor_masks`: the first-octant value of `atan2 1000 3000` -/
example : ∃ r : Int, 0 ≤ r ∧ r < 2 ^ 30 := ⟨219940176, by norm_num, by norm_num⟩

/-- non-vacuity of `atan2_quadrant`, `atan2_sign`, `atan2_half_plane`: a second-quadrant point -/
example : ∃ y x r : Int, inI 32 y = true ∧ inI 32 x = true ∧ atan2 .checked y x = .ok r :=
  ⟨1000, -3000, 2 ^ 31 - 1 - 219940176, by decide, by decide, by decide +kernel⟩

/-- non-vacuity of `atan2_reflect_x_axis`: `(y, x) = (1000, 3000)` -/
example : ∃ y x r : Int, inI 32 y = true ∧ inI 32 (-y) = true ∧ inI 32 x = true ∧ y ≠ 0 ∧
    atan2 .checked y x = .ok r :=
  ⟨1000, 3000, 219940176, by decide, by decide, by decide, by decide, by decide +kernel⟩

/-- non-vacuity of `atan2_reflect_y_axis`: `(y, x) = (1000, 3000)` -/
example : ∃ y x r : Int, inI 32 y = true ∧ inI 32 x = true ∧ inI 32 (-x) = true ∧ x ≠ 0 ∧
    atan2 .checked y x = .ok r :=
  ⟨1000, 3000, 219940176, by decide, by decide, by decide, by decide, by decide +kernel⟩

/-- non-vacuity of `atan2_reflect_diagonal`: `(y, x) = (1000, 3000)`, `|y| ≠ |x|` -/
example : ∃ y x r : Int, inI 32 y = true ∧ inI 32 x = true ∧ satAbs y ≠ satAbs x ∧ atan2 .checked y x = .ok r :=
  ⟨1000, 3000, 219940176, by decide, by decide, by decide, by decide +kernel⟩

/-- non-vacuity of `atan2_min_saturates`: `x = 1000` -/
example : ∃ x r : Int, inI 32 x = true ∧ atan2 .checked (2 ^ 31 - 1) x = .ok r :=
  ⟨1000, 1073736608, by decide, by decide +kernel⟩

/-- non-vacuity of `atan2_axis_offset`, `atan2_axes`: `a = 3000` -/
example : ∃ a : Int, 2 ≤ a ∧ a < 2 ^ 31 := ⟨3000, by norm_num, by norm_num⟩

/-! ### C02: skipped
* no hypotheses: `atani_at_zero`, `atan2_zero_zero`, `atan2_repaired_witness`, `atan2_reflect_x_axis_full_false`,
  `atan2_reflect_y_axis_full_false`, `atan2_reflect_diagonal_full_false`;
* independent range facts: `atani_range` (`q ≤ 65536`), `atan2_total`, `atan2_never_panics`,
  `atan2_release_eq_checked` (two `inI 32` facts; instantiated in the file, `C02.lean:114`). -/

/-! ## C01 -/

/-- non-vacuity of `cossin_range`, `cossin_quarter_turn`, `cossin_half_turn`, `cossin_conj`,
    `cossin_quadrant_mirror`: phase `2^30 + 5·2^20` (quadrant 1, bit 30 set) -/
example : ∃ p c s : Int, inI 32 p = true ∧ cossin .checked p = .ok (c, s) :=
  ⟨2 ^ 30 + 5 * 2 ^ 20, -16465097, 2147382887, by decide, by decide +kernel⟩

/-- non-vacuity of `cossin_quadrant_mirror_abs`: the same phase and its mirror `2^31 - 1 - 5·2^20` -/
example : ∃ p c s c' s' : Int, inI 32 p = true ∧ cossin .checked p = .ok (c, s) ∧
    cossin .checked (cossinMirror p) = .ok (c', s') :=
  ⟨2 ^ 30 + 5 * 2 ^ 20, -16465097, 2147382887, -2147382887, 16465097, by decide, by decide +kernel,
    by decide +kernel⟩

/-- non-vacuity of `cossin_depends_only_on_field`: two distinct phases of octant 1 that differ in the low 7 bits
    (last conjunct added: the phases are different) -/
example : ∃ p p' : Int, inI 32 p = true ∧ inI 32 p' = true ∧
    p % 2 ^ 32 / 2 ^ 29 = p' % 2 ^ 32 / 2 ^ 29 ∧ p % 2 ^ 29 / 2 ^ 7 = p' % 2 ^ 29 / 2 ^ 7 ∧ p ≠ p' :=
  ⟨2 ^ 29 + 123456789, 2 ^ 29 + 123456868, by decide, by decide, by decide, by decide, by decide⟩

/-- non-vacuity of `cossin_ignores_low7`: two distinct negative phases with the same `p / 128` (last conjunct added) -/
example : ∃ p p' : Int, inI 32 p = true ∧ inI 32 p' = true ∧ p / 128 = p' / 128 ∧ p ≠ p' :=
  ⟨-123456789, -123456800, by decide, by decide, by decide, by decide⟩

/-! ### C01: skipped
* independent range facts (`inI 32 p`, `0 ≤ field < 2^22`): `cossinCore_total_range`, `cossin_total`,
  `cossin_closed_form`, `cossin_mode_irrelevant`, `cossinMirror_is_xor`;
* `cossin_sum_zero`: hypothesis instantiated in the file (`C01.lean:147`, `g = cossinVal`);
* no hypotheses: `cossin_quadrant_mirror_literal_false`; `val_of_ok` is a private helper (same hypotheses as
  `cossin_range`). -/


/-! ## C17 -/

/-- non-vacuity of `overflowing_sub_exact`: `i32`, the wrap case of the pinned unit test -/
example : ∃ (w : Nat) (y x : Int), 0 < w ∧ inI w y = true ∧ inI w x = true :=
  ⟨32, -0x80000000, 1, by decide, by decide, by decide⟩

/-- non-vacuity of `unwrapper_step`, `unwrapper_tracks_last` (and of `unwrapper_sum`, whose hypotheses are the first
    two conjuncts): `Unwrapper<i64>` over `i32` samples, sample `i32::MIN` -/
example : ∃ (wq wp : Nat) (x : Int), 0 < wp ∧ wp ≤ wq ∧ inI wp x = true :=
  ⟨64, 32, -2 ^ 31, by decide, by decide, by decide⟩

/-- a phase ramp of `+2^30` per sample in `i32`: wraps twice through `i32::MAX → i32::MIN`, the `i64` accumulator
    unwraps it to `2^30, 2^31, 3·2^30, 2^32, 5·2^30` -/
def nvC_ramp : List Int := [2 ^ 30, -2 ^ 31, -2 ^ 30, 0, 2 ^ 30]

example : unwrapperRun 64 32 0 nvC_ramp = (5 * 2 ^ 30, [2 ^ 30, 2 ^ 30, 2 ^ 30, 2 ^ 30, 2 ^ 30]) := by decide +kernel

/-- non-vacuity of `unwrapper_sum_exact`: `Unwrapper<i64>` over `i32`, start `0`, the wrapping ramp above; every
    prefix keeps the accumulator and the exact sum inside `i64` -/
example : ∃ (wq wp : Nat) (y : Int) (xs : List Int),
    (∀ (pre : List Int), pre <+: xs →
      inI wq ((unwrapperRun wq wp y pre).1) = true ∧
      inI wq (y + (unwrapperRun wq wp y pre).2.sum) = true) ∧ 0 < wp ∧ wp ≤ wq := by
  refine ⟨64, 32, 0, nvC_ramp, ?_, by decide, by decide⟩
  intro pre hp
  have h : ∀ n, n < 6 → inI 64 ((unwrapperRun 64 32 0 (nvC_ramp.take n)).1) = true ∧
      inI 64 (0 + (unwrapperRun 64 32 0 (nvC_ramp.take n)).2.sum) = true := by decide +kernel
  rw [List.prefix_iff_eq_take.mp hp]
  exact h _ (Nat.lt_succ_of_le hp.length_le)

/-- non-vacuity of `accu_nth`: `i32`, start `i32::MAX` -/
example : ∃ (w : Nat) (start : Int), 0 < w ∧ inI w start = true := ⟨32, 2 ^ 31 - 1, by decide, by decide⟩

/-! ### C17: all theorems covered above (`unwrapperRun`, `accuNth` are definitions). -/

/-! ## C18 -/

/-- non-vacuity of `sat_scale_exact`: the value pinned by the crate's unit test (`shift = 8`, `hi = 0x7f`) -/
example : ∃ lo hi shift : Int, inI 32 lo = true ∧ inI 32 hi = true ∧ 1 ≤ shift ∧ shift ≤ 32 ∧
    (-(2 ^ (shift - 1).toNat) < hi ∧ hi < 2 ^ (shift - 1).toNat) :=
  ⟨0x12345600, 0x7f, 8, by decide, by decide, by decide, by decide, by decide⟩

/-- non-vacuity of `sat_scale_monotone_le16`: `shift = 16`, the step from the last saturated `hi = -2^15` (with
    `lo = i32::MAX`) to the first unsaturated `hi = -2^15 + 1` (with `lo = i32::MIN`) — the pair that breaks
    monotonicity for `shift ≥ 17` -/
example : ∃ lo hi lo' hi' shift : Int, inI 32 lo = true ∧ inI 32 hi = true ∧ inI 32 lo' = true ∧
    inI 32 hi' = true ∧ 1 ≤ shift ∧ shift ≤ 16 ∧ (hi < hi' ∨ (hi = hi' ∧ lo ≤ lo')) :=
  ⟨2 ^ 31 - 1, -2 ^ 15, -2 ^ 31, -2 ^ 15 + 1, 16, by decide, by decide, by decide, by decide, by decide, by decide,
    by decide⟩

/-- the second disjunct of the order hypothesis of `sat_scale_monotone_le16` as well: equal `hi`, `lo ≤ lo'` -/
example : ∃ lo hi lo' hi' shift : Int, inI 32 lo = true ∧ inI 32 hi = true ∧ inI 32 lo' = true ∧
    inI 32 hi' = true ∧ 1 ≤ shift ∧ shift ≤ 16 ∧ (hi = hi' ∧ lo ≤ lo') :=
  ⟨-5, 0x7f, 0x12345600, 0x7f, 8, by decide, by decide, by decide, by decide, by decide, by decide, by decide⟩

/-- both antecedents inside `sat_scale_clip` are satisfiable together with its hypotheses (`shift = 8`: the two
    saturating values of the crate's unit test) -/
example : ∃ lo hi hi' shift : Int, inI 32 lo = true ∧ inI 32 hi = true ∧ inI 32 hi' = true ∧ 1 ≤ shift ∧
    shift ≤ 32 ∧ hi ≤ -(2 ^ (shift - 1).toNat) ∧ 2 ^ (shift - 1).toNat ≤ hi' :=
  ⟨0, -0x80, 0x80, 8, by decide, by decide, by decide, by decide, by decide, by decide, by decide⟩

/-- … but at `shift = 32` the upper antecedent `2^31 ≤ hi` of `sat_scale_clip` contradicts `inI 32 hi`: the second
    conjunct of the conclusion is vacuous there (the lower one is met by `hi = i32::MIN` only, as the doc comment of
    the theorem says) -/
theorem nvC_sat_scale_clip_upper_vacuous_at_32 (hi : Int) (hhi : inI 32 hi = true) :
    ¬ ((2 : Int) ^ ((32 : Int) - 1).toNat ≤ hi) := by
  have := (inI_iff.mp hhi).2
  simp only [show (32 : Nat) - 1 = 31 from rfl] at this
  intro h
  have e : ((32 : Int) - 1).toNat = 31 := by decide
  rw [e] at h
  omega

/-! ### C18: skipped
* independent range facts (`inI 32 lo`, `inI 32 hi`, `1 ≤ shift ≤ 32` resp. `17 ≤ shift ≤ 32`):
  `sat_scale_closed_form`, `sat_scale_clip` (antecedents of its conclusion treated above), `sat_scale_total`,
  `sat_scale_not_monotone_ge17`, `sat_scale_eq_val`, `sat_scale_shift32_min_is_zero`; the private helpers
  `shift_cases`, `closed_aux0 … closed_aux7` (sub-ranges `1..4, 5..8, …, 29..32` of the shift);
* no hypotheses: `sat_scale_contract`. -/

/-! ## C05 -/

/-- non-vacuity of `macc_exact` (and of `macc_release_wrap`, whose hypotheses are all but the last one; and of
    `c20_macc` in `C20.lean`, same hypotheses for the checked profile): `i32`/Q2.30, offset `u = 0.75`, a negative
    accumulator input, limits `±1.0` aligned to the two guard bits, remainder `e1 = 12345` -/
example : ∃ (w q : Nat) (u s mn mx e1 : Int), 0 < w ∧ q ≤ w ∧ inI w u = true ∧ inI w mn = true ∧
    inI w mx = true ∧ mn % 2 ^ (w - q) = 0 ∧ mx % 2 ^ (w - q) = 2 ^ (w - q) - 1 ∧ 0 ≤ e1 ∧ e1 < 2 ^ q ∧
    inI (2 * w) (s + u * 2 ^ q + e1) = true :=
  ⟨32, 30, 3 * 2 ^ 28, -(5 * 2 ^ 58) + 77, -2 ^ 30, 2 ^ 30 - 1, 12345, by decide, by decide, by decide, by decide,
    by decide, by decide, by decide, by decide, by decide, by decide⟩

/-- non-vacuity of `macc_exact_instances`: the `i8`/Q2.6 evaluation of the file (`u = 5, s = 100, e1 = 35`) -/
example : ∃ (w q : Nat) (u s mn mx e1 : Int),
    ((w, q) = (8, 6) ∨ (w, q) = (16, 14) ∨ (w, q) = (32, 30) ∨ (w, q) = (64, 62)) ∧
    inI w u = true ∧ inI w mn = true ∧ inI w mx = true ∧ mn % 2 ^ 2 = 0 ∧ mx % 2 ^ 2 = 2 ^ 2 - 1 ∧
    0 ≤ e1 ∧ e1 < 2 ^ q ∧ inI (2 * w) (s + u * 2 ^ q + e1) = true :=
  ⟨8, 6, 5, 100, -128, 127, 35, by decide, by decide, by decide, by decide, by decide, by decide, by decide,
    by decide, by decide⟩

/-- non-vacuity of `macc_checked_overflow`: `i8`/Q2.6, `s + 5·64 + 35 = 33055` is not an `i16` although the
    accumulator input `s = 32700` is one (last conjunct, added: the theorem leaves `s` unconstrained) -/
example : ∃ (w q : Nat) (u s e1 : Int), 0 < w ∧ q ≤ w ∧ inI w u = true ∧ 0 ≤ e1 ∧ e1 < 2 ^ q ∧
    inI (2 * w) (s + u * 2 ^ q + e1) = false ∧ inI (2 * w) s = true :=
  ⟨8, 6, 5, 32700, 35, by decide, by decide, by decide, by decide, by decide, by decide, by decide⟩

/-- non-vacuity of `macc_any_e1`: `i8`/Q2.6, `u = 5` (low guard bits `01`), `s = 100`, `e1 = -1` (read as `255`;
    the bit-or with `64` is `255`, total `100 + 256 + 255 = 611`) -/
example : ∃ (w q : Nat) (u s mn mx e1 : Int), 0 < w ∧ q ≤ w ∧ inI w u = true ∧ inI w mn = true ∧
    inI w mx = true ∧ mn % 2 ^ (w - q) = 0 ∧ mx % 2 ^ (w - q) = 2 ^ (w - q) - 1 ∧
    inI (2 * w) (s + (u / 2 ^ (w - q) * 2 ^ w + lorU (u % 2 ^ (w - q) * 2 ^ q) (e1 % 2 ^ w))) = true :=
  ⟨8, 6, 5, 100, -128, 127, -1, by decide, by decide, by decide, by decide, by decide, by decide, by decide,
    by decide⟩

/-- non-vacuity of `mul_scaled_exact`, `mul_scaled_one` (first four conjuncts), `c20_mul_div`: `i32`/Q2.30,
    `a = -1.5`, `b = 0.75`; the product is representable, so the inner antecedent of `mul_scaled_exact` holds too -/
example : ∃ (w q : Nat) (a b : Int), 0 < q ∧ q < w ∧ inI w a = true ∧ inI w b = true ∧
    inI w ((a * b + 2 ^ (q - 1)) / 2 ^ q) = true :=
  ⟨32, 30, -3 * 2 ^ 29, 3 * 2 ^ 28, by decide, by decide, by decide, by decide, by decide⟩

/-- non-vacuity of `div_scaled_exact` including the antecedents `b ≠ 0`, "quotient representable":
    `i32`/Q2.30, `0.75 / (-1.5) = -0.5` -/
example : ∃ (w q : Nat) (a b : Int), 0 < w ∧ q ≤ w ∧ inI w a = true ∧ b ≠ 0 ∧
    inI w (Int.tdiv (a * 2 ^ q) b) = true :=
  ⟨32, 30, 3 * 2 ^ 28, -3 * 2 ^ 29, by decide, by decide, by decide, by decide, by decide⟩

/-- non-vacuity of `neg_two_representable`: `i32`/Q2.30 -/
example : ∃ w q : Nat, q + 2 = w := ⟨32, 30, rfl⟩

/-! ### C05: skipped
* no hypotheses: `clip_spec`; independent range fact: `half_one` (`0 < q`). -/

end Idsp
