use idsp::*;
fn main() {
    let mut cnt=[0u64;3]; let mut ex: Vec<Vec<(i32,i32,i32,i32)>> = vec![vec![],vec![],vec![]];
    for x in 1..=3000i32 { for y in 0..=x { if x==3 && y==3 {continue;}
        let a = atan2(y, x);
        let ax = atan2(-y, x); if (ax.wrapping_add(a)).abs() > 1 { cnt[0]+=1; if ex[0].len()<8 {ex[0].push((y,x,a,ax));} }
        let ay = atan2(y, -x); if (ay.wrapping_add(a).wrapping_sub(i32::MIN)).abs() > 1 { cnt[1]+=1; if ex[1].len()<20 {ex[1].push((y,x,a,ay));} }
        if y != x { let ad = atan2(x, y); if (ad.wrapping_add(a).wrapping_sub(1<<30)).abs() > 1 { cnt[2]+=1; if ex[2].len()<8 {ex[2].push((y,x,a,ad));} } }
    }}
    println!("{:?}\n{:?}", cnt, ex);
    for (y,x) in [(0,1),(0,5),(1,0),(0,-1),(-1,0),(0,-5),(-1,-5),(1,-5),(i32::MIN,1),(1,i32::MIN),(i32::MIN,i32::MIN),(i32::MAX,i32::MIN),(0,i32::MIN),(i32::MIN,0),(-1,i32::MIN), (1,1),(-1,1),(1,-1),(-1,-1)] {
        println!("atan2({},{}) = {}", y, x, atan2(y,x));
    }
}
