import IdspModel.Lemmas.NumMacc
namespace Idsp

/-- the product of two `w`-bit values fits `2w` bits, with `2^(2w-2)` to spare -/
theorem mul_bounds {w : Nat} {a b : Int} (ha : inI w a = true) (hb : inI w b = true) :
    -(2 ^ (w - 1) * 2 ^ (w - 1)) < a * b ∧ a * b ≤ 2 ^ (w - 1) * 2 ^ (w - 1) := by
  have ⟨a0, a1⟩ := inI_iff.mp ha
  have ⟨b0, b1⟩ := inI_iff.mp hb
  have hH := two_pow_pos (w - 1)
  constructor <;> nlinarith [mul_nonneg (sub_nonneg.mpr a0) (sub_nonneg.mpr b0)]

theorem two_pow_two_mul_pred' {w : Nat} (hw : 0 < w) :
    (2 : Int) ^ (2 * w - 1) = 2 * (2 ^ (w - 1) * 2 ^ (w - 1)) := by
  rw [two_pow_two_mul_pred hw, two_pow_succ_pred hw]; ring

theorem inI_mul {w : Nat} (hw : 0 < w) {a b : Int} (ha : inI w a = true) (hb : inI w b = true) :
    inI (2 * w) (a * b) = true := by
  have ⟨h0, h1⟩ := mul_bounds ha hb
  have hH := two_pow_pos (w - 1)
  rw [inI_iff, two_pow_two_mul_pred' hw]
  constructor <;> nlinarith

/-- `mul_scaled` never overflows the accumulator -/
theorem mulScaled_eq (m : Mode) {w q : Nat} (hq0 : 0 < q) (hq : q < w) {a b : Int}
    (ha : inI w a = true) (hb : inI w b = true) :
    mulScaled m w q a b = .ok (wrapI w ((a * b + 2 ^ (q - 1)) / 2 ^ q)) := by
  have hw : 0 < w := by omega
  have ⟨h0, h1⟩ := mul_bounds ha hb
  have hH := two_pow_pos (w - 1)
  have hr := two_pow_pos (q - 1)
  have hrH : (2 : Int) ^ (q - 1) < 2 ^ (w - 1) := by
    have h1 : (2 : Int) ^ q ≤ 2 ^ (w - 1) := two_pow_mono (by omega)
    have h2 := two_pow_succ_pred hq0
    omega
  have hHH : (2 : Int) ^ (w - 1) ≤ 2 ^ (w - 1) * 2 ^ (w - 1) := by nlinarith
  have hin2 : inI (2 * w) (2 ^ (q - 1) + a * b) = true := by
    rw [inI_iff, two_pow_two_mul_pred' hw]
    constructor <;> nlinarith
  unfold mulScaled
  rw [arithI_ok_of_in (inI_mul hw ha hb), ok_bind, arithI_ok_of_in hin2, ok_bind, Int.add_comm]; rfl

theorem half_div {q : Nat} (hq0 : 0 < q) : (2 : Int) ^ (q - 1) / 2 ^ q = 0 := by
  have := two_pow_succ_pred hq0
  have := two_pow_pos (q - 1)
  apply Int.ediv_eq_zero_of_lt <;> omega

theorem inI_mul_one {w q : Nat} (hq : q ≤ w) {x : Int} (hx : inI w x = true) :
    inI (2 * w) (x * 2 ^ q) = true := by
  have ⟨h0, h1⟩ := inI_iff.mp hx
  have hP := two_pow_pos q
  have hle : (2 : Int) ^ q ≤ 2 ^ w := two_pow_mono hq
  by_cases hw : 0 < w
  · rw [inI_iff, two_pow_two_mul_pred hw]
    have hH := two_pow_pos (w - 1)
    constructor <;> nlinarith
  · have : w = 0 := by omega
    subst this
    have : q = 0 := by omega
    subst this
    simpa using hx

theorem divScaled_eq {w q : Nat} (hw : 0 < w) (hq : q ≤ w) {a b : Int} (ha : inI w a = true) (hb : b ≠ 0) :
    divScaled w q a b = .ok (wrapI w (Int.tdiv (a * 2 ^ q) b)) := by
  unfold divScaled
  rw [if_neg hb, wrapI_of_in (by omega) (inI_mul_one hq ha)]

end Idsp
