import IdspModel.Model.Cic
import IdspModel.Lemmas.CicSeq
import IdspModel.Lemmas.CicDec
import IdspModel.Lemmas.CicInt
import IdspModel.Lemmas.CicGain
/-!
# CIC interpolator: constant input, step response and `settle_interpolate` (C13 g, h)
-/
namespace Idsp

/-! ## constant / two-level low-rate input -/

theorem ext_const (c : Int) : ext (fun _ => c) = stepSeq c := by
  funext t; unfold ext stepSeq; rfl

theorem seqHold_stepSeq {R : Nat} (hR : 0 < R) (c : Int) : seqHold R (stepSeq c) = stepSeq c := by
  funext t
  unfold seqHold stepSeq
  by_cases h : t < 0
  · have := Int.ediv_neg_of_neg_of_pos h (show (0 : Int) < R by omega)
    simp [h, this]
  · have := Int.ediv_nonneg (show 0 ≤ t by omega) (show (0 : Int) ≤ R by omega)
    have h' : ¬ (t / (R : Int) < 0) := by omega
    simp [h, h']

/-- constant input `c` from the zero state: the exact output is `c` times the unit step response -/
theorem intSpec_const {N R : Nat} (hR : 0 < R) (c : Int) (t : Int) :
    intSpec N R (fun _ => c) t = c * stepResp R N t := by
  unfold intSpec
  rw [ext_const, seqHold_stepSeq hR, opPow_seqB_step]

/-- delayed sequence -/
def seqShift (d : Int) (y : Int → Int) (t : Int) : Int := y (t - d)

theorem seqB_add (R : Nat) (y z : Int → Int) :
    seqB R (fun t => y t + z t) = fun t => seqB R y t + seqB R z t := by
  funext t; unfold seqB; rw [← sumTo_add]

theorem opPow_seqB_add (R n : Nat) (y z : Int → Int) :
    opPow (seqB R) n (fun t => y t + z t) = fun t => opPow (seqB R) n y t + opPow (seqB R) n z t := by
  induction n with
  | zero => rfl
  | succ n ih =>
    show seqB R (opPow (seqB R) n _) = fun t => seqB R (opPow (seqB R) n y) t + seqB R (opPow (seqB R) n z) t
    rw [ih, seqB_add]

theorem seqB_shift (R : Nat) (d : Int) (y : Int → Int) : seqB R (seqShift d y) = seqShift d (seqB R y) := by
  funext t; unfold seqB seqShift
  apply sumTo_congr
  intro i _
  have : t - (i : Int) - d = t - d - i := by omega
  rw [this]

theorem opPow_seqB_shift (R n : Nat) (d : Int) (y : Int → Int) :
    opPow (seqB R) n (seqShift d y) = seqShift d (opPow (seqB R) n y) := by
  induction n with
  | zero => rfl
  | succ n ih =>
    show seqB R (opPow (seqB R) n _) = seqShift d (seqB R (opPow (seqB R) n y))
    rw [ih, seqB_shift]

/-- two-level input: `x0` for the first `K` low-rate samples, then `x1` -/
def twoLevel (K : Nat) (x0 x1 : Int) (k : Nat) : Int := if k < K then x0 else x1

/-- exact output for the two-level input: superposition of two step responses -/
theorem intSpec_twoLevel {N R : Nat} (hR : 0 < R) (K : Nat) (x0 x1 : Int) (t : Int) :
    intSpec N R (twoLevel K x0 x1) t
      = x0 * stepResp R N t + (x1 - x0) * stepResp R N (t - (K * R : Nat)) := by
  have hdec : seqHold R (ext (twoLevel K x0 x1))
      = fun t => stepSeq x0 t + seqShift ((K * R : Nat) : Int) (stepSeq (x1 - x0)) t := by
    funext t
    unfold seqHold ext twoLevel stepSeq seqShift
    beta_reduce
    have hRpos : (0 : Int) < R := by omega
    by_cases h : t < 0
    · have h1 := Int.ediv_neg_of_neg_of_pos h hRpos
      have h2 : t - ((K * R : Nat) : Int) < 0 := by
        have : (0 : Int) ≤ ((K * R : Nat) : Int) := by omega
        omega
      rw [if_pos h1, if_pos h, if_pos h2]; rfl
    · have h1 := Int.ediv_nonneg (show 0 ≤ t by omega) (show (0 : Int) ≤ R by omega)
      have h1' : ¬ (t / (R : Int) < 0) := by omega
      rw [if_neg h1', if_neg h]
      -- t / R < K  ↔  t < K * R
      have hiff : (t / (R : Int)).toNat < K ↔ t - ((K * R : Nat) : Int) < 0 := by
        have e1 : (t / (R : Int)).toNat < K ↔ t / (R : Int) < K := by omega
        rw [e1, Int.ediv_lt_iff_lt_mul hRpos]
        push_cast; omega
      by_cases h3 : (t / (R : Int)).toNat < K
      · rw [if_pos h3, if_pos (hiff.mp h3)]; omega
      · have : ¬ (t - ((K * R : Nat) : Int) < 0) := fun hh => h3 (hiff.mpr hh)
        rw [if_neg h3, if_neg this]; omega
  unfold intSpec
  rw [hdec, opPow_seqB_add, opPow_seqB_shift]
  show opPow (seqB R) N (stepSeq x0) t + opPow (seqB R) N (stepSeq (x1 - x0)) (t - (K * R : Nat)) = _
  rw [opPow_seqB_step, opPow_seqB_step]

/-! ## vanishing of differenced steps -/

theorem opPow_add (f : (Int → Int) → (Int → Int)) (a b : Nat) (x : Int → Int) :
    opPow f (a + b) x = opPow f a (opPow f b x) := by
  induction a with
  | zero => simp [opPow]
  | succ a ih =>
    have : a + 1 + b = (a + b) + 1 := by omega
    rw [this]
    show f (opPow f (a + b) x) = f (opPow f a (opPow f b x))
    rw [ih]

/-- `D_R^i` of a step vanishes from `i·R` on (`i ≥ 1`) -/
theorem opPow_seqD_step_zero (R i : Nat) (c : Int) (t : Int) (ht : (((i + 1) * R : Nat) : Int) ≤ t) :
    opPow (seqD R) (i + 1) (stepSeq c) t = 0 := by
  induction i generalizing t with
  | zero =>
    show seqD R (stepSeq c) t = 0
    unfold seqD stepSeq
    simp only [Nat.zero_add, Nat.one_mul] at ht
    have h1 : ¬ t < 0 := by omega
    have h2 : ¬ t - (R : Int) < 0 := by omega
    simp [h1, h2]
  | succ i ih =>
    show opPow (seqD R) (i + 1) (stepSeq c) t - opPow (seqD R) (i + 1) (stepSeq c) (t - R) = 0
    have e : (((i + 1 + 1) * R : Nat) : Int) = (((i + 1) * R : Nat) : Int) + R := by push_cast; ring
    rw [ih t (by omega), ih (t - R) (by omega)]; rfl

theorem seqB_zero_from (R : Nat) (y : Int → Int) (L : Int) (h : ∀ t, L ≤ t → y t = 0) (t : Int)
    (ht : L + ((R : Int) - 1) ≤ t) : seqB R y t = 0 := by
  unfold seqB
  apply sumTo_eq_zero
  intro i hi
  apply h
  omega

theorem opPow_seqB_zero_from (R n : Nat) (y : Int → Int) (L : Int) (h : ∀ t, L ≤ t → y t = 0) (t : Int)
    (ht : L + n * ((R : Int) - 1) ≤ t) : opPow (seqB R) n y t = 0 := by
  induction n generalizing t with
  | zero => exact h t (by simpa using ht)
  | succ n ih =>
    show seqB R (opPow (seqB R) n y) t = 0
    apply seqB_zero_from R _ (L + n * ((R : Int) - 1)) ih
    have : ((n + 1 : Nat) : Int) * ((R : Int) - 1) = n * ((R : Int) - 1) + ((R : Int) - 1) := by
      push_cast; ring
    omega

/-- inner integrators come back to zero: for `1 ≤ j < N` and `t ≥ N·R - 1`, integrator `j` (exact value) is `0`
    when the input is a constant -/
theorem inner_integ_zero {N R : Nat} (hR : 0 < R) (c : Int) (j : Nat) (hj1 : 1 ≤ j) (hjN : j < N) (t : Int)
    (ht : (N : Int) * R - 1 ≤ t) :
    opPow seqS j (intZoh N R (stepSeq c)) t = 0 := by
  obtain ⟨i, rfl⟩ : ∃ i, N = j + (i + 1) := ⟨N - j - 1, by omega⟩
  unfold intZoh
  rw [seqHold_opPow_D_one hR, seqHold_stepSeq hR, opPow_add,
    opPow_S_D R j (causal_opPow_D R (i + 1) (causal_stepSeq c))]
  apply opPow_seqB_zero_from R j _ ((((i + 1) * R : Nat) : Int))
  · intro t ht; exact opPow_seqD_step_zero R i c t ht
  · have e : (((j + (i + 1) : Nat) : Int)) * (R : Int) = (((i + 1) * R : Nat) : Int) + j * ((R : Int) - 1) + j := by
      push_cast; ring
    rw [e] at ht
    omega

/-! ## the settled state -/

/-- the state `settle_interpolate(x)` builds (with last integrator `G`), at counter `idx` -/
def settledState (N : Nat) (rate idx x G : Int) : Cic :=
  match N with
  | 0 => { rate := rate, index := idx, zoh := x, combs := [], integrators := [] }
  | k + 1 => { rate := rate, index := idx, zoh := 0, combs := x :: List.replicate k 0,
               integrators := List.replicate k 0 ++ [G] }

theorem listSetLast_replicate (k : Nat) (v : Int) :
    listSetLast (List.replicate (k + 1) 0) v = List.replicate k 0 ++ [v] := by
  induction k with
  | zero => rfl
  | succ k ih =>
    show listSetLast (0 :: 0 :: List.replicate k 0) v = 0 :: (List.replicate k 0 ++ [v])
    rw [listSetLast]
    congr 1

/-- what `settle_interpolate(x)` returns when it does not panic (overflow checks on) -/
theorem settleInterpolate_checked_ok {w : Nat} {s s' : Cic} {x : Int}
    (h : s.settleInterpolate .checked w x = .ok s') :
    ∃ g, g = (wrapI w s.rate + 1) ^ s.combs.length ∧ inI w g = true ∧
      (s.combs.length ≠ 0 → inI w (x * g) = true) ∧
      s' = settledState s.combs.length s.rate 0 x (x * g) := by
  unfold Cic.settleInterpolate at h
  cases hN : s.combs.length with
  | zero =>
    simp only [Cic.clear, Cic.new, hN, List.replicate] at h
    cases hg : Cic.gain .checked w
        { rate := s.rate, index := 0, zoh := x, combs := [], integrators := [] } with
    | error e => rw [hg] at h; cases h
    | ok g =>
      rw [hg] at h
      have := gain_checked_ok hg
      simp only [bind, Except.bind] at h
      cases h
      refine ⟨g, by simpa using this.1, this.2.2, by intro h; exact absurd rfl h, rfl⟩
  | succ k =>
    simp only [Cic.clear, Cic.new, hN, List.replicate] at h
    cases hg : Cic.gain .checked w
        { rate := s.rate, index := 0, zoh := 0, combs := x :: List.replicate k 0,
          integrators := 0 :: List.replicate k 0 } with
    | error e => rw [hg] at h; cases h
    | ok g =>
      rw [hg] at h
      have hgain := gain_checked_ok hg
      simp only [bind, Except.bind] at h
      rcases arithI_checked_cases w "cic.rs:115 x * g" (x * g) with ⟨hin, e⟩ | ⟨_, e⟩
      · rw [e] at h
        cases h
        refine ⟨g, by simpa using hgain.1, hgain.2.2, fun _ => hin, ?_⟩
        show _ = settledState (k + 1) s.rate 0 x (x * g)
        unfold settledState
        simp only
        congr 1
        exact listSetLast_replicate k (x * g)
      · rw [e] at h; cases h

theorem inI_zero (w : Nat) : inI w 0 = true := by
  rw [inI_iff]; have := two_pow_pos (w - 1); omega

theorem combsChk_zeros (m : Mode) (w k : Nat) :
    combsChk m w (List.replicate k 0) 0 = .ok (List.replicate k 0, 0) := by
  induction k with
  | zero => rfl
  | succ k ih =>
    show combsChk m w (0 :: List.replicate k 0) 0 = _
    unfold combsChk
    rw [show (0 : Int) - 0 = 0 from rfl, arithI_ok_of_in (inI_zero w)]
    simp only [bind, Except.bind, ih]
    rfl

theorem integChk_settled (m : Mode) (w k : Nat) (G : Int) (hG : inI w G = true) :
    integChk m w (List.replicate k 0 ++ [G]) 0 = .ok (List.replicate k 0 ++ [G], G) := by
  induction k with
  | zero =>
    show integChk m w [G] 0 = _
    unfold integChk
    rw [show G + 0 = G by omega, arithI_ok_of_in hG]
    rfl
  | succ k ih =>
    show integChk m w (0 :: (List.replicate k 0 ++ [G])) 0 = _
    unfold integChk
    rw [show (0 : Int) + 0 = 0 from rfl, arithI_ok_of_in (inI_zero w)]
    simp only [bind, Except.bind, ih]
    rfl

/-- feeding `Some x` to the settled state at a tick: nothing changes but the counter; output `G` -/
theorem settled_step_some (m : Mode) (w N : Nat) (rate x G : Int) (hG : inI w G = true)
    (hG0 : N = 0 → G = x) :
    (settledState N rate 0 x G).interpolate m w (some x) = .ok (settledState N rate rate x G, G) := by
  cases N with
  | zero =>
    rw [hG0 rfl]
    rw [interpolate_some_eq m w _ x rfl]
    rfl
  | succ k =>
    rw [interpolate_some_eq m w _ x rfl]
    have hc : combsChk m w (x :: List.replicate k 0) x = .ok (x :: List.replicate k 0, 0) := by
      unfold combsChk
      rw [show x - x = 0 by omega, arithI_ok_of_in (inI_zero w)]
      simp only [bind, Except.bind, combsChk_zeros]
    simp only [settledState, hc, integChk_settled m w k G hG]

/-- `None` on the settled state between ticks: only the counter moves; output `G` -/
theorem settled_step_none (m : Mode) (w N : Nat) (rate idx x G : Int) (hG : inI w G = true)
    (hG0 : N = 0 → G = x) (h1 : 1 ≤ idx) (h2 : idx ≤ 2 ^ 32) :
    (settledState N rate idx x G).interpolate m w none = .ok (settledState N rate (idx - 1) x G, G) := by
  cases N with
  | zero =>
    rw [hG0 rfl]
    rw [interpolate_none_eq m w _ h1 h2]
    rfl
  | succ k =>
    rw [interpolate_none_eq m w _ h1 h2]
    simp only [settledState, integChk_settled m w k G hG]

theorem settledState_tick (N : Nat) (rate idx x G : Int) :
    (settledState N rate idx x G).tick = decide (idx = 0) := by
  cases N <;> rfl

/-- one full low-rate period from the settled state, obeying the contract: after `t` calls (`1 ≤ t ≤ R`) the
    data is unchanged, the counter is `rate - (t-1)`, one sample was consumed, all outputs are `G` -/
theorem settled_run (m : Mode) (w N : Nat) (rate : Nat) (hr : rate < 2 ^ 32) (x G : Int) (hG : inI w G = true)
    (hG0 : N = 0 → G = x) (t : Nat) (ht : t ≤ rate) :
    Cic.interpAuto m w (settledState N rate 0 x G) (fun _ => x) (t + 1)
      = .ok (settledState N rate ((rate : Int) - t) x G, 1, List.replicate (t + 1) G) := by
  induction t with
  | zero =>
    simp only [Cic.interpAuto, settledState_tick, decide_true, if_true,
      settled_step_some m w N rate x G hG hG0]
    simp
  | succ t ih =>
    rw [Cic.interpAuto, ih (by omega)]
    have hne : ¬ ((rate : Int) - t = 0) := by omega
    simp only [settledState_tick, hne, decide_false, Bool.false_eq_true, if_false]
    rw [settled_step_none m w N rate _ x G hG hG0 (by omega) (by
      have : ((2 : Int) ^ 32) = 4294967296 := by norm_num
      have : (rate : Int) < 4294967296 := by
        have : (2 : Nat) ^ 32 = 4294967296 := by norm_num
        omega
      omega)]
    simp only
    have e1 : (rate : Int) - t - 1 = (rate : Int) - ((t + 1 : Nat) : Int) := by push_cast; omega
    have e2 : List.replicate (t + 1) G ++ [G] = List.replicate (t + 1 + 1) G := by
      rw [← List.replicate_succ']
    rw [e1, e2]

/-! ## reaching the settled state from zero -/

theorem seqList_snoc (f : Nat → Int) (k n : Nat) : seqList f k (n + 1) = seqList f k n ++ [f (k + n)] := by
  induction n generalizing k with
  | zero => simp [seqList]
  | succ n ih =>
    rw [seqList, ih (k + 1)]
    simp only [seqList, List.cons_append]
    have : k + 1 + n = k + (n + 1) := by omega
    rw [this]

/-- uniqueness of the decomposition `t = m·R + r`, `1 ≤ r ≤ R` -/
theorem decomp_unique {R : Nat} (hR : 0 < R) {t m r : Int} (ht : t = m * R + r) (h1 : 1 ≤ r) (h2 : r ≤ R)
    {K : Int} (hK : t = K * R) : m = K - 1 ∧ r = R := by
  have a := (Int.ediv_emod_unique (a := t - 1) (b := (R : Int)) (r := r - 1) (q := m) (by omega)).mpr
    ⟨by rw [ht]; ring, by omega, by omega⟩
  have b := (Int.ediv_emod_unique (a := t - 1) (b := (R : Int)) (r := (R : Int) - 1) (q := K - 1) (by omega)).mpr
    ⟨by rw [hK]; ring, by omega, by omega⟩
  constructor
  · rw [← a.1, ← b.1]
  · have := a.2.symm.trans b.2; omega

/-- from the zero state, after `K ≥ N + 1` low-rate periods of constant input `x` the (exact) invariant state
    is the settled state with last integrator `x·R^N` -/
theorem intInv_const_settled {N R : Nat} (hR : 0 < R) (x : Int) (K : Nat) (hK : N + 1 ≤ K) {s : Cic}
    (h : IntInv N R (stepSeq x) s ((K : Int) - 1) R) :
    s = settledState N ((R : Int) - 1) 0 x (x * (R : Int) ^ N) := by
  have hKR : ((N : Int) + 1) * R ≤ (K : Int) * R :=
    Int.mul_le_mul_of_nonneg_right (by omega) (by omega)
  have hNR : ((N : Int) + 1) * R = N * R + R := by ring
  have hstep0 : ∀ j : Nat, 1 ≤ j → j ≤ N → opPow (seqD 1) j (stepSeq x) ((K : Int) - 1) = 0 := by
    intro j hj1 hjN
    obtain ⟨i, rfl⟩ : ∃ i, j = i + 1 := ⟨j - 1, by omega⟩
    apply opPow_seqD_step_zero 1 i x
    push_cast; omega
  have hidx : s.index = 0 := by rw [h.index]; omega
  have htime : ((K : Int) - 1) * R + R - 1 = K * R - 1 := by ring
  cases N with
  | zero =>
    have hc : s.combs = [] := h.combs
    have hi : s.integrators = [] := h.ints
    have hz : s.zoh = x := by
      rw [h.zoh]; show stepSeq x _ = x
      unfold stepSeq; rw [if_neg (by omega)]
    cases s
    simp only at hc hi hz hidx
    have hrate := h.rate
    simp only at hrate
    subst hc hi hz hidx hrate
    rfl
  | succ k =>
    have hc : s.combs = x :: List.replicate k 0 := by
      rw [h.combs, seqList]
      congr 1
      · show stepSeq x _ = x
        unfold stepSeq; rw [if_neg (by omega)]
      · rw [seqList_congr (g := fun _ => 0), seqList_const _ _ (fun _ => rfl)]
        intro j hj1 hj2
        exact hstep0 j (by omega) (by omega)
    have hz : s.zoh = 0 := by rw [h.zoh]; exact hstep0 (k + 1) (by omega) (by omega)
    have hi : s.integrators = List.replicate k 0 ++ [x * (R : Int) ^ (k + 1)] := by
      rw [h.ints, seqList_snoc, htime]
      congr 1
      · rw [seqList_congr (g := fun _ => 0), seqList_const _ _ (fun _ => rfl)]
        intro j hj1 hj2
        apply inner_integ_zero hR x j (by omega) (by omega)
        push_cast at hKR hNR ⊢
        omega
      · congr 1
        have hb := intOut_eq_box (N := k + 1) hR (causal_stepSeq x)
        have e1 : 1 + k = k + 1 := by omega
        rw [e1, hb, seqHold_stepSeq hR, opPow_seqB_step]
        congr 1
        apply stepResp_settled
        · push_cast at hKR hNR ⊢
          have : ((R : Int) - 1) * ((k : Int) + 1) = ((k : Int) + 1) * R - (k + 1) := by ring
          rw [this]; omega
        · push_cast at hKR hNR ⊢
          have : (0 : Int) ≤ (k + 1) * R := Int.mul_nonneg (by omega) (by omega)
          omega
    cases s
    simp only at hc hi hz hidx
    have hrate := h.rate
    simp only at hrate
    subst hc hi hz hidx hrate
    rfl

end Idsp
