#!/bin/sh
# builds the compiled model driver and every property module (each Props/Cxx.lean is its own root:
# helper lemma files of different properties may reuse names, so they are never imported together)
cd "$(dirname "$0")" || exit 1
mods=$(ls IdspModel/Props/*.lean | sed -e 's#/#.#g' -e 's#\.lean$##')
exec lake build idsp_model $mods
