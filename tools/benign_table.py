#!/usr/bin/env python3
"""Prints the markdown table of behaviour-preserving refactors (from benign/*/meta.json) for DESIGN.md section 11."""
import glob, json, os
rows = []
for f in sorted(glob.glob(os.path.join(os.path.dirname(__file__), "..", "benign", "*", "meta.json"))):
    m = json.load(open(f))
    d = os.path.dirname(f)
    notes = ""
    if os.path.exists(os.path.join(d, "notes.md")):
        notes = " ".join(l.strip() for l in open(os.path.join(d, "notes.md")).read().splitlines() if l.strip() and not l.startswith("#"))
    if len(notes) > 260: notes = notes[:257] + "..."
    notes = notes.replace("|", "/")
    res = "; ".join(f"{p}: {'quiet' if c['quiet'] else 'ALARM (exit %d)' % c['exit']}" for p, c in m.get("checks", {}).items())
    rows.append(f"| {m['name']} | {', '.join(m['files'])} | {notes} | {res} |")
print("| refactor | files | what was rewritten | checks |\n|---|---|---|---|")
print("\n".join(rows))
