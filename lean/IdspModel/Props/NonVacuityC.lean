import IdspModel.Props.NonVacuityC1
import IdspModel.Props.NonVacuityC2
/-!
# Non-vacuity audit, part C

Assigned property files, in this order: `C15Fc`, `C15spec`, `C02`, `C01`, `C17`, `C18`, `C05`
(`NonVacuityC1.lean`) and `C20`, `C20b` (`NonVacuityC2.lean`).  Each file has its own section `/-! ## Cxx -/` with the
`example`s (one common witness of all hypotheses of a theorem, hypotheses copied in the theorem's order) and a
`/-! ### Cxx: skipped -/` comment naming every remaining theorem with the reason (no hypotheses / independent range
facts / already instantiated in its own file at the quoted line).

Instances that had to be BUILT because the development contained none:
* `nvC_fits_comb`, `nvC_fits_integ` — the two `∀ (time : Int)` "exact recursion fits" hypotheses of
  `c20b_cic_interpolate_fits` (= `interpolate_ok_of_fits`, C13) for `i16`, order 2, rate 3, constant input 7;
* the prefix-closed fit hypothesis of `unwrapper_sum_exact` on a phase ramp that wraps twice;
* joint witnesses (rounding model + depth + admissible block list + amplitude bound + output index in range) for the
  five cascade theorems of `C15Fc` (`nvC_F`, `nvC_block`, `nvC_dec_len`, `nvC_int_len`);
* a panicking tick-driven CIC run for `c20_cic_interpolate` (its hypothesis is that the run returns `.error`).
-/

/-! ## Suspected vacuous / only degenerately satisfiable

No theorem of the nine assigned files has an unsatisfiable hypothesis set: every one is either instantiated here (or
in its own file) at a non-trivial point, or has only independent range facts.  Two PARTIAL findings:

* `sat_scale_clip` (C18), second conjunct of the conclusion (`2^(shift-1) ≤ hi → … = .ok (2^31 − 2^(shift-1))`): at
  `shift = 32` the antecedent `2^31 ≤ hi` contradicts the hypothesis `inI 32 hi`
  (`nvC_sat_scale_clip_upper_vacuous_at_32`), so for the documented shift 32 there is NO positive saturation clause —
  every `hi ≥ 0` is in the exact branch; the negative clause is met by `hi = i32::MIN` only and yields `0`
  (`sat_scale_shift32_min_is_zero`, already recorded as part of F-C18-a).  For `shift ≤ 31` both antecedents are
  satisfiable (example in the C18 section).
* `hbf_cascade_stopband_sharp`, `hbf_cascade_stopband` (C15spec), hypothesis `hbfCascadeResponse d f ≠ 0`: the
  development proves the response non-zero at exactly ONE stop-band point, `d = 1`, `f = 1` (the upper end of the
  admissible interval `[3/5, 2^(d-1)]`; `C15spec.lean:236`).  For `d = 2, 3, 4` and for interior frequencies no
  witness of `≠ 0` is proved (it certainly holds off a finite set of zeros — the response is a non-zero trigonometric
  polynomial — but that is not in the development).  The multiplicative forms `hbf_cascade_stopband_gain` /
  `hbf_cascade_spec_full_holds` do not carry this hypothesis and are unaffected.

Caveats that are not vacuity but limit what a witness means:
* `C15Fc`: all five cascade theorems quantify over `F : FlModel (1/2^24)` (standard model, every operation
  `exact·(1+δ)`, `|δ| ≤ 2^-24`, for ALL real operands).  Instances exist (`FlModel.exact`, `FlModel.roundUp`; the
  latter is used here), but IEEE binary32 itself satisfies `mul_err` only in the absence of underflow and overflow —
  as the header of `Lemmas/FloatModel.lean` says.
* `macc_checked_overflow` (C05) and `c20b_cic_interpolate_fits` leave `s` resp. the time index unconstrained; the
  witnesses here use an in-range `s` and prove the fit for all times.
-/
