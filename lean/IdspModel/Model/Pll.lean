import IdspModel.Rust
/-! Model of `src/pll.rs`. All arithmetic is explicitly wrapping, so both modes coincide. -/
namespace Idsp

structure PLL where
  x : Int    -- i32
  y0 : Int   -- i32
  f0 : Int   -- i32
  f : Int    -- i64
  y : Int    -- i64
deriving Repr, DecidableEq

def PLL.default : PLL := ⟨0, 0, 0, 0, 0⟩

def PLL.update (s : PLL) (x : Option Int) (k : Int) : PLL :=
  match x with
  | some x =>
    let dx := wrapI 32 (x - s.x)
    let df := wrapI 32 (dx - wrapI 32 (shr s.f 32)) * k
    let f1 := wrapI 64 (s.f + df)
    let y1 := wrapI 64 (s.y + f1)
    let f2 := wrapI 64 (f1 + df)
    let dy := wrapI 32 (x - wrapI 32 (shr y1 32)) * k
    let y2 := wrapI 64 (y1 + dy)
    let y := wrapI 32 (shr y2 32)
    let y3 := wrapI 64 (y2 + dy)
    { x := x, y0 := y, f0 := wrapI 32 (y - s.y0), f := f2, y := y3 }
  | none =>
    { s with y := wrapI 64 (s.y + s.f), x := wrapI 32 (s.x + s.f0), y0 := wrapI 32 (s.y0 + s.f0) }

def PLL.phase (s : PLL) : Int := s.y0
def PLL.frequency (s : PLL) : Int := s.f0

end Idsp
