import IdspModel.Lemmas.PllArith
import Mathlib.Logic.Function.Iterate
/-!
# PLL (C06): step counts for the loop maps

Level ("halving") argument: while the high word is `≥ t` levels away from the band `hi u ∈ {c, c+1}` every step
moves `u` by at least `2·k·t` towards it, never across it; `P = ⌊2^31/k⌋ + 1` steps halve the distance.
-/
namespace Idsp

/-- one "level" of a descent: inside an invariant region `I`, a measure that drops by at least `d` per step while
    it is `≥ L`, and stays `< L` once there, is `< L` after `n` steps if it started below `L + n·d`. -/
theorem iter_level {α : Type} (f : α → α) (μ : α → Int) (I : α → Prop) (L d : Int)
    (hd : 0 ≤ d) (hI : ∀ a, I a → I (f a))
    (hstay : ∀ a, I a → μ a < L → μ (f a) < L)
    (hdec : ∀ a, I a → L ≤ μ a → μ (f a) ≤ μ a - d) :
    ∀ (n : Nat) (a : α), I a → μ a < L + n * d → I (f^[n] a) ∧ μ (f^[n] a) < L := by
  intro n
  induction n with
  | zero => intro a ha h; simp at h; exact ⟨ha, h⟩
  | succ n ih =>
    intro a ha h
    rw [Function.iterate_succ_apply]
    apply ih (f a) (hI a ha)
    by_cases hL : μ a < L
    · have := hstay a ha hL
      have : (0 : Int) ≤ (n : Int) * d := Int.mul_nonneg (by omega) hd
      omega
    · have := hdec a ha (by omega)
      push_cast at h
      rw [Int.add_mul] at h; omega

/-- steps per level: `⌊2^31/k⌋ + 1` -/
def pllP (k : Int) : Nat := (2 ^ 31 / k).toNat + 1

theorem pllP_spec {k : Int} (hk0 : 2 ^ 8 ≤ k) : (2 : Int) ^ 31 ≤ (pllP k : Int) * k ∧ (pllP k : Int) = 2 ^ 31 / k + 1 := by
  have h0 : (0 : Int) ≤ 2 ^ 31 / k := Int.ediv_nonneg (by decide) (by omega)
  have hc : ((pllP k : Nat) : Int) = 2 ^ 31 / k + 1 := by
    unfold pllP; omega
  have h1 := Int.emod_add_mul_ediv (2 ^ 31) k
  have h3 := Int.emod_lt_of_pos (2 ^ 31) (show 0 < k by omega)
  refine ⟨?_, hc⟩
  rw [hc, Int.add_mul, Int.mul_comm]; omega

/-- `P` steps cover a level of height `t·2^32` when each step moves by `2·k·t` -/
theorem pllP_cover {k : Int} (hk0 : 2 ^ 8 ≤ k) {t : Int} (ht : 0 ≤ t) :
    t * 2 ^ 32 ≤ (pllP k : Int) * (2 * (k * t)) := by
  have h := (pllP_spec hk0).1
  have : 2 ^ 31 * t ≤ (pllP k : Int) * k * t := Int.mul_le_mul_of_nonneg_right h ht
  have e : (pllP k : Int) * (2 * (k * t)) = 2 * ((pllP k : Int) * k * t) := by ring
  rw [e]; omega

section
variable {k g : Int} (hk0 : 2 ^ 8 ≤ k) (hk1 : k < 2 ^ 31) (hg0 : 0 ≤ g) (hg1 : g < 2 ^ 32)
include hk0 hk1 hg0 hg1

/-- region on or above the band -/
def PosR (k g u : Int) : Prop := g / (2 * k) * 2 ^ 32 ≤ u ∧ u < 2 ^ 63
/-- region on or below the band, excluding the wrapping high word -/
def NegR (k g u : Int) : Prop := -2 ^ 63 + 2 ^ 32 ≤ u ∧ u < (g / (2 * k) + 2) * 2 ^ 32
/-- the band `hi u ∈ {c, c+1}`, `c = g / (2k)` -/
def Band (k g u : Int) : Prop := g / (2 * k) * 2 ^ 32 ≤ u ∧ u < (g / (2 * k) + 2) * 2 ^ 32

theorem posR_step {u : Int} (h : PosR k g u) : PosR k g (pllPhi k g u) ∧
    (u < (g / (2 * k) + 2) * 2 ^ 32 → pllPhi k g u < (g / (2 * k) + 2) * 2 ^ 32) ∧
    ((g / (2 * k) + 2) * 2 ^ 32 ≤ u → pllPhi k g u < u) := by
  have ⟨hc0, hc1, hc2⟩ := c_spec hk0 hg0 (g := g)
  have hcc := (kmul_env hk0 hk1 (g / (2 * k))).1 hc0
  obtain ⟨h0, h1⟩ := h
  unfold PosR
  by_cases hb : u < (g / (2 * k) + 2) * 2 ^ 32
  · have := phi_mid hk0 hk1 hg0 hg1 h0 hb
    refine ⟨⟨this.1, by omega⟩, fun _ => this.2, fun hh => by omega⟩
  · have := phi_pos hk0 hk1 hg0 hg1 h1 (u := u) (by omega)
    refine ⟨⟨this.1, by omega⟩, fun hh => by omega, fun _ => this.2.1⟩

theorem pos_level {t : Int} (ht : 1 ≤ t) {u : Int} (hI : PosR k g u)
    (hu : u < (g / (2 * k) + 1 + 2 * t) * 2 ^ 32) :
    PosR k g ((pllPhi k g)^[pllP k] u) ∧ (pllPhi k g)^[pllP k] u < (g / (2 * k) + 1 + t) * 2 ^ 32 := by
  have hcov := pllP_cover hk0 (t := t) (by omega)
  have hkt : 0 ≤ k * t := Int.mul_nonneg (by omega) (by omega)
  apply iter_level (pllPhi k g) (fun u => u) (PosR k g) ((g / (2 * k) + 1 + t) * 2 ^ 32) (2 * (k * t))
    (by omega) (fun a ha => (posR_step hk0 hk1 hg0 hg1 ha).1)
  · intro a ha hL
    have ⟨_, h2, h3⟩ := posR_step hk0 hk1 hg0 hg1 ha
    by_cases hb : a < (g / (2 * k) + 2) * 2 ^ 32
    · have := h2 hb; omega
    · have := h3 (by omega); omega
  · intro a ha hL
    exact (phi_pos hk0 hk1 hg0 hg1 ha.2 (u := a) (by omega)).2.2 t (by omega) hL
  · exact hI
  · omega

/-- `j` halvings from above: from `hi u - c - 1 < 2^j` to the band in `j·P` steps -/
theorem pos_levels (j : Nat) : ∀ {u : Int}, PosR k g u → u < (g / (2 * k) + 1 + 2 ^ j) * 2 ^ 32 →
    Band k g ((pllPhi k g)^[j * pllP k] u) := by
  induction j with
  | zero =>
    intro u hI hu
    simp only [Nat.zero_mul, Function.iterate_zero, id_eq]
    rw [Int.pow_zero] at hu; exact ⟨hI.1, by omega⟩
  | succ j ih =>
    intro u hI hu
    have hp : (1 : Int) ≤ 2 ^ j := by have := two_pow_pos j; omega
    have h := pos_level hk0 hk1 hg0 hg1 hp hI (by rw [Int.pow_succ] at hu; omega)
    rw [Nat.succ_mul, Function.iterate_add_apply]
    exact ih h.1 h.2

theorem band_step {u : Int} (h : Band k g u) : Band k g (pllPhi k g u) :=
  phi_mid hk0 hk1 hg0 hg1 h.1 h.2

theorem band_iter (n : Nat) : ∀ {u : Int}, Band k g u → Band k g ((pllPhi k g)^[n] u) := by
  induction n with
  | zero => intro u h; exact h
  | succ n ih => intro u h; rw [Function.iterate_succ_apply]; exact ih (band_step hk0 hk1 hg0 hg1 h)

theorem negR_step {u : Int} (h : NegR k g u) : NegR k g (pllPhi k g u) ∧
    (g / (2 * k) * 2 ^ 32 ≤ u → g / (2 * k) * 2 ^ 32 ≤ pllPhi k g u) ∧
    (u < g / (2 * k) * 2 ^ 32 → u ≤ pllPhi k g u) := by
  have ⟨hc0, hc1, hc2⟩ := c_spec hk0 hg0 (g := g)
  obtain ⟨h0, h1⟩ := h
  unfold NegR
  by_cases hb : g / (2 * k) * 2 ^ 32 ≤ u
  · have := phi_mid hk0 hk1 hg0 hg1 hb h1
    refine ⟨⟨by omega, this.2⟩, fun _ => this.1, fun hh => by omega⟩
  · have := phi_neg hk0 hk1 hg0 hg1 h0 (u := u) (by omega)
    refine ⟨⟨by omega, this.2.1⟩, fun hh => by omega, fun _ => this.1⟩

theorem neg_level {t : Int} (ht : 1 ≤ t) {u : Int} (hI : NegR k g u)
    (hu : (g / (2 * k) + 1 - 2 * t) * 2 ^ 32 ≤ u) :
    NegR k g ((pllPhi k g)^[pllP k] u) ∧ (g / (2 * k) + 1 - t) * 2 ^ 32 ≤ (pllPhi k g)^[pllP k] u := by
  have hcov := pllP_cover hk0 (t := t) (by omega)
  have hkt : 0 ≤ k * t := Int.mul_nonneg (by omega) (by omega)
  have := iter_level (pllPhi k g) (fun u => -u) (NegR k g) (-((g / (2 * k) + 1 - t) * 2 ^ 32) + 1) (2 * (k * t))
    (by omega) (fun a ha => (negR_step hk0 hk1 hg0 hg1 ha).1) ?_ ?_ (pllP k) u hI (by omega)
  · exact ⟨this.1, by omega⟩
  · intro a ha hL
    have ⟨_, h2, h3⟩ := negR_step hk0 hk1 hg0 hg1 ha
    by_cases hb : g / (2 * k) * 2 ^ 32 ≤ a
    · have := h2 hb; omega
    · have := h3 (by omega); omega
  · intro a ha hL
    have := (phi_neg hk0 hk1 hg0 hg1 ha.1 (u := a) (by omega)).2.2 t (by omega) (by omega)
    omega

/-- `j` halvings from below -/
theorem neg_levels (j : Nat) : ∀ {u : Int}, NegR k g u → (g / (2 * k) + 1 - 2 ^ j) * 2 ^ 32 ≤ u →
    Band k g ((pllPhi k g)^[j * pllP k] u) := by
  induction j with
  | zero =>
    intro u hI hu
    simp only [Nat.zero_mul, Function.iterate_zero, id_eq]
    rw [Int.pow_zero] at hu; exact ⟨by omega, hI.2⟩
  | succ j ih =>
    intro u hI hu
    have hp : (1 : Int) ≤ 2 ^ j := by have := two_pow_pos j; omega
    have h := neg_level hk0 hk1 hg0 hg1 hp hI (by rw [Int.pow_succ] at hu; omega)
    rw [Nat.succ_mul, Function.iterate_add_apply]
    exact ih h.1 h.2

/-- from any regular `u` (high word not `-2^31`) the band is reached within `32·P` steps -/
theorem reach_regular {u : Int} (hu0 : -2 ^ 63 + 2 ^ 32 ≤ u) (hu1 : u < 2 ^ 63) :
    Band k g ((pllPhi k g)^[32 * pllP k] u) := by
  have ⟨hc0, hc1, hc2⟩ := c_spec hk0 hg0 (g := g)
  have hcc := (kmul_env hk0 hk1 (g / (2 * k))).1 hc0
  by_cases hb : g / (2 * k) * 2 ^ 32 ≤ u
  · have h := pos_levels hk0 hk1 hg0 hg1 31 (u := u) ⟨hb, hu1⟩ (by omega)
    rw [show 32 * pllP k = pllP k + 31 * pllP k by omega, Function.iterate_add_apply]
    exact band_iter hk0 hk1 hg0 hg1 _ h
  · exact neg_levels hk0 hk1 hg0 hg1 32 (u := u) ⟨hu0, by omega⟩ (by omega)

/-- from ANY 64-bit `u`, the band is reached within `32·P + 1` steps and never left -/
theorem reach {u : Int} (hu0 : -2 ^ 63 ≤ u) (hu1 : u < 2 ^ 63) {n : Nat} (hn : 32 * pllP k + 1 ≤ n) :
    Band k g ((pllPhi k g)^[n] u) := by
  by_cases hr : -2 ^ 63 + 2 ^ 32 ≤ u
  · rw [show n = (n - 32 * pllP k) + 32 * pllP k by omega, Function.iterate_add_apply]
    exact band_iter hk0 hk1 hg0 hg1 _ (reach_regular hk0 hk1 hg0 hg1 hr hu1)
  · have h := phi_min hk0 hk1 hg0 hg1 hu0 (u := u) (by omega)
    rw [show n = (n - 32 * pllP k - 1) + 32 * pllP k + 1 by omega, Function.iterate_succ_apply,
      Function.iterate_add_apply]
    exact band_iter hk0 hk1 hg0 hg1 _ (reach_regular hk0 hk1 hg0 hg1 (by omega) h.2)
end

section
variable {k : Int} (hk0 : 2 ^ 8 ≤ k) (hk1 : k < 2 ^ 31)
include hk0 hk1

omit hk0 hk1 in
theorem pllT_iter_fix {v : Int} (hv0 : 0 ≤ v) (hv1 : v < 2 ^ 32) (n : Nat) : (pllT k)^[n] v = v := by
  induction n with
  | zero => rfl
  | succ n ih => rw [Function.iterate_succ_apply, pllT_fix hv0 hv1, ih]

/-- the frequency residue: from ANY 64-bit value, `hi g = 0` after `33·P + 1` steps, and `g` is then constant -/
theorem freq_reach {v : Int} (hv0 : -2 ^ 63 ≤ v) (hv1 : v < 2 ^ 63) {n : Nat} (hn : 33 * pllP k + 1 ≤ n) :
    0 ≤ (pllT k)^[n] v ∧ (pllT k)^[n] v < 2 ^ 32 := by
  have hfun : pllPhi k 0 = pllT k := funext (pllPhi_zero k)
  have hb := reach hk0 hk1 (g := 0) (by omega) (by omega) hv0 hv1 (n := 32 * pllP k + 1) (by omega)
  rw [hfun] at hb
  unfold Band at hb
  rw [Int.zero_ediv] at hb
  rw [show n = (n - (33 * pllP k + 1)) + pllP k + (32 * pllP k + 1) by omega, Function.iterate_add_apply,
    Function.iterate_add_apply]
  generalize (pllT k)^[32 * pllP k + 1] v = w at hb ⊢
  have hP := (pllP_spec hk0).1
  have hP2 : (pllP k : Int) * (2 * k) = 2 * ((pllP k : Int) * k) := by ring
  have hl := iter_level (pllT k) (fun u => u) (fun u => 0 ≤ u ∧ u < 2 ^ 33) (2 ^ 32) (2 * k) (by omega)
    ?_ ?_ ?_ (pllP k) w (by omega) (by omega)
  · rw [pllT_iter_fix hl.1.1 hl.2]; exact ⟨hl.1.1, hl.2⟩
  · intro a ha
    by_cases h : a < 2 ^ 32
    · rw [pllT_fix ha.1 h]; exact ha
    · rw [pllT_one (by omega) ha.2]; unfold wrapI; omega
  · intro a ha h
    rw [pllT_fix ha.1 h]; exact h
  · intro a ha h
    rw [pllT_one h ha.2]; unfold wrapI; omega
end
end Idsp
