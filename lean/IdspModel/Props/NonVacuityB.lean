import IdspModel.Props.NonVacuityB1
import IdspModel.Props.NonVacuityB2
/-!
# Non-vacuity audit, part B — `C10lp2`, `C11`, `C11rec`, `C07`, `C07lock`, `C19`, `C08`, `C15`, `C15F`

The witnesses live in `NonVacuityB1.lean` (`C10lp2`, `C11`, `C11rec`, `C07`, `C07lock`) and `NonVacuityB2.lean`
(`C19`, `C08`, `C15`, `C15F`): for every property theorem with a non-trivial hypothesis set, ONE common witness for all
its hypotheses; per file a comment `### Cxx: skipped` accounts for the remaining theorems.

This file holds the findings of the audit: facts about HOW FAR the hypothesis sets reach (proved below where that is
cheap), and the list of suspected-vacuous theorems (empty for these nine files).
-/
namespace Idsp

/-! ## Finding 1 (C07lock): the positive lock theorem covers NONE of the crate's own test configurations

`rpll_lock_holds_where_envelope_small` (and `rpll_locks_within_envelope`) need `c.Good` (`3·2^d < P ≤ 2^sp`) and, for
the literal lock clause, `100000·envF k ≤ Σ²·T` and `1000·envP k ≤ 2Σ²DP·2^32`.  The hypothesis set is satisfiable
(`rpll_lock_example`: `8/4000/16/15`; `NonVacuityB1`: also `4/1000/12/11`), roughly for `sf − d ≤ 14` and `P` well
inside `(3·2^d, 2^sp)`.  But the six configurations exercised by the tests of `rpll.rs`
(`dt2/period/shift_frequency/shift_phase` = `8/333/9/8` (harness default), `8/990/23/22`, `8/1818181/23/22`,
`8/990/10/9`, `8/1818181/21/20`, `11/2431/23/23`) are ALL outside it: four are not `Good`, and for the two `23/22`
configurations the frequency envelope exceeds `1e-5` for every `k`.  (Consistent with `rpll_lock_full_false`: the lock
clause is false at `8/990/23/22`.)  So the theorem is not vacuous, but it says nothing about the configurations the
crate itself tests. -/

/-- the frequency envelope never drops below its `k → ∞` limit -/
theorem nvB_envF_ge (c : RpllCfg) (k : Nat) (hS : 0 ≤ c.Sg) (hP : 0 ≤ c.P) :
    c.Sg * c.Sg * c.Ub + c.P * (c.Lim + c.Sg * c.Sg) ≤ c.envF k := by
  have h : 0 ≤ (c.Sg + 2) * 2 ^ 31 / 2 ^ k := Int.ediv_nonneg (by positivity) (by positivity)
  unfold RpllCfg.envF RpllCfg.Nb
  nlinarith [mul_nonneg hP h]

/-- if that limit is already above `1e-5` (relative), hypothesis `hF` of `rpll_lock_holds_where_envelope_small` fails
    for every `k` -/
theorem nvB_envF_never_small (c : RpllCfg) (hS : 0 ≤ c.Sg) (hP : 0 ≤ c.P)
    (e : c.Sg * c.Sg * c.T < 100000 * (c.Sg * c.Sg * c.Ub + c.P * (c.Lim + c.Sg * c.Sg))) (k : Nat) :
    ¬ (100000 * c.envF k ≤ c.Sg * c.Sg * c.T) := by
  have h := nvB_envF_ge c k hS hP
  omega

/-- `8/990/23/22` (witness A of C07, a test of `rpll.rs`): `hF` fails for every `k` -/
example (k : Nat) : ¬ (100000 * rpllCfgA.envF k ≤ rpllCfgA.Sg * rpllCfgA.Sg * rpllCfgA.T) :=
  nvB_envF_never_small _ (by decide) (by decide) (by decide) k

/-- `8/1818181/23/22` (a test of `rpll.rs`): `hF` fails for every `k` -/
example (k : Nat) : ¬ (100000 * RpllCfg.envF ⟨8, 1818181, 0, 23, 22⟩ k ≤
    RpllCfg.Sg ⟨8, 1818181, 0, 23, 22⟩ * RpllCfg.Sg ⟨8, 1818181, 0, 23, 22⟩ * RpllCfg.T ⟨8, 1818181, 0, 23, 22⟩) :=
  nvB_envF_never_small _ (by decide) (by decide) (by decide) k

/-- the harness default `8/333/9/8` is not `Good` (`P = 333 > 2^sp = 256`) -/
example (off : Int) : ¬ RpllCfg.Good ⟨8, 333, off, 9, 8⟩ := fun g => by have h := g.hPsp; norm_num at h
/-- `8/990/10/9` is not `Good` (`990 > 512`) -/
example (off : Int) : ¬ RpllCfg.Good ⟨8, 990, off, 10, 9⟩ := fun g => by have h := g.hPsp; norm_num at h
/-- `8/1818181/21/20` is not `Good` (`1818181 > 2^20`) -/
example (off : Int) : ¬ RpllCfg.Good ⟨8, 1818181, off, 21, 20⟩ := fun g => by
  have h := g.hPsp; norm_num at h; exact absurd h (by decide)
/-- `11/2431/23/23` is not `Good` (`2431 < 3·2^11`) -/
example (off : Int) : ¬ RpllCfg.Good ⟨11, 2431, off, 23, 23⟩ := fun g => by have h := g.hP3; norm_num at h

/-! ## Finding 2 (C15F): `FlModel u` has only idealised instances

Every theorem of `C15F.lean` takes `M : FlModel u` (`fhbf_*_published_f32`: `F : FlModel (1/2^24)`).  `FlModel u` asks
for `fadd a b = (a+b)(1+δ)`, `|δ| ≤ u` for ALL real `a b` (no overflow, no underflow, inputs need not be
representable).  The only instances constructed anywhere in `Lemmas/` are `FlModel.exact` (no rounding at all) and
`FlModel.roundUp` (every operation multiplies by `1+u`); there is no instance that represents round-to-nearest of an
actual format, and real binary32 is not literally an instance (gradual underflow violates the relative bound, large
values overflow).  The hypotheses are therefore satisfiable (witnesses in `NonVacuityB2` use the round-up model with
non-trivial data and the published taps `HBF_TAPS.1`), and `fhbf_symfir_error_tight` shows that the bound is attained
in the round-up model, but the link "the running f32 code is an `FlModel (2^-24)`" is an assumption outside Lean.

## Finding 3 (C10lp2): `Lp2Safe`, `Lp2Safe2` instances exist for restricted levels only

`lp2_settles_of_safe` / `lp2_settles_of_safe2` are stated for ANY admissible pair and ANY safe region, but the only
available instances of `Lp2Safe` are for Butterworth pairs with `ζ² ≤ 3/4` and `|x| ≤ 2^28` (`lp2_safe_of_level`), and
of `Lp2Safe2` for Butterworth pairs with `|x| ≤ 2^29` / `2^30` (`lp2_safe2_of_level`, `lp2_safe2_W`, `bg_safe2`).  No
instance for a non-Butterworth admissible pair is known (none was needed).  Not vacuous.

## Finding 4 (C11rec): `lockin_recovery_angle_witness` is conditional on a run existing

Its hypotheses `h0`, `hrun` postulate a successful run of the model on the witness inputs; the run exists
(`NonVacuityB1`, by `lockin_recovery_components`), so the refutation `lockin_recovery_full_false` is not resting on
an empty premise (it also obtains the run from the refuted clause itself).

## Suspected vacuous

None of the theorems of `C10lp2`, `C11`, `C11rec`, `C07`, `C07lock`, `C19`, `C08`, `C15`, `C15F` was found to have an
unsatisfiable or only-degenerately-satisfiable hypothesis set: every one has either a witness in `NonVacuityB1/B2`
(non-zero states, non-empty lists, documented configurations) or an instance in its own file, or has only independent
range hypotheses.  The closest to "degenerate" are:
* `polar_roundtrip_reduction (K)`: its field hypothesis is satisfiable only for `K` at or above the true maximum (`15038` according to `C19.lean`),
  i.e. essentially by the one instance `polar_roundtrip_fields`, which is what it is used for;
* `rpll_lock_holds_where_envelope_small`: see Finding 1.
-/

end Idsp
