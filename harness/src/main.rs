//! Correspondence / search harness: calls the real `idsp` crate (built from /repo's working
//! tree with `--cfg idsp_verif`) in-process.
//!
//!   drive gen <family,family,...> <seed> <n>     op lines `<mode> <op> <args> => <result>` on stdout
//!   drive search <property> <tier> <seed> [hints-file]   JSON report on stdout
mod gen;
mod pword;
mod rng;
mod search;

pub static LAST_PANIC: std::sync::Mutex<String> = std::sync::Mutex::new(String::new());

pub const MODE: char = if cfg!(debug_assertions) { 'C' } else { 'R' };

fn main() {
    // every panic is recorded (message + location) so that a panic that escapes an oracle can still be reported
    // with the place it came from; nothing is printed unless VERIF_SHOW_PANICS is set
    let show = std::env::var("VERIF_SHOW_PANICS").is_ok();
    std::panic::set_hook(Box::new(move |info| {
        let loc = info.location().map(|l| format!("{}:{}", l.file(), l.line())).unwrap_or_default();
        let msg = info.payload().downcast_ref::<&str>().map(|s| s.to_string())
            .or_else(|| info.payload().downcast_ref::<String>().cloned()).unwrap_or_default();
        if show { eprintln!("panic at {}: {}", loc, msg); }
        if let Ok(mut g) = LAST_PANIC.lock() { *g = format!("{} at {}", msg, loc); }
    }));
    let args: Vec<String> = std::env::args().collect();
    if args.len() < 2 {
        eprintln!("usage: drive gen|search ...");
        std::process::exit(2);
    }
    match args[1].as_str() {
        "gen" => {
            let fams: Vec<&str> = args[2].split(',').collect();
            let seed: u64 = args[3].parse().unwrap();
            let n: usize = args[4].parse().unwrap();
            gen::run(&fams, seed, n);
        }
        "search" => {
            let prop = args[2].as_str();
            let tier = args[3].as_str();
            let seed: u64 = args[4].parse().unwrap();
            let hints = args.get(5).map(|s| s.as_str());
            search::run(prop, tier, seed, hints);
        }
        _ => {
            eprintln!("unknown subcommand");
            std::process::exit(2);
        }
    }
}
