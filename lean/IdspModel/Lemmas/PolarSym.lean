import IdspModel.Lemmas.Polar
import IdspModel.Props.C02
/-!
Helper lemmas for C19, part 3: how `arg(from_angle(p))` transforms under the exact symmetries of `cossin`
(conjugation `p ↦ !p`, quarter turn `p ↦ p + 2^30`, in-quadrant mirror `p ↦ p ^ 0x3fff_ffff`).  Because every `cossin`
output is off the axes and off the diagonals (`cossinVal_off`), the reflection theorems of `atan2` (C02) apply at
every phase, and because both functions use the complement convention (`!x = -1 - x`) the round-trip error
`arg(from_angle p) - p (mod 2^32)` is reproduced EXACTLY (quarter turn) or negated EXACTLY (conjugation, mirror).
-/
namespace Idsp

/-- `arg(from_angle(p))` on the closed form of `cossin` -/
def polarR (p : Int) : R Int := atan2 .checked (cossinVal p).2 (cossinVal p).1

theorem polar_val_facts (p : Int) :
    inI 32 (cossinVal p).1 = true ∧ inI 32 (cossinVal p).2 = true ∧
    inI 32 (-(cossinVal p).1) = true ∧ inI 32 (-(cossinVal p).2) = true ∧
    (cossinVal p).1 ≠ 0 ∧ (cossinVal p).2 ≠ 0 ∧ satAbs (cossinVal p).2 ≠ satAbs (cossinVal p).1 := by
  obtain ⟨c0, c1, s0, s1⟩ := cossinVal_range p
  obtain ⟨hc, hs, h1, h2⟩ := cossinVal_off p
  have ic : inI 32 (cossinVal p).1 = true := lockin_inI32 (by omega) (by omega)
  have is : inI 32 (cossinVal p).2 = true := lockin_inI32 (by omega) (by omega)
  refine ⟨ic, is, lockin_inI32 (by omega) (by omega), lockin_inI32 (by omega) (by omega), hc, hs, ?_⟩
  rw [satAbs_of_in ic, satAbs_of_in is]
  split <;> split <;> (try split) <;> (try split) <;> omega

/-- `arg(from_angle(p))` exists for every phase -/
theorem polarR_total (p : Int) : ∃ r, polarR p = .ok r ∧ inI 32 r = true := by
  obtain ⟨ic, is, _⟩ := polar_val_facts p
  exact atan2_total is ic

/-- conjugation: `arg(from_angle(!p)) = !arg(from_angle(p))` -/
theorem polarR_conj {p r : Int} (h : polarR p = .ok r) : polarR (-p - 1) = .ok (-1 - r) := by
  obtain ⟨ic, is, _, ins, _, hs, _⟩ := polar_val_facts p
  unfold polarR at h ⊢
  rw [cossinVal_conj]
  exact atan2_reflect_x_axis is ins ic hs h

/-- the swapped pair: `atan2(c, s) = 2^30 - 1 - atan2(s, c)` (mod 2^32) -/
theorem polarR_swap {p r : Int} (h : polarR p = .ok r) :
    atan2 .checked (cossinVal p).1 (cossinVal p).2 = .ok (wrapI 32 (2 ^ 30 - 1 - r)) := by
  obtain ⟨ic, is, _, _, _, _, hd⟩ := polar_val_facts p
  exact atan2_reflect_diagonal is ic hd h

/-- quarter turn: `arg(from_angle(p + 2^30)) = arg(from_angle(p)) + 2^30` (mod 2^32) -/
theorem polarR_quarter {p r : Int} (h : polarR p = .ok r) :
    polarR (wrapI 32 (p + 2 ^ 30)) = .ok (wrapI 32 (r + 2 ^ 30)) := by
  obtain ⟨ic, is, _, ins, _, hs, _⟩ := polar_val_facts p
  have h1 := polarR_swap h
  have h2 := (atan2_reflect_y_axis ic is ins hs h1).1
  unfold polarR
  rw [cossinVal_quarter]
  simp only
  rw [h2, wrapI_sub_wrapI_right]
  congr 2; omega

/-- in-quadrant mirror -/
theorem polarR_mirror {p r : Int} (h : polarR p = .ok r) :
    polarR (cossinMirror p) = .ok (if cossinOct p / 2 % 2 = 0 then wrapI 32 (2 ^ 30 - 1 - r)
      else wrapI 32 (2 ^ 31 + 2 ^ 30 - 1 - r)) := by
  obtain ⟨ic, is, inc, ins, hc, hs, _⟩ := polar_val_facts p
  have h1 := polarR_swap h
  unfold polarR
  rw [cossinVal_mirror]
  by_cases hq : cossinOct p / 2 % 2 = 0
  · simp only [hq, if_true]; exact h1
  · simp only [hq, if_false]
    have h2 := atan2_reflect_x_axis ic inc is hc h1
    have h3 := (atan2_reflect_y_axis inc is ins hs h2).1
    rw [h3]
    rw [show (2 : Int) ^ 31 - 1 - (-1 - wrapI 32 (2 ^ 30 - 1 - r)) = 2 ^ 31 + wrapI 32 (2 ^ 30 - 1 - r) by omega,
      wrapI_add_wrapI_right]
    congr 2; omega

/-! ## the wrapped round-trip error -/

/-- conjugation negates the error (mod 2^32) -/
theorem polarErr_conj {p r : Int} (h : polarR p = .ok r) :
    ∃ r', polarR (-p - 1) = .ok r' ∧ wrapI 32 (r' - (-p - 1)) = wrapI 32 (-(r - p)) :=
  ⟨_, polarR_conj h, by congr 1; omega⟩

/-- a quarter turn reproduces the error exactly -/
theorem polarErr_quarter {p r : Int} (h : polarR p = .ok r) :
    ∃ r', polarR (wrapI 32 (p + 2 ^ 30)) = .ok r' ∧ wrapI 32 (r' - wrapI 32 (p + 2 ^ 30)) = wrapI 32 (r - p) := by
  refine ⟨_, polarR_quarter h, ?_⟩
  rw [wrapI_sub_wrapI_left, wrapI_sub_wrapI_right]
  congr 1; omega

/-- the in-quadrant mirror negates the error (mod 2^32) -/
theorem polarErr_mirror {p r : Int} (hp : inI 32 p = true) (h : polarR p = .ok r) :
    ∃ r', polarR (cossinMirror p) = .ok r' ∧ wrapI 32 (r' - cossinMirror p) = wrapI 32 (-(r - p)) := by
  have ⟨p0, p1⟩ := lockin_i32 hp
  refine ⟨_, polarR_mirror h, ?_⟩
  by_cases hq : cossinOct p / 2 % 2 = 0
  · simp only [hq, if_true]
    rw [wrapI_sub_wrapI_left]
    unfold cossinOct at hq
    unfold cossinMirror wrapI
    omega
  · simp only [hq, if_false]
    rw [wrapI_sub_wrapI_left]
    unfold cossinOct at hq
    unfold cossinMirror wrapI
    omega

/-- "the error at `p` is at most `K` in magnitude" -/
def polarBnd (K p : Int) : Prop := ∀ r, polarR p = .ok r → -K ≤ wrapI 32 (r - p) ∧ wrapI 32 (r - p) ≤ K

theorem wrapI32_neg_of_small {e K : Int} (hK : K < 2 ^ 31) (h0 : -K ≤ wrapI 32 e) (h1 : wrapI 32 e ≤ K) :
    wrapI 32 (-e) = -wrapI 32 e := by
  have : wrapI 32 (-e) = wrapI 32 (0 - wrapI 32 e) := by rw [wrapI_sub_wrapI_right]; congr 1; omega
  rw [this, Int.zero_sub]
  apply wrapI32_id <;> omega

theorem polarBnd_quarter {K p : Int} (h : polarBnd K p) : polarBnd K (wrapI 32 (p + 2 ^ 30)) := by
  intro r' hr'
  obtain ⟨r, hr, _⟩ := polarR_total p
  obtain ⟨r'', h1, h2⟩ := polarErr_quarter hr
  rw [hr'] at h1
  obtain rfl := Except.ok.inj h1
  rw [h2]; exact h r hr

theorem polarBnd_mirror {K p : Int} (hK : K < 2 ^ 31) (hp : inI 32 p = true) (h : polarBnd K p) :
    polarBnd K (cossinMirror p) := by
  intro r' hr'
  obtain ⟨r, hr, _⟩ := polarR_total p
  obtain ⟨r'', h1, h2⟩ := polarErr_mirror hp hr
  rw [hr'] at h1
  obtain rfl := Except.ok.inj h1
  have ⟨b0, b1⟩ := h r hr
  rw [h2, wrapI32_neg_of_small hK b0 b1]; omega

theorem polarBnd_conj {K p : Int} (hK : K < 2 ^ 31) (h : polarBnd K p) : polarBnd K (-p - 1) := by
  intro r' hr'
  obtain ⟨r, hr, _⟩ := polarR_total p
  obtain ⟨r'', h1, h2⟩ := polarErr_conj hr
  rw [hr'] at h1
  obtain rfl := Except.ok.inj h1
  have ⟨b0, b1⟩ := h r hr
  rw [h2, wrapI32_neg_of_small hK b0 b1]; omega

theorem cossinMirror_mirror (p : Int) : cossinMirror (cossinMirror p) = p := by
  unfold cossinMirror; omega

/-- reduction of an error bound over all `2^32` phases to the first octant `0 ≤ p₀ < 2^29` -/
theorem polarBnd_reduce {K : Int} (hK : K < 2 ^ 31) (h : ∀ p0, 0 ≤ p0 → p0 < 2 ^ 29 → polarBnd K p0)
    {p : Int} (hp : inI 32 p = true) : polarBnd K p := by
  have ⟨p0, p1⟩ := lockin_i32 hp
  -- even octants first
  have heven : ∀ q, inI 32 q = true → cossinOct q % 2 = 0 → polarBnd K q := by
    intro q hq ho
    have ⟨q0, q1⟩ := lockin_i32 hq
    unfold cossinOct at ho
    have hb := h (q % 2 ^ 30) (by omega) (by omega)
    have hb1 := polarBnd_quarter hb
    have hb2 := polarBnd_quarter hb1
    have hb3 := polarBnd_quarter hb2
    have hj : q / 2 ^ 30 = 0 ∨ q / 2 ^ 30 = 1 ∨ q / 2 ^ 30 = -2 ∨ q / 2 ^ 30 = -1 := by omega
    rcases hj with hj | hj | hj | hj
    · have : q = q % 2 ^ 30 := by omega
      rw [this]; exact hb
    · have : q = wrapI 32 (q % 2 ^ 30 + 2 ^ 30) := by unfold wrapI; omega
      rw [this]; exact hb1
    · have : q = wrapI 32 (wrapI 32 (q % 2 ^ 30 + 2 ^ 30) + 2 ^ 30) := by unfold wrapI; omega
      rw [this]; exact hb2
    · have : q = wrapI 32 (wrapI 32 (wrapI 32 (q % 2 ^ 30 + 2 ^ 30) + 2 ^ 30) + 2 ^ 30) := by unfold wrapI; omega
      rw [this]; exact hb3
  by_cases ho : cossinOct p % 2 = 0
  · exact heven p hp ho
  · have hm := cossinMirror_in hp
    have : cossinOct (cossinMirror p) % 2 = 0 := by
      unfold cossinOct at ho ⊢; unfold cossinMirror; omega
    have := polarBnd_mirror hK hm (heven _ hm this)
    rwa [cossinMirror_mirror] at this

end Idsp
