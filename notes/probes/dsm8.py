from fractions import Fraction
from math import comb
M=1<<32; K=8
def step(a,c,x):
    d=[]; inp=x
    for j in range(K):
        s=a[j]+inp; d.append(s>>32); a[j]=s&(M-1); inp=a[j]
    y=d[K-1]
    for i in range(K-1):
        bit=d[K-2-i]; y,c[i]=bit+y-c[i],y
    return y
# target even-state E_j = M - O_j, O_j = x_odd/2^j ; choose x_odd = 2^31
xo=1<<31; O=[xo>>(j) for j in range(K+1)]  # O[0]=x_odd, O[j]=a_j at odd times
E=[(M-O[j])%M for j in range(1,K+1)]       # a_j at even times, j=1..K
# steering: after n=8 steps from zero, a_j(n)=sum_s C(n-s+j-1,j-1) x_s mod M (s=1..n)
n=8
A=[[comb(n-s+j-1,j-1) for s in range(1,n+1)] for j in range(1,K+1)]
# solve A x = E mod M with integer Gaussian elimination (unimodular)
import sympy
Am=sympy.Matrix(A); print("det",Am.det())
Ainv=Am.inv()
xs=[int(v)%M for v in (Ainv*sympy.Matrix(E))]
a=[0]*K; c=[0]*K; ys=[]
for x in xs: ys.append(step(a,c,x))
print("after steering a==E?", a==E)
seq=list(xs)
for t in range(10):
    x = xo if t%2==0 else (M-xo)%M
    seq.append(x); ys.append(step(a,c,x))
print([hex(v) for v in seq]); print(ys)
