import IdspModel.Lemmas.Lp2Bound
/-!
# Second-order lowpass: what the documented Butterworth configuration `[k²/2^32, −k/q]`, `q = 1/√2`, satisfies

`Lp2Butter k a b` says in integers that `(k0, k1) = (a, −b)` is the truncated Butterworth pair of an integer `k`
in the documented range: `a = ⌊k²/2^32⌋`, `b = ⌊k·√2⌋ = ⌊√(2k²)⌋`, `2^16 ≤ k`, `2k² ≤ 2^62` (i.e. `k ≤ 2^31/√2`).
-/
namespace Idsp
set_option linter.unusedVariables false

structure Lp2Butter (k a b : Int) : Prop where
  hk0 : 65536 ≤ k
  hk1 : 2 * k ^ 2 ≤ 4611686018427387904
  ha0 : a * 4294967296 ≤ k ^ 2
  ha1 : k ^ 2 < (a + 1) * 4294967296
  hb0 : 0 ≤ b
  hb1 : b ^ 2 ≤ 2 * k ^ 2
  hb2 : 2 * k ^ 2 < (b + 1) ^ 2

namespace Lp2Butter
variable {k a b : Int} (h : Lp2Butter k a b)
include h

theorem k_le : k ≤ 1518500249 := by
  have := h.hk1
  by_contra hc
  have hc' : 1518500250 ≤ k := by omega
  nlinarith

theorem a_ge : 1 ≤ a := by
  have h1 := h.ha1; have h0 := h.hk0
  by_contra hc
  have : a + 1 ≤ 1 := by omega
  nlinarith

theorem a_le : a ≤ 536870912 := by
  have h1 := h.ha0; have h2 := h.hk1
  by_contra hc
  have : 536870913 ≤ a := by omega
  nlinarith

/-- `1.41·k < b + 1` -/
theorem b_lower : 141 * k < 100 * (b + 1) := by
  have h2 := h.hb2; have h0 := h.hk0; have hb := h.hb0
  by_contra hc
  have hc' : 100 * (b + 1) ≤ 141 * k := by omega
  have : (100 * (b + 1)) ^ 2 ≤ (141 * k) ^ 2 := pow_le_pow_left₀ (by omega) hc' 2
  nlinarith

/-- `b ≤ 1.415·k` -/
theorem b_upper : 1000 * b ≤ 1415 * k := by
  have h1 := h.hb1; have h0 := h.hk0; have hb := h.hb0
  by_contra hc
  have hc' : 1415 * k + 1 ≤ 1000 * b := by omega
  have : (1415 * k + 1) ^ 2 ≤ (1000 * b) ^ 2 := pow_le_pow_left₀ (by omega) hc' 2
  nlinarith

theorem b_le : b ≤ 2147483648 := by
  have h1 := h.hb1; have h2 := h.hk1; have hb := h.hb0
  by_contra hc
  have : 2147483649 ≤ b := by omega
  nlinarith

theorem b_ge : 92404 ≤ b := by
  have := h.b_lower; have := h.hk0; omega

theorem aM_le_bsq : a * 4294967296 ≤ b ^ 2 := by
  have h1 := h.ha0; have h2 := h.hb2; have h3 := h.b_upper; have h0 := h.hk0; have hb := h.hb0
  nlinarith

theorem bsq_lt : b ^ 2 < 2 * (a + 1) * 4294967296 := by
  have h1 := h.ha1; have h2 := h.hb1
  linarith

/-- `4a ≤ b + 2` -/
theorem four_a_le : 4 * a ≤ b + 2 := by
  have h1 := h.ha0; have h2 := h.hb2; have h3 := h.b_le; have hb := h.hb0; have ha := h.a_ge
  by_contra hc
  have hc' : b + 3 ≤ 4 * a := by omega
  -- 2 a M < (b+1)^2 ≤ (b+1)(2^31+1); 4a ≥ b+3
  have : (b + 1) * (b + 1) ≤ (b + 1) * 2147483649 := mul_le_mul_of_nonneg_left (by omega) (by omega)
  nlinarith

theorem two_a_lt : 2 * a < b := by
  have := h.four_a_le; have := h.b_ge; omega

/-- in the small regime `b ≤ 2^24` the gain `a` is negligible against `b` -/
theorem small_a (hs : b ≤ 16777216) : 500 * a ≤ b := by
  have h1 := h.ha0; have h2 := h.hb2; have hb := h.hb0; have ha := h.a_ge; have hbg := h.b_ge
  by_contra hc
  have hc' : b + 1 ≤ 500 * a := by omega
  have : (b + 1) * (b + 1) ≤ (b + 1) * 16777217 := mul_le_mul_of_nonneg_left (by omega) (by omega)
  nlinarith

/-- in the regime `b ≥ 2^24` the gain `a` is at least `2^13` -/
theorem large_a (hl : 16777216 ≤ b) : 8192 ≤ a := by
  have h1 := h.bsq_lt
  by_contra hc
  have hc' : a + 1 ≤ 8192 := by omega
  have : 16777216 * 16777216 ≤ b * b := mul_le_mul hl hl (by omega) (by omega)
  nlinarith

/-- the characteristic roots are complex for EVERY documented configuration -/
theorem disc_pos : 0 < lp2Disc a b := by
  have h1 := h.bsq_lt; have ha := h.a_ge; have hal := h.a_le; have hb := h.hb0; have hbl := h.b_le
  have h4 := h.four_a_le
  unfold lp2Disc
  rcases (show a = 1 ∨ 2 ≤ a by omega) with rfl | ha2
  · -- k ≤ 92681, b ≤ 131070
    have hk : k ≤ 92681 := by
      have := h.ha1
      by_contra hc
      have : 92682 ≤ k := by omega
      nlinarith
    have hb' : b ≤ 131070 := by
      have := h.hb1; have := h.hk0
      by_contra hc
      have : 131071 ≤ b := by omega
      nlinarith
    nlinarith
  · -- (a+b)^2 = a^2 + 2ab + b^2 < a^2 + 2ab + 2aM + 2M
    have e1 : a * a ≤ a * 536870912 := mul_le_mul_of_nonneg_left hal (by omega)
    have e2 : a * b ≤ a * 2147483648 := mul_le_mul_of_nonneg_left hbl (by omega)
    rcases (show a = 2 ∨ 3 ≤ a by omega) with rfl | ha3
    · nlinarith
    · nlinarith

theorem adm : Lp2Adm a b :=
  ⟨h.a_ge, by have := h.a_le; omega, h.two_a_lt, h.b_le, h.disc_pos⟩

end Lp2Butter
end Idsp
