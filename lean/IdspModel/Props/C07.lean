import IdspModel.Model.Rpll
import IdspModel.Lemmas.Basic
import IdspModel.Lemmas.Eval
import IdspModel.Lemmas.RpllStep
import IdspModel.Lemmas.RpllDead
import IdspModel.Lemmas.RpllExact
import IdspModel.Lemmas.RpllSched
import IdspModel.Lemmas.RpllPeriod
/-!
# C07 — RPLL: returned pair, panic-freedom contract, frequency-loop dead band, and the lock clause is FALSE

`RPLL.update m s input sf sp` models `RPLL::update(input, shift_frequency, shift_phase)`.

* proved for all states/inputs: the returned pair equals `(phase(), frequency())`; exact no-panic contract;
  `None` only advances the phase; closed form of the frequency loop and its rounding dead band.
* the lock speed/accuracy clause (`rpll_lock_full`) is **false** for the code:
  `rpll_lock_full_false` refutes it formally (finding F-C07-b, `dt2 = 2, P = 6, sf = 3, sp = 2`: never locks, run
  from `RPLL::new(2)` entirely inside the kernel), and `rpll_lock_phase_false_witness` exhibits the dead-band
  phase offset of finding F-C07-a (`dt2 = 8, P = 990, sf = 23, sp = 22`: 0.01616 turns for ever on a closed orbit).
  No convergence theorem is proved for any part of the admissible region.

Definitions used in the statements (`Lemmas/RpllStep.lean`, `Lemmas/RpllSched.lean`, `Lemmas/RpllPeriod.lean`):
`RPLL.next s x sf sp` / `RPLL.nextNone s` closed forms of one update; `RPLL.inRange` field ranges;
`RpllCfg = ⟨d, P, off, sf, sp⟩` noise-free configuration, `c.sched k` timestamp given to update `k` (at counter
time `2^d·k`), `c.run m k0 n s` the state after updates `k0 … k0+n−1`, `c.err k y` wrapped phase error of output
`y` against `floor(((2^d·k − off) mod P)·2^32/P)`; `RPLL.shiftX a s` = `s` with the stored timestamp moved by `a`.
-/
namespace Idsp
set_option linter.unusedSimpArgs false

/-! ## 1. returned pair -/

/-- **The returned pair always equals the getters**: whenever `update` returns (either build profile, any state,
    any input, any shifts), the returned `(y, f)` are the `y` (`phase()`) and `f` (`frequency()`) fields of the
    new state. -/
theorem rpll_returns_getters (m : Mode) (s s' : RPLL) (input : Option Int) (sf sp y f : Int)
    (h : RPLL.update m s input sf sp = .ok (s', y, f)) : y = s'.y ∧ f = s'.f := by
  unfold RPLL.update at h
  simp only [bind, Except.bind] at h
  repeat' (split at h <;> try contradiction)
  all_goals (simp only [Except.ok.injEq, Prod.mk.injEq] at h; obtain ⟨rfl, rfl, rfl⟩ := h; exact ⟨rfl, rfl⟩)

/-! ## 3. `None` only advances the phase -/

/-- **`update(None, ..)` changes only `y`**: under the two `debug_assert`s (`dt2 ≤ sf`, `dt2 ≤ sp`), in both
    profiles, the new phase is `y +w (f as i32)`; `x, ff, f, dt2` are unchanged; returned is `(y', f)`. -/
theorem rpll_none_advances (m : Mode) (s : RPLL) (sf sp : Int) (hsf : s.dt2 ≤ sf) (hsp : s.dt2 ≤ sp) :
    RPLL.update m s none sf sp =
      .ok ({ s with y := wrapI 32 (s.y + wrapI 32 s.f) }, wrapI 32 (s.y + wrapI 32 s.f), s.f) :=
  rpll_update_none_eq m s sf sp hsf hsp

/-- in a release build the same holds without any condition on the shifts -/
theorem rpll_none_advances_release (s : RPLL) (sf sp : Int) :
    RPLL.update .release s none sf sp =
      .ok ({ s with y := wrapI 32 (s.y + wrapI 32 s.f) }, wrapI 32 (s.y + wrapI 32 s.f), s.f) := by
  simp only [RPLL.update, dbgAssert, bind_ok']

/-- a violated assert panics in a checked build even for `None` -/
theorem rpll_none_contract (s : RPLL) (sf sp : Int) :
    (sf < s.dt2 → RPLL.update .checked s none sf sp
      = .error ⟨"rpll.rs:53 debug_assert!(shift_frequency >= self.dt2)"⟩) ∧
    (s.dt2 ≤ sf → sp < s.dt2 → RPLL.update .checked s none sf sp
      = .error ⟨"rpll.rs:54 debug_assert!(shift_phase >= self.dt2)"⟩) := by
  constructor
  · intro h
    have : decide (sf ≥ s.dt2) = false := by simp; omega
    simp only [RPLL.update, this, dbgAssert_checked_false, bind_error']
  · intro h1 h2
    have a : decide (sf ≥ s.dt2) = true := by simp; omega
    have b : decide (sp ≥ s.dt2) = false := by simp; omega
    simp only [RPLL.update, a, b, dbgAssert_true, dbgAssert_checked_false, bind_ok', bind_error']

/-! ## 2. exact no-panic contract -/

/-- **No panic under the contract, `Some(x)`**: for an in-range state and timestamp, if
    `0 ≤ dt2 ≤ 30` (`(1 << dt2) − 1` on `i32`), `dt2 < sf ≤ 32` (`1u32 << (32+dt2−sf)` resp. `1u32 << (sf−1)`),
    `dt2 ≤ sp < dt2 + 32` (assert resp. `>> (sp−dt2)` on `i32`) and the timestamp difference `x −w self.x` is
    non-negative (else `dx as u64` sign-extends and `ff as u64 * dx as u64` overflows), then the checked build
    returns the closed form `s.next x sf sp` (in range again) with `(phase(), frequency())`, and the release build
    returns the same. -/
theorem rpll_total_under_contract (s : RPLL) (x sf sp : Int) (hs : s.inRange) (hx : inI 32 x = true)
    (hd0 : 0 ≤ s.dt2) (hd1 : s.dt2 ≤ 30) (hsf0 : s.dt2 < sf) (hsf1 : sf ≤ 32)
    (hsp0 : s.dt2 ≤ sp) (hsp1 : sp - s.dt2 < 32) (hdx : 0 ≤ wrapI 32 (x - s.x)) :
    RPLL.update .checked s (some x) sf sp = .ok (s.next x sf sp, (s.next x sf sp).y, (s.next x sf sp).f) ∧
    RPLL.update .release s (some x) sf sp = RPLL.update .checked s (some x) sf sp ∧
    (s.next x sf sp).inRange :=
  ⟨rpll_update_some_eq .checked s x sf sp hs.2.2.1 hd0 hd1 hsf0 hsf1 hsp0 hsp1 hdx,
   by rw [rpll_update_some_eq .checked s x sf sp hs.2.2.1 hd0 hd1 hsf0 hsf1 hsp0 hsp1 hdx,
          rpll_update_some_eq .release s x sf sp hs.2.2.1 hd0 hd1 hsf0 hsf1 hsp0 hsp1 hdx],
   rpll_nextP_inRange s _ x sf sp hs hx⟩

/-- **No panic under the contract, `None`**: only the two asserts are needed. -/
theorem rpll_total_under_contract_none (s : RPLL) (sf sp : Int) (hs : s.inRange)
    (hsf : s.dt2 ≤ sf) (hsp : s.dt2 ≤ sp) :
    RPLL.update .checked s none sf sp = .ok (s.nextNone, s.nextNone.y, s.nextNone.f) ∧
    RPLL.update .release s none sf sp = RPLL.update .checked s none sf sp ∧ s.nextNone.inRange :=
  ⟨rpll_update_none_eq .checked s sf sp hsf hsp,
   by rw [rpll_update_none_eq .checked s sf sp hsf hsp, rpll_update_none_eq .release s sf sp hsf hsp],
   rpll_nextNone_inRange s hs⟩

/-- **The contract is exact**: for an in-range state, a checked `update(Some(x), sf, sp)` returns (does not panic)
    **iff** `dt2 ≤ 30`, `dt2 < sf ≤ 32`, `dt2 ≤ sp < dt2 + 32` and the `u64` computation
    `ff as u64 * dx as u64 + (1 << (sf−1))` does not overflow, where `dx as u64` is the sign-extended
    (`wrapU 64`) timestamp difference. -/
theorem rpll_checked_ok_iff (s : RPLL) (x sf sp : Int) (hs : s.inRange) :
    (∃ r, RPLL.update .checked s (some x) sf sp = .ok r) ↔
      (s.dt2 ≤ 30 ∧ s.dt2 < sf ∧ sf ≤ 32 ∧ s.dt2 ≤ sp ∧ sp - s.dt2 < 32 ∧
       s.ff * wrapU 64 (wrapI 32 (x - s.x)) + 2 ^ (sf - 1).toNat < 2 ^ 64) := by
  have hd0 := (inU_iff.mp hs.1).1
  constructor
  · rintro ⟨r, h⟩
    obtain ⟨h1, h2, h3, h4, h5, -, h7⟩ := rpll_checked_some_ok_inv s x sf sp r hd0 h
    exact ⟨h1, h2, h3, h4, h5, h7⟩
  · rintro ⟨h1, h2, h3, h4, h5, h7⟩
    exact ⟨_, rpll_update_some_eqP .checked s x sf sp hd0 h1 h2 h3 h4 h5
      (Int.mul_nonneg (inU_iff.mp hs.2.2.1).1 (wrapU_bounds 64 _).1) h7⟩

/-- **a timestamp that goes backwards panics the checked build** as soon as `ff ≥ 2`
    (`dx as u64` is ≥ 2^64 − 2^31 then, and the `u64` product overflows), whatever the shifts. -/
theorem rpll_negative_dx_panics (s : RPLL) (x sf sp : Int) (hs : s.inRange)
    (hdx : wrapI 32 (x - s.x) < 0) (hff : 2 ≤ s.ff) :
    ¬ ∃ r, RPLL.update .checked s (some x) sf sp = .ok r := by
  rw [rpll_checked_ok_iff s x sf sp hs]
  rintro ⟨-, -, -, -, -, h⟩
  have hdxi := inI_iff.mp (wrapI_in (by decide : 0 < 32) (x - s.x))
  simp only [show (32 : Nat) - 1 = 31 from rfl, Int.reducePow, Int.reduceNeg] at hdxi h
  have hw : 18446744071562067968 ≤ wrapU 64 (wrapI 32 (x - s.x)) := by
    unfold wrapU; simp only [Int.reducePow]; omega
  have := Int.mul_le_mul_of_nonneg_right hff (Int.le_trans (by decide) hw)
  have := two_pow_pos (sf - 1).toNat
  omega

-- the hypotheses are satisfiable by a non-trivial state; and every side condition is needed (checked build):
example : RPLL.update .checked ⟨8, 1000, 1110613570, 1110617805, 5⟩ (some 1990) 23 22
    = .ok (⟨8, 1990, 1110613570, 1110561141, 1110617810⟩, 1110617810, 1110561141) := by decide
example : RPLL.update .checked ⟨8, 0, 0, 0, 0⟩ (some 5) 7 22         -- sf < dt2
    = .error ⟨"rpll.rs:53 debug_assert!(shift_frequency >= self.dt2)"⟩ := by decide
example : RPLL.update .checked ⟨8, 0, 0, 0, 0⟩ (some 5) 23 7         -- sp < dt2
    = .error ⟨"rpll.rs:54 debug_assert!(shift_phase >= self.dt2)"⟩ := by decide
example : RPLL.update .checked ⟨8, 0, 0, 0, 0⟩ (some 5) 8 8          -- sf = dt2 passes the assert, then panics
    = .error ⟨"rpll.rs:68 1u32 << (..)"⟩ := by decide
example : RPLL.update .checked ⟨8, 0, 0, 0, 0⟩ (some 5) 33 22        -- sf = 33
    = .error ⟨"rpll.rs:66 1u32 << (shift_frequency - 1)"⟩ := by decide
example : RPLL.update .checked ⟨8, 0, 0, 0, 0⟩ (some 5) 0 22 = .error ⟨"rpll.rs:53 debug_assert!(shift_frequency >= self.dt2)"⟩ ∧
    RPLL.update .checked ⟨0, 0, 0, 0, 0⟩ (some 5) 0 22               -- sf = 0 (dt2 = 0)
    = .error ⟨"rpll.rs:66 shift_frequency - 1"⟩ := by decide
example : RPLL.update .checked ⟨31, 0, 0, 0, 0⟩ (some 5) 32 31       -- dt2 = 31
    = .error ⟨"rpll.rs:72 (1 << self.dt2) - 1"⟩ := by decide
example : RPLL.update .checked ⟨8, 0, 0, 0, 0⟩ (some 5) 23 40        -- sp − dt2 = 32
    = .error ⟨"rpll.rs:76 >> (shift_phase - self.dt2)"⟩ := by decide
example : RPLL.update .checked ⟨8, 1000, 2, 0, 0⟩ (some 999) 23 22   -- timestamp goes back by 1, ff = 2
    = .error ⟨"rpll.rs:63 ff as u64 * dx as u64"⟩ := by decide
-- … and the release build then silently computes with the wrapped product:
example : RPLL.update .release ⟨8, 1000, 2, 0, 0⟩ (some 999) 23 22
    = .ok (⟨8, 999, 131074, 131074, 0⟩, 0, 131074) := by decide

/-! ## 4. frequency loop: closed form and rounding dead band -/

/-- **closed form of the frequency-loop update**: under the contract of `rpll_total_under_contract`, a `Some(x)`
    update replaces `ff` by `ff +w (p_ref −w p_sig)` with `p_ref = 2^(32+dt2−sf)` and
    `p_sig = ((ff·dx + 2^(sf−1)) div 2^sf) mod 2^32`, `dx = x −w self.x` (both profiles). -/
theorem rpll_ff_update (m : Mode) (s s' : RPLL) (x sf sp y f : Int) (hs : s.inRange)
    (hd0 : 0 ≤ s.dt2) (hd1 : s.dt2 ≤ 30) (hsf0 : s.dt2 < sf) (hsf1 : sf ≤ 32)
    (hsp0 : s.dt2 ≤ sp) (hsp1 : sp - s.dt2 < 32) (hdx : 0 ≤ wrapI 32 (x - s.x))
    (h : RPLL.update m s (some x) sf sp = .ok (s', y, f)) :
    s'.ff = wrapU 32 (s.ff + wrapU 32 (2 ^ (32 + s.dt2 - sf).toNat
              - wrapU 32 ((s.ff * wrapI 32 (x - s.x) + 2 ^ (sf - 1).toNat) / 2 ^ sf.toNat))) := by
  rw [rpll_update_some_eq m s x sf sp hs.2.2.1 hd0 hd1 hsf0 hsf1 hsp0 hsp1 hdx] at h
  simp only [Except.ok.injEq, Prod.mk.injEq] at h
  rw [← h.1]; rfl

/-- **dead band, sufficient form**: if the half-up rounded quotient `(ff·dx + 2^(sf−1)) div 2^sf` equals
    `p_ref = 2^(32+dt2−sf)` then the update leaves `ff` unchanged. -/
theorem rpll_dead_band (m : Mode) (s s' : RPLL) (x sf sp y f : Int) (hs : s.inRange)
    (hd0 : 0 ≤ s.dt2) (hd1 : s.dt2 ≤ 30) (hsf0 : s.dt2 < sf) (hsf1 : sf ≤ 32)
    (hsp0 : s.dt2 ≤ sp) (hsp1 : sp - s.dt2 < 32) (hdx : 0 ≤ wrapI 32 (x - s.x))
    (h : RPLL.update m s (some x) sf sp = .ok (s', y, f))
    (hq : (s.ff * wrapI 32 (x - s.x) + 2 ^ (sf - 1).toNat) / 2 ^ sf.toNat = 2 ^ (32 + s.dt2 - sf).toNat) :
    s'.ff = s.ff := by
  rw [rpll_ff_update m s s' x sf sp y f hs hd0 hd1 hsf0 hsf1 hsp0 hsp1 hdx h, hq]
  have ⟨h0, h1⟩ := inU_iff.mp hs.2.2.1
  have he : (2 : Int) ^ (32 + s.dt2 - sf).toNat < 2 ^ 32 := two_pow_lt (by omega)
  have he0 := two_pow_pos (32 + s.dt2 - sf).toNat
  exact (rpll_ff_fixed_iff h0 h1 (Int.le_of_lt he0) he (Int.le_of_lt he0) he).mpr rfl

/-- **dead band, exact form**: as long as the rounded quotient fits `u32` (it always does near lock),
    `ff' = ff` **iff** `2^(32+dt2) − 2^(sf−1) ≤ ff·dx < 2^(32+dt2) + 2^(sf−1)`.  For a fixed period `dx = P` these
    are the `≈ 2^sf / P` consecutive values `ff ∈ [⌈(2^(32+dt2) − 2^(sf−1))/P⌉, ⌈(2^(32+dt2) + 2^(sf−1))/P⌉)`:
    on all of them the frequency loop is at rest although only one of them is nearest to `2^(32+dt2)/P`. -/
theorem rpll_dead_band_iff (m : Mode) (s s' : RPLL) (x sf sp y f : Int) (hs : s.inRange)
    (hd0 : 0 ≤ s.dt2) (hd1 : s.dt2 ≤ 30) (hsf0 : s.dt2 < sf) (hsf1 : sf ≤ 32)
    (hsp0 : s.dt2 ≤ sp) (hsp1 : sp - s.dt2 < 32) (hdx : 0 ≤ wrapI 32 (x - s.x))
    (h : RPLL.update m s (some x) sf sp = .ok (s', y, f))
    (hq : (s.ff * wrapI 32 (x - s.x) + 2 ^ (sf - 1).toNat) / 2 ^ sf.toNat < 2 ^ 32) :
    s'.ff = s.ff ↔
      2 ^ (32 + s.dt2).toNat - 2 ^ (sf - 1).toNat ≤ s.ff * wrapI 32 (x - s.x) ∧
      s.ff * wrapI 32 (x - s.x) < 2 ^ (32 + s.dt2).toNat + 2 ^ (sf - 1).toNat := by
  rw [rpll_ff_update m s s' x sf sp y f hs hd0 hd1 hsf0 hsf1 hsp0 hsp1 hdx h]
  have ⟨h0, h1⟩ := inU_iff.mp hs.2.2.1
  have he : (2 : Int) ^ (32 + s.dt2 - sf).toNat < 2 ^ 32 := two_pow_lt (by omega)
  have he0 := two_pow_pos (32 + s.dt2 - sf).toNat
  have hq0 : 0 ≤ (s.ff * wrapI 32 (x - s.x) + 2 ^ (sf - 1).toNat) / 2 ^ sf.toNat :=
    Int.ediv_nonneg (Int.add_nonneg (Int.mul_nonneg h0 hdx) (Int.le_of_lt (two_pow_pos _)))
      (Int.le_of_lt (two_pow_pos _))
  rw [rpll_ff_fixed_iff h0 h1 (Int.le_of_lt he0) he hq0 hq]
  exact rpll_quot_eq_iff _ s.dt2 sf hd0 (by omega) (by omega)

-- non-vacuity of `rpll_dead_band`: witness A's state one reference period later (`dx = 990`), quotient = `p_ref = 2^17`
example : (rpllStar.ff * wrapI 32 (rpllStar.x + 990 - rpllStar.x) + 2 ^ (23 - 1 : Int).toNat) / 2 ^ (23 : Int).toNat
    = 2 ^ (32 + rpllStar.dt2 - 23).toNat ∧
    RPLL.update .checked rpllStar (some (rpllStar.x + 990)) 23 22
      = .ok (⟨8, 402653151, rpllStar.ff, 1110617806, 73762782⟩, 73762782, 1110617806) := by decide

/-- the dead band of witness A (`dt2 = 8, sf = 23, P = 990`) in numbers: 8473 ≈ 2^23/990 consecutive values of
    `ff`; the ideal value `2^40/990 ≈ 1110617805.8` is in the middle, the witness orbit sits on its lowest
    value `1110613570` (the loop crept up from 0 and stopped at the edge). -/
example (ff : Int) : (2 ^ 40 - 2 ^ 22 ≤ ff * 990 ∧ ff * 990 < 2 ^ 40 + 2 ^ 22) ↔
    (1110613570 ≤ ff ∧ ff < 1110613570 + 8473) := by
  simp only [Int.reducePow]; omega

/-! ## 5. the lock clause -/

/-- **The full lock statement of C07** (never used as a hypothesis; it is FALSE, see `rpll_lock_full_false`):
    for every admissible configuration — `2^dt2 < P < 2^sf ≤ 2^30`, `P < 2^(sp+1)`, `sp ∈ {sf−1, sf}`, any edge
    offset — in either profile, every update from number `2^(sf−dt2+5) + 2^(sp−dt2+5)` on returns without panic
    a frequency within relative `1e-5` of `2^(32+dt2)/P` and a phase within `1e-3` turns of the reference phase
    (`c.err` compares with the reference phase rounded down to a multiple of `2^-32` turns, i.e. this formal
    statement differs from the real-valued one by less than `2.4e-10` turns; the witnesses miss by ≥ 0.016 turns). -/
def rpll_lock_full : Prop :=
  ∀ (m : Mode) (c : RpllCfg), 2 ^ c.d < c.P → c.P < 2 ^ c.sf.toNat → c.sf ≤ 30 → c.P < 2 ^ (c.sp + 1).toNat →
    (c.sp = c.sf - 1 ∨ c.sp = c.sf) → 0 ≤ c.off → c.off < c.P →
    ∀ n : Nat, 2 ^ (c.sf - c.d + 5).toNat + 2 ^ (c.sp - c.d + 5).toNat ≤ n →
      ∃ s s' y f, c.run m 0 n (RPLL.new c.d) = .ok s ∧
        RPLL.update m s (c.sched n) c.sf c.sp = .ok (s', y, f) ∧
        100000 * ((f * c.P - 2 ^ (32 + c.d)).natAbs : Int) ≤ 2 ^ (32 + c.d) ∧
        1000 * ((c.err n y).natAbs : Int) ≤ 2 ^ 32

-- the schedule convention on witness A (`P = 990`, first edge at 351, updates at 0, 256, 512, …): the harness of `rpll.rs`
-- hands edge 351 to the update at time 512, edge 1341 to the update at 1536, nothing to the updates at 0, 256, 768
example : rpllCfgA.sched 0 = none ∧ rpllCfgA.sched 1 = none ∧ rpllCfgA.sched 2 = some 351 ∧
    rpllCfgA.sched 3 = none ∧ rpllCfgA.sched 6 = some 1341 := by decide
-- witness A is admissible for `rpll_lock_full`, and the stated number of updates is 1572864
example : (2 : Int) ^ rpllCfgA.d < rpllCfgA.P ∧ rpllCfgA.P < 2 ^ rpllCfgA.sf.toNat ∧ rpllCfgA.sf ≤ 30 ∧
    rpllCfgA.P < 2 ^ (rpllCfgA.sp + 1).toNat ∧ rpllCfgA.sp = rpllCfgA.sf - 1 ∧ 0 ≤ rpllCfgA.off ∧
    rpllCfgA.off < rpllCfgA.P ∧
    2 ^ (rpllCfgA.sf - rpllCfgA.d + 5).toNat + 2 ^ (rpllCfgA.sp - rpllCfgA.d + 5).toNat = 1572864 := by decide

/-- **Witness B never locks** (finding F-C07-b; `dt2 = 2, P = 6, first edge at tick 1, sf = 3, sp = 2`, admissible:
    `4 < 6 < 8`, `6 < 2^3`, `sp = sf − 1`): started from `RPLL::new(2)`, at EVERY update from number
    `96 = 2^(3−2+5) + 2^(2−2+5)` on (no panic, both profiles) the phase error exceeds `1e-3` turns AND the relative
    frequency error exceeds `1e-5` (they are in fact ≥ 0.027 turns and ≥ 0.16: the outputs oscillate for ever).
    Proof: kernel evaluation of updates 0…320 (the state before update 321 is the state before update 315 moved by
    24 ticks = 4 periods) and time-shift equivariance of `update`. -/
theorem rpll_never_locks_B (m : Mode) (n : Nat) (hn : 96 ≤ n) :
    ∃ s s' y f, rpllCfgB.run m 0 n (RPLL.new 2) = .ok s ∧
      RPLL.update m s (rpllCfgB.sched n) 3 2 = .ok (s', y, f) ∧
      2 ^ 32 < 1000 * ((rpllCfgB.err n y).natAbs : Int) ∧ 2 ^ 34 < 100000 * ((f * 6 - 2 ^ 34).natAbs : Int) := by
  have hgood : ∀ e f, rpllGoodB e f = true →
      2 ^ 32 < 1000 * (e.natAbs : Int) ∧ 2 ^ 34 < 100000 * ((f * 6 - 2 ^ 34).natAbs : Int) := by
    intro e f h; simpa [rpllGoodB] using h
  have htr := rpllChk_sound rpllCfgB m rpllGoodB 219 96 rpllB96 _ (rpllB_transient m)
  by_cases hlt : n < 315
  · obtain ⟨i, rfl⟩ : ∃ i, n = 96 + i := ⟨n - 96, by omega⟩
    obtain ⟨si, si', y, f, h1, h2, h3⟩ := htr.2 i (by omega)
    exact ⟨si, si', y, f, by rw [rpllRun_add, rpllB_reach, bind_ok', h1], h2, hgood _ _ h3⟩
  · obtain ⟨i, rfl⟩ : ∃ i, n = 315 + i := ⟨n - 315, by omega⟩
    obtain ⟨s, s', y, f, h1, h2, h3⟩ := rpll_orbit_forever rpllCfgB 6 4 (by decide) (by decide) (by decide) m
      rpllGoodB 315 rpllB315 rfl (by decide) (rpllB_orbit m) i
    refine ⟨s, s', y, f, ?_, h2, hgood _ _ h3⟩
    rw [rpllRun_add, show 315 = 96 + 219 from rfl, rpllRun_add, rpllB_reach, bind_ok', htr.1, bind_ok']
    exact h1

/-- **the lock clause of C07 is false for the code** -/
theorem rpll_lock_full_false : ¬ rpll_lock_full := by
  intro h
  obtain ⟨s, s', y, f, h1, h2, h3, h4⟩ :=
    h .checked rpllCfgB (by decide) (by decide) (by decide) (by decide) (by decide) (by decide) (by decide) 96
      (by decide)
  obtain ⟨t, t', y', f', g1, g2, g3, g4⟩ := rpll_never_locks_B .checked 96 (Nat.le_refl _)
  rw [show rpllCfgB.run .checked 0 96 (RPLL.new 2) = .ok s from h1] at g1
  cases g1
  rw [show rpllCfgB.sf = 3 from rfl, show rpllCfgB.sp = 2 from rfl, g2] at h2
  cases h2
  exact absurd h4 (by omega)

/-- **Witness A: dead-band phase offset for ever** (finding F-C07-a; `dt2 = 8, P = 990, first edge at tick 351,
    sf = 23, sp = 22`, admissible: `256 < 990 < 2^23`, `sp = sf − 1`).  `rpllStar` is the state of the real code
    after the stated `1572864 = 2^20 + 2^19` updates from `RPLL::new(8)` (checked by `#eval` of the model and by the
    Rust harness, NOT by kernel evaluation: too long).  Started there, at EVERY later update `1572864 + n` (no panic,
    both profiles) the phase output is between 69402780 and 69402800 units of `2^-32` turns behind the true
    reference phase, i.e. off by ≈ 0.016159 turns > 1e-3 turns, for ever (predicted by the dead band:
    `2^(sf+sp−dt2−33)/P = 0.01616`).
    Proof: kernel evaluation of one closed orbit (1980 updates = 4 joint patterns of 495 updates = 512 reference
    periods, both profiles), time-shift equivariance of `update`, induction over the number of orbits. -/
theorem rpll_lock_phase_false_witness (m : Mode) (n : Nat) :
    ∃ s s' y f, rpllCfgA.run m 1572864 n rpllStar = .ok s ∧
      RPLL.update m s (rpllCfgA.sched (1572864 + n)) 23 22 = .ok (s', y, f) ∧
      -69402800 ≤ rpllCfgA.err (1572864 + n) y ∧ rpllCfgA.err (1572864 + n) y ≤ -69402780 ∧
      2 ^ 32 < 1000 * ((rpllCfgA.err (1572864 + n) y).natAbs : Int) := by
  obtain ⟨s, s', y, f, h1, h2, h3⟩ := rpll_orbit_forever rpllCfgA 1980 512 (by decide) (by decide) (by decide) m
    rpllGoodA 1572864 rpllStar rfl (by decide) (rpllStar_orbit m) n
  have h4 : -69402800 ≤ rpllCfgA.err (1572864 + n) y ∧ rpllCfgA.err (1572864 + n) y ≤ -69402780 := by
    simpa [rpllGoodA] using h3
  exact ⟨s, s', y, f, h1, h2, h4.1, h4.2, by omega⟩

/-- on witness A's orbit the frequency loop is at rest inside its dead band, about 4236 LSB below the ideal value -/
example : (2 : Int) ^ 40 - 2 ^ 22 ≤ rpllStar.ff * 990 ∧ rpllStar.ff * 990 < 2 ^ 40 + 2 ^ 22 := by decide

end Idsp
