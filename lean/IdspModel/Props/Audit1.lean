import IdspModel.Props.C05
import IdspModel.Props.C12
import IdspModel.Props.C16
import IdspModel.Props.C17
import IdspModel.Props.C18
import IdspModel.Lemmas.Audit1
/-!
# Audit 1 — strengthened forms of C05, C12, C16, C17, C18 statements

Property theorems only (helper lemmas: `Lemmas/Audit1.lean`).  Each section says which existing theorem it sharpens.
-/
namespace Idsp
set_option linter.unusedVariables false

/-! ## 1. C05 `macc`: checked profile, `.ok` IFF the exact total fits -/

/-- `macc`, checked, generic `(w, q)`: in-range offset `u`, in-range aligned limits, remainder `0 ≤ e1 < ONE`, ANY
    accumulator input `s`: the call returns EXACTLY when the exact total `T = s + u·ONE + e1` fits the `2w`-bit
    accumulator (`macc_exact` ⇐, `macc_checked_overflow` ⇒). -/
theorem aud_macc_checked_ok_iff (w q : Nat) (hw : 0 < w) (hq : q ≤ w) (u s mn mx e1 : Int)
    (hu : inI w u = true) (hmn : inI w mn = true) (hmx : inI w mx = true)
    (amn : mn % 2 ^ (w - q) = 0) (amx : mx % 2 ^ (w - q) = 2 ^ (w - q) - 1)
    (he0 : 0 ≤ e1) (he1 : e1 < 2 ^ q) :
    (∃ v, macc .checked w q u s mn mx e1 = .ok v) ↔ inI (2 * w) (s + u * 2 ^ q + e1) = true := by
  constructor
  · rintro ⟨v, hv⟩
    by_contra hT
    rw [macc_checked_overflow w q hw hq u s mn mx e1 hu he0 he1 (by simpa using hT)] at hv
    cases hv
  · intro hT
    exact ⟨_, (macc_exact .checked w q hw hq u s mn mx e1 hu hmn hmx amn amx he0 he1 hT).1⟩

/-! ## 2. C05 `mul_scaled` / `div_scaled`: when is the result the unwrapped value? -/

/-- `mul_scaled`, either profile, `0 < q < w`, in-range operands, `V = ⌊(a·b + ONE/2)/ONE⌋`:
    * `V` is representable in `w` bits EXACTLY when `−2^(w−1)·ONE ≤ a·b + ONE/2 < 2^(w−1)·ONE`;
    * then the result IS `V` (no wrap), and otherwise it is NOT `V` (it is `V` reduced modulo `2^w`). -/
theorem aud_mul_scaled_value (m : Mode) (w q : Nat) (hq0 : 0 < q) (hq : q < w) (a b : Int)
    (ha : inI w a = true) (hb : inI w b = true) :
    (inI w ((a * b + 2 ^ (q - 1)) / 2 ^ q) = true ↔
      -(2 ^ (w - 1) * 2 ^ q) ≤ a * b + 2 ^ (q - 1) ∧ a * b + 2 ^ (q - 1) < 2 ^ (w - 1) * 2 ^ q) ∧
    (inI w ((a * b + 2 ^ (q - 1)) / 2 ^ q) = true →
      mulScaled m w q a b = .ok ((a * b + 2 ^ (q - 1)) / 2 ^ q)) ∧
    (inI w ((a * b + 2 ^ (q - 1)) / 2 ^ q) = false →
      mulScaled m w q a b ≠ .ok ((a * b + 2 ^ (q - 1)) / 2 ^ q)) := by
  obtain ⟨h1, h2⟩ := mul_scaled_exact m w q hq0 hq a b ha hb
  refine ⟨?_, h2, fun hf he => ?_⟩
  · rw [inI_iff]; exact aud_ediv_range_iff (two_pow_pos q)
  · rw [h1] at he
    have := wrapI_in (w := w) (by omega) ((a * b + 2 ^ (q - 1)) / 2 ^ q)
    rw [Except.ok.inj he, hf] at this
    cases this

/-- for the crate's formats (`q = w − 2`, two integer bits) the unwrapped value is NOT guaranteed away from
    `a = b = MIN`: representability fails on the whole region where the real product is outside `[−2, 2)`, e.g.
    `(+1.98)·(+1.98)` on `i8`/Q2.6 (`a = b = 127`, `V = 252`, result `−4`). -/
theorem aud_mul_scaled_wraps_witness :
    inI 8 ((127 * 127 + 2 ^ (6 - 1)) / 2 ^ 6) = false ∧ (127 * 127 + 2 ^ (6 - 1)) / 2 ^ 6 = (252 : Int) ∧
    mulScaled .checked 8 6 127 127 = .ok (-4) ∧ mulScaled .checked 8 6 96 96 = .ok (-112) := by decide

/-- sufficient condition in terms of the operands, any format: if the product of the magnitudes is below
    `2^(w−1)·ONE − ONE/2` (for `q = w − 2`: the real product is inside `(−2 + 2^-(q+1), 2 − 2^-(q+1))`), the result is
    the unwrapped value. -/
theorem aud_mul_scaled_value_of_small (m : Mode) (w q : Nat) (hq0 : 0 < q) (hq : q < w) (a b : Int)
    (ha : inI w a = true) (hb : inI w b = true)
    (h1 : -(2 ^ (w - 1) * 2 ^ q) ≤ a * b + 2 ^ (q - 1)) (h2 : a * b + 2 ^ (q - 1) < 2 ^ (w - 1) * 2 ^ q) :
    mulScaled m w q a b = .ok ((a * b + 2 ^ (q - 1)) / 2 ^ q) := by
  obtain ⟨e, h, -⟩ := aud_mul_scaled_value m w q hq0 hq a b ha hb
  exact h (e.mpr ⟨h1, h2⟩)

/-- `div_scaled`, `q ≤ w`, in-range dividend, non-zero divisor, `Q = trunc(a·ONE / b)` (toward zero):
    * `Q` is representable in `w` bits EXACTLY when, for `b > 0`, `−(2^(w−1)+1)·b < a·ONE < 2^(w−1)·b`, and for
      `b < 0`, `2^(w−1)·b < a·ONE < −(2^(w−1)+1)·b` (i.e. the real quotient lies in `(−2^(w−1) − 1, 2^(w−1))`);
    * then the result IS `Q`, otherwise it is NOT `Q` (it is `Q` reduced modulo `2^w`). -/
theorem aud_div_scaled_value (w q : Nat) (hw : 0 < w) (hq : q ≤ w) (a b : Int) (ha : inI w a = true)
    (hb : b ≠ 0) :
    (inI w (Int.tdiv (a * 2 ^ q) b) = true ↔
      (0 < b ∧ -((2 ^ (w - 1) + 1) * b) < a * 2 ^ q ∧ a * 2 ^ q < 2 ^ (w - 1) * b) ∨
      (b < 0 ∧ 2 ^ (w - 1) * b < a * 2 ^ q ∧ a * 2 ^ q < -((2 ^ (w - 1) + 1) * b))) ∧
    (inI w (Int.tdiv (a * 2 ^ q) b) = true → divScaled w q a b = .ok (Int.tdiv (a * 2 ^ q) b)) ∧
    (inI w (Int.tdiv (a * 2 ^ q) b) = false → divScaled w q a b ≠ .ok (Int.tdiv (a * 2 ^ q) b)) := by
  obtain ⟨-, h1, h2⟩ := div_scaled_exact w q hw hq a b ha
  refine ⟨?_, h2 hb, fun hf he => ?_⟩
  · rw [inI_iff]; exact aud_tdiv_range_iff (two_pow_pos (w - 1)) hb
  · rw [h1 hb] at he
    have := wrapI_in (w := w) hw (Int.tdiv (a * 2 ^ q) b)
    rw [Except.ok.inj he, hf] at this
    cases this

/-- in particular `|a|·ONE < 2^(w−1)·|b|` (the real quotient is inside `(−2^(w−1), 2^(w−1))` LSB) suffices -/
theorem aud_div_scaled_value_of_small (w q : Nat) (hw : 0 < w) (hq : q ≤ w) (a b : Int) (ha : inI w a = true)
    (hb : 0 < b) (h1 : -(2 ^ (w - 1) * b) ≤ a * 2 ^ q) (h2 : a * 2 ^ q < 2 ^ (w - 1) * b) :
    divScaled w q a b = .ok (Int.tdiv (a * 2 ^ q) b) := by
  obtain ⟨e, h, -⟩ := aud_div_scaled_value w q hw hq a b ha (by omega)
  refine h (e.mpr (Or.inl ⟨hb, ?_, h2⟩))
  rw [Int.add_mul]; omega

/-! ## 3. C16: the accumulated-error bound from an ARBITRARY invariant state needs no factor 2 -/

/-- `Dsm::<K>`, `1 ≤ K ≤ 7`, ANY state satisfying the invariant, every list of `u32` inputs: nothing panics, the
    accumulated error is the difference of the potentials, and `|2^32·∑ys − ∑xs| < 2^(K−1)·2^32` — the SAME bound as
    `dsm_error_identity` proves from `default()`; the factor 2 of `dsm_error_identity_from` is not needed (the
    invariant confines the potential to `(−2^(K−2)·2^32, 2^(K−2)·2^32]`, half of what `dsm_err_bound` states). -/
theorem aud_dsm_error_bound_from_sharp (s : Dsm) (xs : List Int) (hK1 : 1 ≤ s.a.length) (hK7 : s.a.length ≤ 7)
    (hs : DsmInv s) (hxs : ∀ x ∈ xs, 0 ≤ x ∧ x < 2 ^ 32) :
    ∃ sf ys, Dsm.run .checked s xs = .ok (sf, ys) ∧
      2 ^ 32 * ys.sum - xs.sum = dsmErr sf - dsmErr s ∧
      -(2 ^ (s.a.length - 1) * 2 ^ 32) < 2 ^ 32 * ys.sum - xs.sum ∧
      2 ^ 32 * ys.sum - xs.sum < 2 ^ (s.a.length - 1) * 2 ^ 32 := by
  obtain ⟨e1, e2, e3, -, -⟩ := dsm_run_ok .checked s xs hK1 hK7 hs
  have h := dsmSpecRun_err s xs hK1 hK7 hs hxs
  obtain ⟨d1, d2⟩ := aud_dsmErr_diff s (dsmSpecRun s xs).1 hK1 e3 hs e2
  exact ⟨_, _, e1, h, by rw [h]; exact d1, by rw [h]; exact d2⟩

/-- the same for the exact (unbounded MASH) outputs, `1 ≤ K ≤ 8` (for `K = 8` these are what the release build returns
    modulo `2^8`, see `dsm_run_upto8`). -/
theorem aud_dsm_error_bound_from_sharp_exact_upto8 (s : Dsm) (xs : List Int) (hK1 : 1 ≤ s.a.length)
    (hK8 : s.a.length ≤ 8) (hs : DsmInv s) (hxs : ∀ x ∈ xs, 0 ≤ x ∧ x < 2 ^ 32) :
    -(2 ^ (s.a.length - 1) * 2 ^ 32) < 2 ^ 32 * (dsmSpecRun s xs).2.sum - xs.sum ∧
    2 ^ 32 * (dsmSpecRun s xs).2.sum - xs.sum < 2 ^ (s.a.length - 1) * 2 ^ 32 := by
  obtain ⟨e2, e3, -, -⟩ := dsmSpecRun_inv s xs hK1 hK8 hs
  have h := dsmSpecRun_err_gen s xs hK1 hK8 hs hxs
  obtain ⟨d1, d2⟩ := aud_dsmErr_diff s (dsmSpecRun s xs).1 hK1 e3 hs e2
  exact ⟨by rw [h]; exact d1, by rw [h]; exact d2⟩

/-- by-product: from `default()` and `2 ≤ K ≤ 7` the bound of `dsm_error_identity` / `dsm_const_input_mean` can be
    HALVED: `−2^(K−2)·2^32 < 2^32·∑ys − ∑xs ≤ 2^(K−2)·2^32`. -/
theorem aud_dsm_error_bound_default_half (K : Nat) (hK2 : 2 ≤ K) (hK7 : K ≤ 7) (xs : List Int)
    (hxs : ∀ x ∈ xs, 0 ≤ x ∧ x < 2 ^ 32) :
    ∃ sf ys, Dsm.run .checked (Dsm.default K) xs = .ok (sf, ys) ∧
      -(2 ^ (K - 2) * 2 ^ 32) < 2 ^ 32 * ys.sum - xs.sum ∧ 2 ^ 32 * ys.sum - xs.sum ≤ 2 ^ (K - 2) * 2 ^ 32 := by
  have hl : (Dsm.default K).a.length = K := by simp [Dsm.default]
  obtain ⟨e1, e2, e3, -, -⟩ := dsm_run_ok .checked (Dsm.default K) xs (by omega) (by omega) (dsm_default_inv K)
  have h := dsmSpecRun_err (Dsm.default K) xs (by omega) (by omega) (dsm_default_inv K) hxs
  rw [dsmErr_default, Int.sub_zero] at h
  have hr := (aud_dsmErr_range _ (by omega) e2).2 (by omega)
  rw [e3, hl] at hr
  exact ⟨_, _, e1, by rw [h]; exact hr.1, by rw [h]; exact hr.2⟩

/-! ## 4. C17: the Unwrapper is EXACT at every step while the true unwrapped phase stays in `Q`'s range -/

/-- `Unwrapper::<Q>::update` over a whole run (`wq`-bit accumulator `Q`, `wp`-bit samples, `1 ≤ wp ≤ wq`): if the TRUE
    unwrapped phase — start value plus the exact (unbounded) sum of the returned increments — is a `Q` value after
    every prefix of the run (for the empty prefix: the start value is a `Q` value), then after EVERY prefix the wide
    output equals it exactly (nothing ever wrapped in the accumulator). -/
theorem aud_unwrapper_exact_run (wq wp : Nat) (hp : 0 < wp) (hpq : wp ≤ wq) (y : Int) (xs : List Int)
    (hfit : ∀ pre, pre <+: xs → inI wq (y + (unwrapperRun wq wp y pre).2.sum) = true) :
    ∀ pre, pre <+: xs → (unwrapperRun wq wp y pre).1 = y + (unwrapperRun wq wp y pre).2.sum := by
  intro pre hpre
  have hq : 0 < wq := by omega
  have hy : inI wq y = true := by simpa [unwrapperRun] using hfit [] (List.nil_prefix)
  have h := unwrapper_sum wq wp hp hpq y pre
  simp only at h
  rwa [wrapI_of_in hq (aud_unwrapperRun_in wq wp hq y hy pre), wrapI_of_in hq (hfit pre hpre)] at h

/-! ## 5. C12: `gain()` from any state; emit times of `decimate` from any state -/

/-- `gain()` (either profile) reads only `rate` and the order: from ANY state it equals `gain()` of the fresh
    filter of the same order and rate.  (`gain_eq`, `gain_eq_general`, `gain_ok`, `gainLog2_bound` of C12 are already
    stated for an arbitrary `s : Cic`, not for `Cic.new`.) -/
theorem aud_cic_gain_any_state (m : Mode) (w : Nat) (s : Cic) :
    s.gain m w = (Cic.new s.order s.rate).gain m w ∧
    (∀ t : Cic, t.rate = s.rate → t.order = s.order → t.gain m w = s.gain m w) := by
  refine ⟨by simp [Cic.gain, Cic.new, Cic.order], fun t hr ho => ?_⟩
  unfold Cic.order at ho
  unfold Cic.gain; rw [hr, ho]

/-- `Cic::decimate` from ANY state (any register contents) with `index = i` and `rate = R − 1`: call number `t`
    (0-based) returns `Some` EXACTLY when `t ≥ i` and `(t − i) % R = 0`, i.e. first at call `i`, then every `R` calls
    — for every width, order and input list.  (`decimate_emit_times` is the case `i = 0` from `Cic::new`; note that
    `i > rate` is possible for a hand-made state and simply delays the first output.) -/
theorem aud_decimate_emit_times_any_state (w rate : Nat) (s : Cic) (i : Nat) (hi : s.index = i)
    (hr : s.rate = rate) (xs : List Int) (t : Nat) (ht : t < xs.length) :
    ∃ o, (Cic.decimateList w s xs).2[t]? = some o ∧ (o.isSome = true ↔ i ≤ t ∧ (t - i) % (rate + 1) = 0) :=
  aud_decimate_emit w rate xs s i hi hr t ht

/-- for a state with `index ≤ rate` (every state reachable from `Cic::new`): in the form "offset": call `t` emits
    iff `(t + (R − i)) % R = 0`. -/
theorem aud_decimate_emit_times_offset (w rate : Nat) (s : Cic) (i : Nat) (hi : s.index = i) (hir : i ≤ rate)
    (hr : s.rate = rate) (xs : List Int) (t : Nat) (ht : t < xs.length) :
    ∃ o, (Cic.decimateList w s xs).2[t]? = some o ∧
      (o.isSome = true ↔ (t + (rate + 1 - i)) % (rate + 1) = 0) := by
  obtain ⟨o, e, h⟩ := aud_decimate_emit w rate xs s i hi hr t ht
  refine ⟨o, e, h.trans ?_⟩
  by_cases hle : i ≤ t
  · have e2 : t + (rate + 1 - i) = (t - i) + (rate + 1) := by omega
    rw [e2, Nat.add_mod_right]; simp [hle]
  · have hlt : t + (rate + 1 - i) < rate + 1 := by omega
    rw [Nat.mod_eq_of_lt hlt]
    constructor
    · rintro ⟨h, -⟩; omega
    · intro h; omega

/-- `tick()` predicts the emitting call from ANY state with a `u32` index (this is `decimate_tick_iff_some`,
    restated here for completeness of the any-state picture). -/
theorem aud_decimate_tick_any_state (w : Nat) (s : Cic) (hidx : 0 ≤ s.index) (x : Int) :
    (s.decimate w x).2.isSome = s.tick := decimate_tick_iff_some w s hidx x

/-! ## 6. C18: monotonicity stated on the MODEL function `saturatingScale` -/

/-- `saturating_scale`, `1 ≤ shift ≤ 16`, either profile: both calls return and the results are ordered like the
    arguments (`(hi, lo)` lexicographically). -/
theorem aud_sat_scale_monotone_le16_model (m : Mode) (lo hi lo' hi' shift : Int)
    (hlo : inI 32 lo = true) (hhi : inI 32 hi = true) (hlo' : inI 32 lo' = true) (hhi' : inI 32 hi' = true)
    (h1 : 1 ≤ shift) (h2 : shift ≤ 16) (hle : hi < hi' ∨ (hi = hi' ∧ lo ≤ lo')) :
    ∃ r r', saturatingScale m lo hi shift = .ok r ∧ saturatingScale m lo' hi' shift = .ok r' ∧ r ≤ r' :=
  ⟨_, _, sat_scale_eq_val m lo hi shift hlo hhi h1 (by omega),
    sat_scale_eq_val m lo' hi' shift hlo' hhi' h1 (by omega),
    sat_scale_monotone_le16 lo hi lo' hi' shift hlo hhi hlo' hhi' h1 h2 hle⟩

/-- `saturating_scale`, EVERY `17 ≤ shift ≤ 32`, either profile (defect F-C18-a on the model itself): the argument
    `(hi, lo) = (−2^(shift−1) + 1, i32::MIN)` is larger than `(−2^(shift−1), i32::MAX)`, both calls return, and the
    result for the LARGER argument is strictly SMALLER. -/
theorem aud_sat_scale_not_monotone_ge17_model (m : Mode) (shift : Int) (h1 : 17 ≤ shift) (h2 : shift ≤ 32) :
    ∃ r r', saturatingScale m (-(2 ^ 31)) (-(2 ^ (shift - 1).toNat) + 1) shift = .ok r ∧
      saturatingScale m (2 ^ 31 - 1) (-(2 ^ (shift - 1).toNat)) shift = .ok r' ∧
      -(2 ^ (shift - 1).toNat) < -(2 ^ (shift - 1).toNat) + 1 ∧ r < r' := by
  have hin : inI 32 (-(2 ^ (shift - 1).toNat) + 1) = true ∧ inI 32 (-(2 ^ (shift - 1).toNat)) = true := by
    have : shift = 17 ∨ shift = 18 ∨ shift = 19 ∨ shift = 20 ∨ shift = 21 ∨ shift = 22 ∨ shift = 23 ∨ shift = 24 ∨
        shift = 25 ∨ shift = 26 ∨ shift = 27 ∨ shift = 28 ∨ shift = 29 ∨ shift = 30 ∨ shift = 31 ∨ shift = 32 := by
      omega
    rcases this with h | h | h | h | h | h | h | h | h | h | h | h | h | h | h | h <;> subst h <;> decide
  exact ⟨_, _, sat_scale_eq_val m _ _ shift (by decide) hin.1 (by omega) h2,
    sat_scale_eq_val m _ _ shift (by decide) hin.2 (by omega) h2, by omega,
    sat_scale_not_monotone_ge17 shift h1 h2⟩

/-! ## non-vacuity -/

/-- `macc` on `i8`/Q2.6: both sides of the iff occur -/
example : (∃ v, macc .checked 8 6 5 100 (-128) 127 35 = .ok v) ∧
    ¬ ∃ v, macc .checked 8 6 5 32700 (-128) 127 35 = .ok v := by
  constructor
  · exact (aud_macc_checked_ok_iff 8 6 (by decide) (by decide) 5 100 (-128) 127 35 (by decide) (by decide)
      (by decide) (by decide) (by decide) (by decide) (by decide)).mpr (by decide)
  · rw [aud_macc_checked_ok_iff 8 6 (by decide) (by decide) 5 32700 (-128) 127 35 (by decide) (by decide)
      (by decide) (by decide) (by decide) (by decide) (by decide)]
    decide

/-- `mul_scaled` / `div_scaled` on `i8`/Q2.6: an unwrapped and a wrapped instance each -/
example : mulScaled .checked 8 6 100 (-70) = .ok (-109) ∧ divScaled 8 6 (-1) 3 = .ok (-21) ∧
    divScaled 8 6 64 1 = .ok 0 ∧ Int.tdiv (64 * 2 ^ 6) 1 = 4096 := by decide
example : mulScaled .checked 8 6 100 (-70) = .ok ((100 * (-70) + 2 ^ (6 - 1)) / 2 ^ 6) :=
  aud_mul_scaled_value_of_small .checked 8 6 (by decide) (by decide) 100 (-70) (by decide) (by decide)
    (by decide) (by decide)

/-- an invariant `K = 3` state with the memories at their extreme values (not `default()`) -/
example : ∃ sf ys, Dsm.run .checked ⟨[0xffffffff, 0x80000000, 1], [1, -1, -128]⟩ [0x87654321, 5, 0xfffffff0] = .ok (sf, ys) ∧
    -(2 ^ 2 * 2 ^ 32) < 2 ^ 32 * ys.sum - ([0x87654321, 5, 0xfffffff0] : List Int).sum ∧
    2 ^ 32 * ys.sum - ([0x87654321, 5, 0xfffffff0] : List Int).sum < 2 ^ 2 * 2 ^ 32 := by
  obtain ⟨sf, ys, e, -, h1, h2⟩ := aud_dsm_error_bound_from_sharp ⟨[0xffffffff, 0x80000000, 1], [1, -1, -128]⟩
    [0x87654321, 5, 0xfffffff0] (by decide) (by decide) (by rw [dsmInv_explicit]; decide) (by decide)
  exact ⟨sf, ys, e, h1, h2⟩

/-- `Unwrapper<i64>` on `i32` samples: three steps of `+2^30` (one wrap of the sample) stay far inside `i64` -/
example : (unwrapperRun 64 32 0 [2 ^ 30, -2 ^ 31, -2 ^ 30]).1 = 3 * 2 ^ 30 := by decide

/-- a hand-made `i8` state with `index = 5 > rate = 2`: the first output comes at call 5, then every 3 calls -/
example : (Cic.decimateList 8 ⟨2, 5, 0, [1], [2]⟩ [1, 1, 1, 1, 1, 1, 1, 1, 1, 1]).2.map Option.isSome
    = [false, false, false, false, false, true, false, false, true, false] := by decide

end Idsp
