import IdspModel.Lemmas.Dsm
import IdspModel.Props.C12
import IdspModel.Props.C17
/-!
# Helper lemmas for `Props/Audit1.lean`

* truncating division by a positive divisor against integer bounds;
* the sharp range of the Dsm error potential `dsmErr` on invariant states;
* the emit pattern of `Cic::decimate` as a function of the start index only;
* the `Unwrapper` accumulator stays a `Q` value.
-/
namespace Idsp

/-! ## truncating division -/

theorem aud_tdiv_of_neg {n d : Int} (hn : ¬ 0 ≤ n) : n.tdiv d = -((-n) / d) := by
  rw [← Int.tdiv_eq_ediv_of_nonneg (by omega), Int.neg_tdiv, Int.neg_neg]

theorem aud_tdiv_lt_iff {n d N : Int} (hd : 0 < d) (hN : 0 < N) : n.tdiv d < N ↔ n < N * d := by
  have h3 : 0 < N * d := Int.mul_pos hN hd
  by_cases hn : 0 ≤ n
  · rw [Int.tdiv_eq_ediv_of_nonneg hn, Int.ediv_lt_iff_lt_mul hd]
  · rw [aud_tdiv_of_neg hn]
    have h2 : 0 ≤ (-n) / d := Int.ediv_nonneg (by omega) (by omega)
    constructor <;> intro <;> omega

theorem aud_le_tdiv_iff {n d M : Int} (hd : 0 < d) (hM : 0 ≤ M) : -M ≤ n.tdiv d ↔ -((M + 1) * d) < n := by
  have h3 : 0 < (M + 1) * d := Int.mul_pos (by omega) hd
  by_cases hn : 0 ≤ n
  · rw [Int.tdiv_eq_ediv_of_nonneg hn]
    have h2 : 0 ≤ n / d := Int.ediv_nonneg hn (by omega)
    constructor <;> intro <;> omega
  · rw [aud_tdiv_of_neg hn]
    have h4 : (-n) / d < M + 1 ↔ -n < (M + 1) * d := Int.ediv_lt_iff_lt_mul hd
    constructor <;> intro <;> omega

/-- range of a truncated quotient, any non-zero divisor -/
theorem aud_tdiv_range_iff {n b H : Int} (hH : 0 < H) (hb : b ≠ 0) :
    (-H ≤ n.tdiv b ∧ n.tdiv b < H) ↔
      (0 < b ∧ -((H + 1) * b) < n ∧ n < H * b) ∨ (b < 0 ∧ H * b < n ∧ n < -((H + 1) * b)) := by
  by_cases hpos : 0 < b
  · rw [aud_le_tdiv_iff hpos (by omega), aud_tdiv_lt_iff hpos hH]
    constructor
    · rintro ⟨h1, h2⟩; exact Or.inl ⟨hpos, h1, h2⟩
    · rintro (⟨_, h1, h2⟩ | ⟨h, _, _⟩)
      · exact ⟨h1, h2⟩
      · omega
  · have hneg : b < 0 := by omega
    have e : n.tdiv b = (-n).tdiv (-b) := (Int.neg_tdiv_neg n b).symm
    rw [e, aud_le_tdiv_iff (by omega) (by omega), aud_tdiv_lt_iff (by omega) hH, Int.mul_neg, Int.mul_neg]
    constructor
    · rintro ⟨h1, h2⟩; exact Or.inr ⟨hneg, by omega, by omega⟩
    · rintro (⟨h, _, _⟩ | ⟨_, h1, h2⟩)
      · omega
      · exact ⟨by omega, by omega⟩

/-- range of a floor quotient by a positive divisor -/
theorem aud_ediv_range_iff {n d H : Int} (hd : 0 < d) :
    (-H ≤ n / d ∧ n / d < H) ↔ (-(H * d) ≤ n ∧ n < H * d) := by
  rw [Int.le_ediv_iff_mul_le hd, Int.ediv_lt_iff_lt_mul hd, Int.neg_mul]

/-! ## Dsm error potential -/

/-- the sharp range of the error potential on invariant states: `(-2^32, 0]` for `K = 1`,
    `(-2^(K-2)·2^32, 2^(K-2)·2^32]` for `K ≥ 2` — half of what `dsmErr_bound` states -/
theorem aud_dsmErr_range (s : Dsm) (hK1 : 1 ≤ s.a.length) (hs : DsmInv s) :
    (s.a.length = 1 → -(2 ^ 32) < dsmErr s ∧ dsmErr s ≤ 0) ∧
    (2 ≤ s.a.length → -(2 ^ (s.a.length - 2) * 2 ^ 32) < dsmErr s ∧ dsmErr s ≤ 2 ^ (s.a.length - 2) * 2 ^ 32) := by
  obtain ⟨hl, ha, hm⟩ := hs
  obtain ⟨sa, sc⟩ := s
  simp only at hl ha hm hK1
  match sa, hK1 with
  | a1 :: as, _ =>
    have ha1 := ha a1 List.mem_cons_self
    have h32 : (2 : Int) ^ 32 = 4294967296 := by decide
    simp only [dsmErr, dsmPhi_eq, List.headD_cons, List.length_cons, h32] at *
    constructor
    · intro h1
      have hsc : sc.length = 1 := by omega
      match sc, hsc with
      | [l], _ => simp only [dsmSndLast]; omega
    · intro h2
      have h2' : 2 ≤ sc.length := by omega
      have := DsmMemInv_sndLast 0 sc hm h2'
      have e : as.length + 1 - 2 = 0 + sc.length - 2 := by omega
      rw [e]
      have := two_pow_pos (0 + sc.length - 2)
      generalize (2 : Int) ^ (0 + sc.length - 2) = P at *
      omega

/-- two invariant states of the same order: their potentials differ by less than `2^(K-1)·2^32` -/
theorem aud_dsmErr_diff (s t : Dsm) (hK1 : 1 ≤ s.a.length) (hl : t.a.length = s.a.length)
    (hs : DsmInv s) (ht : DsmInv t) :
    -(2 ^ (s.a.length - 1) * 2 ^ 32) < dsmErr t - dsmErr s ∧ dsmErr t - dsmErr s < 2 ^ (s.a.length - 1) * 2 ^ 32 := by
  obtain ⟨s1, s2⟩ := aud_dsmErr_range s hK1 hs
  obtain ⟨t1, t2⟩ := aud_dsmErr_range t (by omega) ht
  rw [hl] at t1 t2
  by_cases h : s.a.length = 1
  · have := s1 h; have := t1 h
    rw [h]; simp only [Nat.sub_self, Int.pow_zero, Int.one_mul]; omega
  · have h2 : 2 ≤ s.a.length := by omega
    have := s2 h2; have := t2 h2
    have e : s.a.length - 1 = (s.a.length - 2) + 1 := by omega
    rw [e, Int.pow_succ]
    have := two_pow_pos (s.a.length - 2)
    generalize (2 : Int) ^ (s.a.length - 2) = P at *
    omega

/-! ## `Cic::decimate`: the emit pattern depends on the start index only -/

theorem aud_decimate_emit (w : Nat) (rate : Nat) (xs : List Int) (s : Cic) (i : Nat)
    (hi : s.index = i) (hr : s.rate = rate) (t : Nat) (ht : t < xs.length) :
    ∃ o, (Cic.decimateList w s xs).2[t]? = some o ∧
      (o.isSome = true ↔ i ≤ t ∧ (t - i) % (rate + 1) = 0) := by
  induction xs generalizing s i t with
  | nil => simp at ht
  | cons x xs ih =>
    simp only [Cic.decimateList]
    cases t with
    | zero =>
      refine ⟨(s.decimate w x).2, by simp, ?_⟩
      rw [decimate_tick_iff_some w s (by omega) x]
      simp only [Cic.tick, hi, decide_eq_true_eq]
      constructor
      · intro h; have : i = 0 := by omega
        subst this; simp
      · rintro ⟨h, -⟩; omega
    | succ t =>
      have ht' : t < xs.length := by simpa using ht
      by_cases h1 : 1 ≤ i
      · have hidx : (s.decimate w x).1.index = ((i - 1 : Nat) : Int) := by
          unfold Cic.decimate; simp only [hi]
          rw [if_pos (by omega)]; simp only; omega
        have hrate : (s.decimate w x).1.rate = rate := by
          unfold Cic.decimate; simp only; split <;> exact hr
        obtain ⟨o, e, h⟩ := ih (s.decimate w x).1 (i - 1) hidx hrate t ht'
        refine ⟨o, by simpa using e, h.trans ?_⟩
        have e1 : t - (i - 1) = t + 1 - i := by omega
        rw [e1]
        constructor
        · rintro ⟨a, b⟩; exact ⟨by omega, b⟩
        · rintro ⟨a, b⟩; exact ⟨by omega, b⟩
      · have hi0 : i = 0 := by omega
        subst hi0
        have hidx : (s.decimate w x).1.index = (rate : Int) := by
          unfold Cic.decimate; simp only [hi]
          rw [if_neg (by omega)]; exact hr
        have hrate : (s.decimate w x).1.rate = rate := by
          unfold Cic.decimate; simp only; split <;> exact hr
        obtain ⟨o, e, h⟩ := ih (s.decimate w x).1 rate hidx hrate t ht'
        refine ⟨o, by simpa using e, h.trans ?_⟩
        simp only [Nat.zero_le, true_and, Nat.sub_zero]
        constructor
        · rintro ⟨a, b⟩
          have e2 : t + 1 = (t - rate) + (rate + 1) := by omega
          rw [e2, Nat.add_mod_right]; exact b
        · intro b
          have hdvd : (rate + 1) ∣ (t + 1) := Nat.dvd_of_mod_eq_zero b
          have hle : rate + 1 ≤ t + 1 := Nat.le_of_dvd (by omega) hdvd
          have e2 : t + 1 = (t - rate) + (rate + 1) := by omega
          rw [e2, Nat.add_mod_right] at b
          exact ⟨by omega, b⟩

/-! ## `Unwrapper` -/

theorem aud_unwrapperRun_in (wq wp : Nat) (hq : 0 < wq) (y : Int) (hy : inI wq y = true) (xs : List Int) :
    inI wq (unwrapperRun wq wp y xs).1 = true := by
  induction xs generalizing y with
  | nil => exact hy
  | cons x xs ih =>
    simp only [unwrapperRun]
    exact ih _ (wrapI_in hq _)

end Idsp
