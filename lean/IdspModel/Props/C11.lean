import IdspModel.Lemmas.Lockin
import IdspModel.Props.C01
/-!
# C11 — lock-in: demodulating with the LO sample = demodulating with its phase; the mixer is exact

Property theorems only (helper lemmas: `IdspModel/Lemmas/Lockin.lean`; `cossin` facts from C01).

`lockinUpdate m st x p k0 k1` models `Lockin<Lowpass<2>>::update(sample = x, phase = p, &[k0, k1])` on the raw
state `st = (re.0[0], re.0[1], im.0[0], im.0[1])`; `lockinUpdateIq … c s …` models `update_iq` with the
local-oscillator sample `lo = c + i·s`.

NOT proved here (explored natively): the amplitude/phase recovery numbers of C11 (mean output `A/2` to `1e-3`,
angle `-θ` to `2e-4` rad after `40·2^32/k` samples); the known finding about the angle error at small amplitude
(`A = 2^23`, `k ≈ 2.5e6`) is a property of `Lowpass<2>`'s truncation, not of the mixer.

The second half of this file covers the general `Complex<i32>` helpers of `complex.rs` used by the lock-in users
(`abs_sqr`, `log2`, the three `mul_scaled` impls, saturating add/sub) for ALL `i32` operands.
-/
namespace Idsp

/-! ## 1. `update` = `update_iq ∘ from_angle` -/

/-- For every state, sample, phase (in range or not), lowpass configuration and build mode: `update` is literally
    `from_angle` followed by `update_iq` with that LO sample (it panics iff one of the two does). -/
theorem lockin_update_eq_bind (m : Mode) (st : Int × Int × Int × Int) (x p k0 k1 : Int) :
    lockinUpdate m st x p k0 k1 =
      (fromAngle m p).bind (fun (c, s) => lockinUpdateIq m st x c s k0 k1) := rfl

/-- "Demodulating with an explicit local-oscillator sample gives exactly the same output as demodulating with its
    phase": for every `i32` phase `p` the LO sample `(c, s) = cossin p` exists (C01: `cossin` never panics, in
    either build mode), and for EVERY raw filter state, sample and lowpass configuration, `update` with phase `p`
    and `update_iq` with `(c, s)` return the same thing — same new state and same output, or the same panic of
    the lowpass. -/
theorem lockin_update_eq_update_iq (m : Mode) (st : Int × Int × Int × Int) (x p k0 k1 : Int)
    (hp : inI 32 p = true) :
    ∃ c s, cossin .checked p = .ok (c, s) ∧ fromAngle m p = .ok (c, s) ∧
      lockinUpdate m st x p k0 k1 = lockinUpdateIq m st x c s k0 k1 := by
  obtain ⟨c, s, hc, _⟩ := cossin_total p hp
  have hm : fromAngle m p = .ok (c, s) := by
    unfold fromAngle; rw [cossin_mode_irrelevant m p hp, hc]
  refine ⟨c, s, hc, hm, ?_⟩
  rw [lockin_update_eq_bind, hm]; rfl

/-- the same, phrased for a given LO sample -/
theorem lockin_update_of_cossin (m : Mode) (st : Int × Int × Int × Int) (x p k0 k1 c s : Int)
    (hp : inI 32 p = true) (h : cossin .checked p = .ok (c, s)) :
    lockinUpdate m st x p k0 k1 = lockinUpdateIq m st x c s k0 k1 := by
  obtain ⟨c', s', hc, _, he⟩ := lockin_update_eq_update_iq m st x p k0 k1 hp
  rw [h] at hc
  obtain ⟨rfl, rfl⟩ := Prod.mk.inj (Except.ok.inj hc)
  exact he

/-! ## 2. the mixer `Complex<i32>::mul_scaled(i32)` -/

/-- The mixer never panics, for ANY `i32` operands and in either build mode (`|o·re| ≤ 2^62 < 2^63`); its result
    is `(o·re >> 31) as i32`, `(o·im >> 31) as i32` (floor division, then the wrapping cast). -/
theorem cmul_scaled_i32_never_panics (m : Mode) (re im o : Int) (hre : inI 32 re = true) (him : inI 32 im = true)
    (ho : inI 32 o = true) :
    cmulScaledI32 m re im o = .ok (wrapI 32 (o * re / 2 ^ 31), wrapI 32 (o * im / 2 ^ 31)) :=
  cmulScaledI32_eq m hre him ho

/-- The wrapping cast is the identity — the result is exactly `⌊o·re / 2^31⌋` — unless `o` and that component are
    both `i32::MIN`; in that case `|⌊o·re/2^31⌋| ≤ 2^31 - 1`. -/
theorem cmul_scaled_i32_exact (m : Mode) (re im o : Int) (hre : inI 32 re = true) (him : inI 32 im = true)
    (ho : inI 32 o = true) (h1 : re ≠ -2 ^ 31 ∨ o ≠ -2 ^ 31) (h2 : im ≠ -2 ^ 31 ∨ o ≠ -2 ^ 31) :
    cmulScaledI32 m re im o = .ok (o * re / 2 ^ 31, o * im / 2 ^ 31) ∧
    inI 32 (o * re / 2 ^ 31) = true ∧ inI 32 (o * im / 2 ^ 31) = true := by
  have a := lockin_scaled_fits ho hre (by omega)
  have b := lockin_scaled_fits ho him (by omega)
  rw [cmulScaledI32_eq m hre him ho, a.1, b.1]
  exact ⟨rfl, lockin_inI32 (by omega) a.2.2, lockin_inI32 (by omega) b.2.2⟩

/-- … and the excluded case does wrap: `MIN·MIN >> 31 = 2^31` is cast to `i32::MIN` (sign flip; both builds) -/
theorem cmul_scaled_i32_min_min_wraps :
    cmulScaledI32 .checked (-2 ^ 31) 0 (-2 ^ 31) = .ok (-2 ^ 31, 0) ∧
    cmulScaledI32 .release (-2 ^ 31) 0 (-2 ^ 31) = .ok (-2 ^ 31, 0) ∧
    (-2 ^ 31 : Int) * (-2 ^ 31) / 2 ^ 31 = 2 ^ 31 := by decide +kernel

/-- For a local oscillator sample produced by `cossin` (any `i32` phase) and ANY `i32` input sample the mixer is
    exact in both components (no wrap, no panic), and neither mixed component exceeds the input sample in
    magnitude. -/
theorem lockin_mixer_exact (m : Mode) (p x c s : Int) (hp : inI 32 p = true) (hx : inI 32 x = true)
    (h : cossin .checked p = .ok (c, s)) :
    cmulScaledI32 m c s x = .ok (x * c / 2 ^ 31, x * s / 2 ^ 31) ∧
    (-x.natAbs ≤ x * c / 2 ^ 31 ∧ x * c / 2 ^ 31 ≤ x.natAbs) ∧
    (-x.natAbs ≤ x * s / 2 ^ 31 ∧ x * s / 2 ^ 31 ≤ x.natAbs) := by
  obtain ⟨⟨c0, c1⟩, ⟨s0, s1⟩, _⟩ := cossin_range p hp c s h
  have hc : inI 32 c = true := lockin_inI32 (by omega) (by omega)
  have hs : inI 32 s = true := lockin_inI32 (by omega) (by omega)
  refine ⟨(cmul_scaled_i32_exact m c s x hc hs hx (by omega) (by omega)).1, ?_, ?_⟩
  · have := lockin_scaled_le (o := x) (x := c) hx (by omega) (by omega)
    split at this <;> omega
  · have := lockin_scaled_le (o := x) (x := s) hx (by omega) (by omega)
    split at this <;> omega

/-- The whole lock-in step with a `cossin` LO: it is two independent second-order lowpass updates fed with the
    exact products `⌊x·c/2^31⌋`, `⌊x·s/2^31⌋`; the lock-in adds no panic site of its own (all that can panic is the
    lowpass state arithmetic, see C10). -/
theorem lockin_step (m : Mode) (a0 a1 b0 b1 x p k0 k1 c s : Int) (hp : inI 32 p = true) (hx : inI 32 x = true)
    (h : cossin .checked p = .ok (c, s)) :
    lockinUpdate m (a0, a1, b0, b1) x p k0 k1 = (do
      let (a0', a1', yre) ← lp2Update m a0 a1 (x * c / 2 ^ 31) k0 k1
      let (b0', b1', yim) ← lp2Update m b0 b1 (x * s / 2 ^ 31) k0 k1
      .ok ((a0', a1', b0', b1'), yre, yim)) := by
  rw [lockin_update_of_cossin m _ x p k0 k1 c s hp h]
  unfold lockinUpdateIq
  simp only [(lockin_mixer_exact m p x c s hp hx h).1, bind_ok']

/-- non-vacuity: a concrete lock-in step from rest (phase `2^28`, sample `10^9`, `k = [2^20, -2^21]`) -/
example : lockinUpdate .checked (0, 0, 0, 0) 1000000000 (2 ^ 28) (2 ^ 20) (-2 ^ 21) =
    lockinUpdateIq .checked (0, 0, 0, 0) 1000000000 1983988115 821804495 (2 ^ 20) (-2 ^ 21) := by
  decide +kernel
example : cossin .checked (2 ^ 28) = .ok (1983988115, 821804495) := by decide +kernel
example : cmulScaledI32 .checked 1983988115 821804495 1000000000 = .ok (923866459, 382682539) := by
  decide +kernel

/-! ## 3. `Complex<i32>::mul_scaled(i16)` -/

/-- `mul_scaled(i16)`: for every `Complex<i32>` and every `i16` factor neither the product `o·(re >> 16)` (at most
    `2^30`, for `o = re>>16 = -32768`) nor the rounding offset `+ 2^14` overflows `i32`, in either build mode; the
    result is `⌊(o·⌊re/2^16⌋ + 2^14) / 2^15⌋ ∈ [-32767, 32768]`. -/
theorem cmul_scaled_i16_never_panics (m : Mode) (re im o : Int) (hre : inI 32 re = true) (him : inI 32 im = true)
    (ho : inI 16 o = true) :
    cmulScaledI16 m re im o = .ok ((o * (re / 2 ^ 16) + 2 ^ 14) / 2 ^ 15, (o * (im / 2 ^ 16) + 2 ^ 14) / 2 ^ 15) ∧
    (-32767 ≤ (o * (re / 2 ^ 16) + 2 ^ 14) / 2 ^ 15 ∧ (o * (re / 2 ^ 16) + 2 ^ 14) / 2 ^ 15 ≤ 32768) ∧
    (-32767 ≤ (o * (im / 2 ^ 16) + 2 ^ 14) / 2 ^ 15 ∧ (o * (im / 2 ^ 16) + 2 ^ 14) / 2 ^ 15 ≤ 32768) := by
  have ho' := inI_iff.mp ho
  simp only [Nat.reduceSub] at ho'
  exact cmulScaledI16_eq m hre him (by omega) (by omega)

/-- the extreme case: both bounds of the result range are attained -/
example : cmulScaledI16 .checked (-2 ^ 31) (2 ^ 31 - 1) (-32768) = .ok (32768, -32767) := by decide +kernel

/-! ## 4. `Complex<i32>::mul_scaled(Complex<i32>)` -/

/-- `mul_scaled(Complex)`: with overflow checks on it panics for exactly ONE operand pair out of `2^128`, all four
    components `i32::MIN` (`b·c + a·d = 2^63`); `a·c - b·d` can never overflow. -/
theorem cmul_scaled_c_panics_iff (a b c d : Int) (ha : inI 32 a = true) (hb : inI 32 b = true)
    (hc : inI 32 c = true) (hd : inI 32 d = true) :
    (∃ e, cmulScaledC .checked a b c d = .error e) ↔
      (a = -2 ^ 31 ∧ b = -2 ^ 31 ∧ c = -2 ^ 31 ∧ d = -2 ^ 31) := by
  constructor
  · rintro ⟨e, he⟩
    by_contra hn
    rw [cmulScaledC_eq .checked ha hb hc hd (by omega)] at he
    cases he
  · rintro ⟨rfl, rfl, rfl, rfl⟩
    exact ⟨⟨"complex.rs:116 b*c + a*d"⟩, by decide +kernel⟩

/-- the witness, and what the release build returns there: `2^63` wraps to `-2^63`, so the imaginary part is `0`
    instead of saturating — `(-1-i)·(-1-i) = 2i` comes out as `0` -/
theorem cmul_scaled_c_min_witness :
    cmulScaledC .checked (-2 ^ 31) (-2 ^ 31) (-2 ^ 31) (-2 ^ 31) = .error ⟨"complex.rs:116 b*c + a*d"⟩ ∧
    cmulScaledC .release (-2 ^ 31) (-2 ^ 31) (-2 ^ 31) (-2 ^ 31) = .ok (0, 0) := by decide +kernel

/-- everywhere else both builds return `((a·c - b·d) >> 31) as i32`, `((b·c + a·d) >> 31) as i32` (the casts wrap:
    the quotients range over `(-2^32, 2^32)`) -/
theorem cmul_scaled_c_value (m : Mode) (a b c d : Int) (ha : inI 32 a = true) (hb : inI 32 b = true)
    (hc : inI 32 c = true) (hd : inI 32 d = true)
    (h : ¬ (a = -2 ^ 31 ∧ b = -2 ^ 31 ∧ c = -2 ^ 31 ∧ d = -2 ^ 31)) :
    cmulScaledC m a b c d = .ok (wrapI 32 ((a * c - b * d) / 2 ^ 31), wrapI 32 ((b * c + a * d) / 2 ^ 31)) :=
  cmulScaledC_eq m ha hb hc hd (by omega)

/-- the cast does wrap for large operands: `(MAX + i·MAX)² = 2i·MAX²`, imaginary quotient `2^32 - 4 ↦ -4` -/
example : cmulScaledC .checked (2 ^ 31 - 1) (2 ^ 31 - 1) (2 ^ 31 - 1) (2 ^ 31 - 1) = .ok (0, -4) := by
  decide +kernel

/-! ## 5. `abs_sqr`, `log2` for all operands (the documented panic) -/

/-- `abs_sqr` panics (checked build) exactly for `Complex(i32::MIN, i32::MIN)`, as documented. -/
theorem abs_sqr_panics_iff (re im : Int) (hre : inI 32 re = true) (him : inI 32 im = true) :
    (∃ e, absSqr .checked re im = .error e) ↔ (re = -2 ^ 31 ∧ im = -2 ^ 31) := by
  constructor
  · rintro ⟨e, he⟩
    by_contra hn
    rw [absSqr_eq .checked hre him (by omega)] at he
    cases he
  · rintro ⟨rfl, rfl⟩
    exact ⟨⟨"complex.rs:52 +"⟩, by decide +kernel⟩

/-- Everywhere else, in both builds, `abs_sqr = ⌊(re² + im²) / 2^31⌋`, a `u32` (the `as u32` cast loses nothing). -/
theorem abs_sqr_value (m : Mode) (re im : Int) (hre : inI 32 re = true) (him : inI 32 im = true)
    (h : ¬ (re = -2 ^ 31 ∧ im = -2 ^ 31)) :
    absSqr m re im = .ok ((re * re + im * im) / 2 ^ 31) ∧ inU 32 ((re * re + im * im) / 2 ^ 31) = true := by
  have n := lockin_norm_i32 hre him (by omega)
  refine ⟨absSqr_eq m hre him (by omega), ?_⟩
  rw [inU_iff]; omega

/-- the release build at the panicking input returns 0 (true value `2^32`, one more than `u32::MAX`) -/
example : absSqr .release (-2 ^ 31) (-2 ^ 31) = .ok 0 := by decide +kernel
/-- the two documented examples -/
example : absSqr .checked (-2 ^ 31) 0 = .ok (2 ^ 31) ∧ absSqr .checked (2 ^ 31 - 1) (2 ^ 31 - 1) = .ok (2 ^ 32 - 1 - 3) := by
  decide +kernel

/-- `log2` panics (checked build) exactly for `Complex(i32::MIN, i32::MIN)`, as documented. -/
theorem log2_panics_iff (re im : Int) (hre : inI 32 re = true) (him : inI 32 im = true) :
    (∃ e, clog2 .checked re im = .error e) ↔ (re = -2 ^ 31 ∧ im = -2 ^ 31) := by
  constructor
  · rintro ⟨e, he⟩
    by_contra hn
    rw [(clog2_eq .checked hre him (by omega)).1] at he
    cases he
  · rintro ⟨rfl, rfl⟩
    exact ⟨⟨"complex.rs:72 +"⟩, by decide +kernel⟩

/-- Everywhere else, in both builds, `log2` returns `l ∈ [-64, -1]` with `re² + im² < 2^(64+l)`, and
    `2^(63+l) ≤ re² + im²` unless the power is `0` (then `l = -64`): `l = ⌊log2(re² + im²)⌋ - 63`. -/
theorem log2_value (m : Mode) (re im : Int) (hre : inI 32 re = true) (him : inI 32 im = true)
    (h : ¬ (re = -2 ^ 31 ∧ im = -2 ^ 31)) :
    ∃ l : Int, clog2 m re im = .ok l ∧ -64 ≤ l ∧ l ≤ -1 ∧
      re * re + im * im < 2 ^ (64 + l).toNat ∧
      (re * re + im * im ≠ 0 → 2 ^ (63 + l).toNat ≤ re * re + im * im) ∧
      (re * re + im * im = 0 → l = -64) := by
  obtain ⟨he, h1, h2⟩ := clog2_eq m hre him (by omega)
  have n := lockin_norm_i32 hre him (by omega)
  refine ⟨_, he, by omega, by omega, ?_⟩
  generalize re * re + im * im = s at *
  by_cases hs : s ≤ 0
  · have s0 : s = 0 := by omega
    subst s0
    refine ⟨by decide, fun hne => absurd rfl hne, fun _ => by decide⟩
  · have hne : s.toNat ≠ 0 := by omega
    have hlt : s.toNat.log2 < 63 := (Nat.log2_lt hne).mpr (by omega)
    have e : clz 64 s = 63 - s.toNat.log2 := by unfold clz; simp only [hs, if_false]; omega
    have l0 := Nat.log2_self_le hne
    have l1 := Nat.lt_log2_self (n := s.toNat)
    have t1 : (64 + -((clz 64 s : Nat) : Int)).toNat = s.toNat.log2 + 1 := by rw [e]; omega
    have t2 : (63 + -((clz 64 s : Nat) : Int)).toNat = s.toNat.log2 := by rw [e]; omega
    rw [t1, t2]
    have c0 : ((2 ^ s.toNat.log2 : Nat) : Int) ≤ s := by omega
    have c1 : s < ((2 ^ (s.toNat.log2 + 1) : Nat) : Int) := by omega
    push_cast at c0 c1
    exact ⟨c1, fun _ => c0, fun h0 => by omega⟩

/-- the four documented examples -/
example : clog2 .checked (2 ^ 31 - 1) (2 ^ 31 - 1) = .ok (-1) ∧ clog2 .checked (2 ^ 31 - 1) 0 = .ok (-2) ∧
    clog2 .checked 1 0 = .ok (-63) ∧ clog2 .checked 0 0 = .ok (-64) := by decide +kernel

/-! ## 6. saturating add / sub -/

/-- `saturating_add`, `saturating_sub`: both components are always `i32` values, equal to the exact sum /
    difference whenever that fits and to the nearer end of the range otherwise (no panic possible). -/
theorem csat_add_sub_range (a b c d : Int) :
    let r := csatAdd a b c d
    let q := csatSub a b c d
    inI 32 r.1 = true ∧ inI 32 r.2 = true ∧ inI 32 q.1 = true ∧ inI 32 q.2 = true ∧
    (inI 32 (a + c) = true → r.1 = a + c) ∧ (inI 32 (b + d) = true → r.2 = b + d) ∧
    (inI 32 (a - c) = true → q.1 = a - c) ∧ (inI 32 (b - d) = true → q.2 = b - d) ∧
    (2 ^ 31 ≤ a + c → r.1 = 2 ^ 31 - 1) ∧ (a + c < -2 ^ 31 → r.1 = -2 ^ 31) ∧
    (2 ^ 31 ≤ a - c → q.1 = 2 ^ 31 - 1) ∧ (a - c < -2 ^ 31 → q.1 = -2 ^ 31) := by
  simp only [csatAdd, csatSub]
  have s1 := lockin_satI32 (a + c)
  have s2 := lockin_satI32 (b + d)
  have s3 := lockin_satI32 (a - c)
  have s4 := lockin_satI32 (b - d)
  refine ⟨lockin_inI32 s1.1 s1.2.1, lockin_inI32 s2.1 s2.2.1, lockin_inI32 s3.1 s3.2.1, lockin_inI32 s4.1 s4.2.1,
    fun h => ?_, fun h => ?_, fun h => ?_, fun h => ?_, fun h => ?_, fun h => ?_, fun h => ?_, fun h => ?_⟩
  · have := lockin_i32 h; exact s1.2.2.1 this.1 this.2
  · have := lockin_i32 h; exact s2.2.2.1 this.1 this.2
  · have := lockin_i32 h; exact s3.2.2.1 this.1 this.2
  · have := lockin_i32 h; exact s4.2.2.1 this.1 this.2
  · rw [s1.2.2.2.2 (by omega)]; rfl
  · rw [s1.2.2.2.1 (by omega)]; rfl
  · rw [s3.2.2.2.2 (by omega)]; rfl
  · rw [s3.2.2.2.1 (by omega)]; rfl

example : csatAdd (2 ^ 31 - 1) (-2 ^ 31) 1 (-1) = (2 ^ 31 - 1, -2 ^ 31) := by decide

end Idsp
