import IdspModel.Lemmas.HbfSpecInst
/-! Kernel-evaluated certificate: the depth-1 cascade gain is at most `1/10^7` (`= 10^(-140/20)`, i.e. -140 dB)
    in absolute value on the whole cell `cos φ ∈ [-1, -5184444/2^24]` (`φ` = angle at the highest-rate stage), which contains
    the stop band `f ∈ [0.6, 2^(1-1)]`.  See `Lemmas/HbfSpecCheck.lean` for the checker and its soundness. -/
namespace Idsp
namespace HbfSpec

theorem stopCheck1 : bisectAbs 24 (hbfStages 1) 1 (10 ^ 7) 30 (-(2 ^ 24)) (-5184444) = true := by
  decide +kernel

end HbfSpec
end Idsp
